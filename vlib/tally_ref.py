"""Reference tally for C11: expected authorization attributes and accounting counts of a slice,
computed from the generator's BUILD SCRIPT only (never from the graph or from any library query).

Build script (JSON-able):
    {'store': 'shared'|'disjoint',
     'nodes': [ {'kind': 'node', 'name', 'site', 'ntype', 'capacities': {core,ram,disk,...}|None,
                 'components': [{'name', 'model'}]}
              | {'kind': 'switch', 'name', 'site', 'nports'}
              | {'kind': 'facility', 'name', 'site', 'bw', 'ifnames': None|[names]} ],
     'services': [ {'name', 'nstype', 'interfaces': [[owner name, interface name], ...], 'bw': int|None,
                    'site': str|None (explicit constructor argument),
                    'from': str (PortMirror only: name of the mirrored port),
                    'peer_labels': {str(index into interfaces): {label: value}}} ]}
'peer_labels' are the labels put on the service-side port that peers with the given node interface (what the
orchestrator does with labels.local_name).

`vocab` (discovered at run time from a scratch topology by the check, never from the slice under judgement):
    {'models': {model name: {'type': component type string, 'ports': [port suffixes], 'builtin': [service types]}},
     'switch_builtin': [service types], 'facility_builtin': [service types]}
"""
from collections import Counter

# service types whose ServiceConstraints carry no limit on the number of sites: validate() never infers a site
NO_SITE_LIMIT = {'L2Multisite', 'L3VPN'}
EXT_TYPES = {'FABNetv4Ext': 'fabnetv4-ext-site', 'FABNetv6Ext': 'fabnetv6-ext-site'}
MIRROR = 'PortMirror'

# short attribute names used by the reference and in mechanism keys -> name of the class constant
ATTR_CONST = {
    'cpu': 'RESOURCE_CPU', 'ram': 'RESOURCE_RAM', 'disk': 'RESOURCE_DISK', 'bw': 'RESOURCE_BW',
    'site': 'RESOURCE_SITE', 'component': 'RESOURCE_COMPONENT', 'fabnetv4-ext-site': 'RESOURCE_FABNETV4_EXT',
    'fabnetv6-ext-site': 'RESOURCE_FABNETV6_EXT', 'mirrorsite': 'RESOURCE_MIRROR_SITE',
    'facility-port': 'RESOURCE_FACILITY_PORT',
}
SET_ATTRS = {'site', 'fabnetv4-ext-site', 'fabnetv6-ext-site', 'mirrorsite'}      # de-duplicated by the collector
INT_ATTRS = {'cpu', 'ram', 'disk', 'bw'}
# independent pin of how each attribute has to appear in the XACML request (datatype suffix, category suffix)
PDP_PIN = {k: ('integer' if k in INT_ATTRS else 'string', 'attribute-category:resource') for k in ATTR_CONST}


def owners(script):
    return {n['name']: n for n in script['nodes']}


def service_site(script, svc):
    """Site of a service after Topology.validate(): the constructor argument, else - for service types with a
    limit on the number of sites - the single site of the nodes owning its interfaces, else none."""
    if svc.get('site'):
        return svc['site']
    if svc['nstype'] in NO_SITE_LIMIT:
        return None
    own = owners(script)
    sites = {own[ref[0]]['site'] for ref in svc['interfaces']}
    return sites.pop() if len(sites) == 1 else None


def in_slice_ports(script):
    """Local names carried by the service-side peer of an interface of a (non-facility) node of the slice."""
    own = owners(script)
    out = set()
    for svc in script['services']:
        for idx, lab in (svc.get('peer_labels') or {}).items():
            ref = svc['interfaces'][int(idx)]
            if own[ref[0]]['kind'] == 'facility':
                continue
            if lab and lab.get('local_name') is not None:
                out.add(lab['local_name'])
    return out


def mirror_exempt(script, svc):
    return svc['nstype'] == MIRROR and svc['from'] in in_slice_ports(script)


def builtin_services(script, vocab):
    """(type, site) of the services that come with NIC/FPGA components, switches and facilities."""
    out = []
    for n in script['nodes']:
        if n['kind'] == 'node':
            for c in n['components']:
                out += [(t, n['site']) for t in vocab['models'][c['model']]['builtin']]
        elif n['kind'] == 'switch':
            out += [(t, n['site']) for t in vocab['switch_builtin']]
        else:
            out += [(t, n['site']) for t in vocab['facility_builtin']]
    return out


def authz(script, vocab):
    """Expected attributes: short name -> sorted list (set attributes de-duplicated)."""
    cpu, ram, disk, bw, comp, fac = [], [], [], [], [], []
    sites, ext = set(), {v: set() for v in EXT_TYPES.values()}
    mirror = set()
    for n in script['nodes']:
        sites.add(n['site'])            # a facility's site arrives through its built-in service after validate()
        if n['kind'] == 'facility':
            fac.append(n['name'])
            continue
        if n['kind'] == 'node':
            c = n.get('capacities')
            if c:
                cpu.append(c.get('core', 0))
                ram.append(c.get('ram', 0))
                disk.append(c.get('disk', 0))
            comp += [vocab['models'][x['model']]['type'] for x in n['components']]
    for s in script['services']:
        st = service_site(script, s)
        if st:
            sites.add(st)
        if s.get('bw') is not None:
            bw.append(s['bw'])
        if s['nstype'] in EXT_TYPES:
            ext[EXT_TYPES[s['nstype']]].add(st)
        if s['nstype'] == MIRROR and not mirror_exempt(script, s):
            mirror.add(st)
    out = {'cpu': sorted(cpu), 'ram': sorted(ram), 'disk': sorted(disk), 'bw': sorted(bw), 'component': sorted(comp),
           'facility-port': sorted(fac), 'site': sorted(sites), 'mirrorsite': sorted(mirror)}
    for k, v in ext.items():
        out[k] = sorted(v)
    return out


def resource_type(script):
    return ['switch-p4'] if any(n['kind'] == 'switch' for n in script['nodes']) else ['sliver']


def pop_simulation(script, stored_order):
    """What the collector's list.pop() exemption yields for the mirror-site attribute when the services are visited
    in `stored_order` (list of service names): used ONLY to attribute a mismatch to that mechanism."""
    byname = {s['name']: s for s in script['services']}
    inside = in_slice_ports(script)
    lst = []
    for nm in stored_order:
        s = byname.get(nm)
        if s is None or s['nstype'] != MIRROR:
            continue
        st = service_site(script, s)
        if st not in lst:
            lst.append(st)
        if s['from'] in inside and lst:
            lst.pop()
    return sorted(lst)


def accounting(script, vocab):
    """Expected LogCollector content."""
    vms = [n for n in script['nodes'] if n['kind'] == 'node' and n['ntype'] == 'VM']
    caps = [n['capacities'] for n in vms if n.get('capacities')]
    comps = Counter()
    sites = set()
    for n in script['nodes']:
        sites.add(n['site'])
        if n['kind'] == 'node':
            comps.update(vocab['models'][x['model']]['type'] for x in n['components'])
    services = [(t, 0) for t, _ in builtin_services(script, vocab)]
    for s in script['services']:
        services.append((s['nstype'], s['bw'] if s.get('bw') is not None else 0))
        st = service_site(script, s)
        if st:
            sites.add(st)
    return {'vm_count': len(vms),
            'core_count': sum(c.get('core', 0) for c in caps),
            'p4_count': sum(1 for n in script['nodes'] if n['kind'] == 'switch'),
            'nodes': sorted([c.get('core', 0), c.get('ram', 0), c.get('disk', 0)] for c in caps),
            'components': dict(sorted(comps.items())),
            'services': sorted([t, b] for t, b in services),
            'facilities': sorted(n['name'] for n in script['nodes'] if n['kind'] == 'facility'),
            'sites': sorted(sites)}
