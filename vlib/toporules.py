"""The published graph rules (fim/graph/data/graph_validation_rules.json) and the containment
clauses of property C07 transliterated to Python over a canonical snapshot (TM), plus the
read-only-view checks."""
import hashlib
import json
import os
import re

from .topogen import TM


def load_vocab():
    """Vocabulary lists are read from the published rule texts (an edit of the JSON is honoured and visible
    through the hash recorded in the evidence)."""
    import fim.graph as g
    path = os.path.join(os.path.dirname(g.__file__), 'data', 'graph_validation_rules.json')
    with open(path) as f:
        txt = f.read()
    rules = json.loads(txt)
    voc = {}
    for r in rules:
        m = re.match(r'MATCH \(n:(\w+) \{GraphID: \$graphId\}\) RETURN ALL\(r IN collect\(n\) WHERE r\.(Class|Type) IN \[(.*?)\]\)',
                     r['rule'])
        if m:
            vals = re.findall(r'"([^"]+)"', m.group(3))
            voc[('Class' if m.group(2) == 'Class' else m.group(1))] = vals
    return voc, hashlib.sha1(txt.encode()).hexdigest()[:12], len(rules)


def check_rules(tm: TM, voc):
    """Returns a list of (mechanism-suffix, clause, detail)."""
    out = []
    c = tm.c
    if c.get('dup_node_ids'):
        out.append(('node-ids-not-distinct', 'rule 2: NodeIDs are distinct', {'dups': c['dup_node_ids']}))
    for i, p in tm.n.items():
        miss = [k for k in ('Class', 'NodeID', 'Type', 'Name') if p.get(k) is None]
        if miss:
            out.append(('missing-identity-property', 'rule 1: every node has Class, NodeID, Type and Name', {'node': i, 'missing': miss}))
            continue
        cl = p['Class']
        if cl not in voc['Class']:
            out.append(('class-not-in-vocabulary', 'rule 3: allowed classes', {'node': i, 'class': cl}))
            continue
        if cl in voc and p['Type'] not in voc[cl]:
            out.append((f'type-not-in-published-rule:{cl}:{p["Type"]}', f'rules 4-8: the type of a {cl} is in the published list',
                        {'node': i, 'class': cl, 'type': p['Type'], 'published': voc[cl]}))
    for comp in tm.ids('Component'):
        owners = [j for j in tm.nb(comp, 'has') if tm.cls(j) in ('NetworkNode', 'CompositeNode')]
        if len(owners) != 1:
            out.append(('component-owner-count', 'rule 9: each component belongs to exactly one node', {'component': comp, 'owners': owners}))
    for l in tm.ids('Link'):
        bad = [j for j in tm.nb(l, 'connects') if tm.cls(j) != 'ConnectionPoint']
        bad += [j for j in tm.nb(l) if tm.adj[l][j] != 'connects']
        if bad:
            out.append(('link-touches-non-interface', 'rule 10: links join only interfaces', {'link': l, 'others': bad}))
    for cp in tm.ids('ConnectionPoint'):
        t = tm.typ(cp)
        if t == 'ServicePort':
            peers = tm.peers(cp)
            if len(peers) != 1:
                out.append(('service-port-peer-count', 'rule 13: every service port has exactly one peer',
                            {'port': cp, 'name': tm.name(cp), 'peers': peers}))
        if t == 'SubInterface':
            owners = [j for j in tm.nb(cp, 'connects', 'ConnectionPoint') if tm.typ(j) != 'SubInterface']
            extra = tm.nb(cp, 'connects', 'NetworkService')
        else:
            owners = tm.nb(cp, 'connects', 'NetworkService')
            extra = []
        if len(owners) != 1 or extra:
            out.append(('interface-owner-count', 'each interface belongs to exactly one service or parent interface',
                        {'interface': cp, 'name': tm.name(cp), 'type': t, 'owners': owners + extra}))
    # names unique in scope

    def uniq(ids, scope, what):
        seen = {}
        for i in ids:
            seen.setdefault(tm.name(i), []).append(i)
        for nm, l in seen.items():
            if len(l) > 1:
                out.append((f'duplicate-name:{what}', f'names are unique in their scope ({what})', {'scope': scope, 'name': nm, 'ids': l}))
    uniq(tm.ids('NetworkNode') + tm.ids('CompositeNode'), 'topology', 'node')
    uniq(tm.ids('Link'), 'topology', 'link')
    uniq(tm.top_services(), 'topology', 'service')
    for n in tm.ids('NetworkNode'):
        uniq(tm.components(n), n, 'component')
        uniq(tm.services_of(n), n, 'node-service')
        for comp in tm.components(n):
            uniq(tm.services_of(comp), comp, 'component-service')
    for s in tm.ids('NetworkService'):
        uniq(tm.ifaces_of_service(s), s, 'interface')
    for cp in tm.ids('ConnectionPoint'):
        if tm.typ(cp) != 'SubInterface':
            uniq(tm.children(cp), cp, 'sub-interface')
    return out


def _ids(view):
    return sorted(v.node_id for v in view.values())


def check_views(topo, tm: TM, probe_mutation=True):
    """Read-only views list exactly the elements present and cannot be used to modify the model."""
    out = []

    def unique_names(ids):
        cnt = {}
        for i in ids:
            cnt[tm.name(i)] = cnt.get(tm.name(i), 0) + 1
        return {tm.name(i): i for i in ids if cnt[tm.name(i)] == 1}

    def cmp_view(vname, view, ids):
        """Names that are unique among `ids` must map to the right element; the view must not invent elements."""
        try:
            got = {k: v.node_id for k, v in view.items()}
        except Exception as e:
            out.append((f'view-raises:{vname}', f'{vname} can be read', {'error': f'{type(e).__name__}: {e}'}))
            return
        exp = unique_names(ids)
        for nm, i in exp.items():
            if got.get(nm) != i:
                out.append((f'view-misses-element:{vname}', f'{vname} lists exactly the elements present',
                            {'name': nm, 'expected_id': i, 'got': got.get(nm)}))
                return
        extra = [k for k, v in got.items() if v not in ids]
        if extra or len(got) > len(ids):
            out.append((f'view-invents-element:{vname}', f'{vname} lists exactly the elements present', {'extra': extra}))
    nn = tm.ids('NetworkNode')
    try:
        nodes_view = topo.nodes
        cmp_view('nodes', nodes_view, [i for i in nn if tm.typ(i) != 'Facility'])
        cmp_view('facilities', topo.facilities, [i for i in nn if tm.typ(i) == 'Facility'])
        cmp_view('links', topo.links, tm.ids('Link'))
        cmp_view('network_services', topo.network_services, tm.ids('NetworkService'))
    except Exception as e:
        out.append(('view-raises:topology', 'topology views can be read', {'error': f'{type(e).__name__}: {str(e)[:200]}'}))
        return out
    # interface_list of the topology = interfaces of non-facility nodes
    try:
        got = sorted(i.node_id for i in topo.interface_list)
        exp = sorted(i for n in nn if tm.typ(n) != 'Facility' for i in tm.node_ifaces(n))
        names_ok = len({tm.name(n) for n in nn}) == len(nn)
        if got != exp and names_ok:
            out.append(('view-differs:interface_list', 'topology.interface_list lists the interfaces of all nodes', {'got': got, 'expected': exp}))
    except Exception as e:
        out.append(('view-raises:interface_list', 'topology.interface_list can be read', {'error': f'{type(e).__name__}: {str(e)[:200]}'}))
    for name, node in list(nodes_view.items())[:6]:
        nid = node.node_id
        if nid not in tm.n:
            continue
        try:
            cmp_view('node.components', node.components, tm.components(nid))
            cmp_view('node.network_services', node.network_services, tm.services_of(nid))
            got = sorted(i.node_id for i in node.interface_list)
            exp = sorted(tm.node_ifaces(nid))
            if got != exp:
                out.append(('view-differs:node.interface_list', 'node.interface_list lists the interfaces of the node and its components',
                            {'node': name, 'got': got, 'expected': exp}))
            # every interface handle the node hands out (ports and, through them, sub-interfaces) lists exactly its own sub-interfaces
            stack, seen_if = list(node.interface_list)[:8], set()
            while stack:
                ih = stack.pop()
                if ih.node_id in seen_if or ih.node_id not in tm.n:
                    continue
                seen_if.add(ih.node_id)
                kids = list(ih.interface_list)
                got = sorted(i.node_id for i in kids)
                exp = sorted(tm.children(ih.node_id)) if tm.typ(ih.node_id) != 'SubInterface' else []
                if got != exp or sorted(i.node_id for i in ih.interfaces.values()) != sorted(set(exp)) and len({tm.name(x) for x in exp}) == len(exp):
                    out.append(('view-differs:interface.interface_list', 'the interface list of an interface lists exactly its sub-interfaces',
                                {'interface': tm.name(ih.node_id), 'type': tm.typ(ih.node_id), 'got': got, 'expected': exp}))
                    break
                stack.extend(k for k in kids if k.node_id in exp)
        except Exception as e:
            out.append(('view-raises:node', 'node views can be read', {'node': name, 'error': f'{type(e).__name__}: {str(e)[:200]}'}))
    for name, svc in list(topo.network_services.items())[:6]:
        sid = svc.node_id
        if sid not in tm.n:
            continue
        got = sorted(i.node_id for i in svc.interface_list)
        exp = sorted(tm.ifaces_of_service(sid))
        if got != exp:
            out.append(('view-differs:service.interface_list', 'service.interface_list (fresh lookup) lists its interfaces',
                        {'service': name, 'got': got, 'expected': exp}))
    if probe_mutation:
        out += probe_views_immutable(topo, nodes_view)
    return out


def probe_views_immutable(topo, nodes_view):
    from . import canon
    out = []
    imp, gid = topo.graph_model.importer, topo.graph_model.graph_id
    before = canon.graph_snapshot(imp, gid)
    views = {'nodes': nodes_view, 'links': topo.links, 'network_services': topo.network_services, 'facilities': topo.facilities}
    first = next(iter(nodes_view.values()), None)
    if first is not None:
        views['node.components'] = first.components
        views['node.interfaces'] = first.interfaces
    for vn, v in views.items():
        keys_before = sorted(v.keys())
        for act in ('setitem', 'delitem', 'update', 'clear', 'pop', 'setdefault', 'popitem'):
            try:
                if act == 'setitem':
                    v['zz-injected'] = first
                elif act == 'delitem':
                    del v[keys_before[0] if keys_before else 'x']
                elif act == 'update':
                    v.update({'zz-injected': first})
                elif act == 'clear':
                    v.clear()
                elif act == 'pop':
                    v.pop(keys_before[0] if keys_before else 'x')
                elif act == 'setdefault':
                    v.setdefault('zz-injected', first)
                elif act == 'popitem':
                    v.popitem()
            except Exception:
                pass
        if sorted(v.keys()) != keys_before:
            out.append((f'view-mutable:{vn}', 'a read-only view cannot be changed', {'before': keys_before, 'after': sorted(v.keys())}))
    for vn, seq in (('interface_list', topo.interface_list),):
        if not isinstance(seq, tuple):
            out.append((f'view-mutable:{vn}', 'interface lists are returned as immutable sequences', {'type': type(seq).__name__}))
    after = canon.graph_snapshot(imp, gid)
    if before != after:
        out.append(('view-write-through', 'views cannot be used to modify the model', {'diff': canon.diff(before, after)}))
    fresh = sorted(topo.nodes.keys())
    if 'zz-injected' in fresh:
        out.append(('view-write-through', 'a freshly obtained view is unaffected', {'nodes': fresh}))
    return out
