"""pytest plugin: run the repository's own tests with the contract monitors (C15, C03) and the
store lock monitor (C20) installed.  Results (counters, violations, inconclusive notes) are written
to $VERIF_PYTEST_OUT at session end.  Used by the thorough tiers through run_under_monitors()."""
import json
import os
import subprocess
import sys
import tempfile

_state = {}


def pytest_configure(config):
    from vlib import boot, core
    boot.setup()
    from vlib.contracts import Sink
    ctx = core.Ctx('PYTEST', 'thorough', 0)
    Sink.ctx = ctx
    _state['ctx'] = ctx
    from checks import c15, c03
    c15.install()
    c03.install()
    try:
        from vlib import lockmon, rawgraph
        imps = rawgraph.importers()
        _state['mons'] = {
            'shared': lockmon.StoreMonitor(imps['shared'][0], 'shared', None, lockmon.shared_invariant),
            'disjoint': lockmon.StoreMonitor(imps['disjoint'][0], 'disjoint', None, lockmon.disjoint_invariant)}
    except Exception as e:          # the plugin must never break the test run
        ctx.mark_inconclusive(f'lock monitor not installed: {e}')


def pytest_sessionfinish(session, exitstatus):
    ctx = _state.get('ctx')
    if ctx is None:
        return
    for name, m in _state.get('mons', {}).items():
        ctx.count(f'lockmon:{name}:calls-judged', m.calls)
        ctx.count(f'lockmon:{name}:releases', sum(1 for e in m.lock.log if e[2] == 'release'))
        for kind, d in m.problems:
            ctx.violation(f'C20/{name}-{d["method"]}-{kind}', 'every store operation leaves the lock released exactly once '
                          '(observed while running the repository\'s own tests)', {'source': 'repo-tests', 'call': d})
        for call, p in m.lock.hook_problems:
            ctx.violation(f'C20/{name}-invariant-at-release', 'store invariant at release (repo tests)', {'call': call, 'problems': p})
    out = os.environ.get('VERIF_PYTEST_OUT')
    if out:
        res = ctx.result()
        res['pytest_exitstatus'] = int(exitstatus)
        with open(out, 'w') as f:
            from vlib.core import jdump
            f.write(jdump(res))


def run_under_monitors(ctx, prefix, timeout=900):
    """Run the repository's test directory under the monitors (one process, no xdist) and fold the verdicts
    whose key starts with `prefix` (e.g. 'C15/') into ctx.  Test failures themselves are not verdicts."""
    from vlib import boot
    fd, out = tempfile.mkstemp(prefix='vpytest-', suffix='.json')
    os.close(fd)
    env = dict(os.environ, VERIF_PYTEST_OUT=out, PYTHONPATH=os.pathsep.join([boot.REPO, boot.VERIF, boot.DEPS]),
               PYTHONDONTWRITEBYTECODE='1', VERIF_REPO=boot.REPO)
    try:
        r = subprocess.run([boot.PY, '-m', 'pytest', '-q', '-p', 'no:cacheprovider', '-p', 'vlib.pytest_monitors', '-x' if False else '-q',
                            '--deselect', 'test/zz_neo4j_pg_test.py', '--deselect', 'test/slice_topology_test.py',
                            '--deselect', 'test/modify_test.py', '--deselect', 'test/sliver_test.py::TestSlivers::testLocation',
                            'test'], cwd=boot.REPO, env=env, capture_output=True, text=True, timeout=timeout)
        with open(out) as f:
            res = json.load(f)
    except subprocess.TimeoutExpired:
        ctx.mark_inconclusive('repo tests under monitors exceeded the watchdog')
        return
    except Exception as e:
        ctx.mark_inconclusive(f'repo tests under monitors produced no result: {e}')
        return
    finally:
        if os.path.exists(out):
            os.unlink(out)
    last = ([l for l in r.stdout.strip().splitlines() if ' passed' in l or ' failed' in l] or ['?'])[-1]
    ctx.info['repo_tests_under_monitors'] = last
    n = 0
    for k, v in res['counters'].items():
        if k.startswith('mon:') or k.startswith('lockmon:'):
            ctx.count('repo-tests:' + k, v)
            n += v
    ctx.count('repo-tests:monitor-evaluations', n)
    for v in res['violations']:
        if v['key'].startswith(prefix):
            w = dict(v['witness']) if isinstance(v['witness'], dict) else {'witness': v['witness']}
            w['source'] = 'repository tests under monitors'
            ctx.violation(v['key'], v['clause'], w)
    for m in res['inconclusive']:
        ctx.mark_inconclusive('repo tests under monitors: ' + m[:300])
