"""Path/bootstrap handling shared by every check.

* puts $VERIF_REPO (default /repo) first on sys.path and asserts that `fim`
  really resolves there (so a check can never silently test a stale copy);
* installs icontract/deal/jsonschema from the offline wheelhouse into
  /verif/.deps (git-ignored) when missing.
"""
import os
import subprocess
import sys

VERIF = os.path.dirname(os.path.dirname(os.path.abspath(__file__)))
REPO = os.path.abspath(os.environ.get('VERIF_REPO', '/repo'))
DEPS = os.path.join(VERIF, '.deps')
WHEELS = '/opt/veriftools/wheels'
PY = '/venv/bin/python'
NEEDED = ['icontract', 'deal', 'jsonschema']


def ensure_deps(verbose=False):
    missing = [p for p in NEEDED if not os.path.isdir(os.path.join(DEPS, p))]
    if not missing:
        return True
    os.makedirs(DEPS, exist_ok=True)
    cmd = ['/venv/bin/pip', 'install', '-q', '--no-index', '--find-links', WHEELS,
           '--target', DEPS, '--upgrade'] + NEEDED
    env = dict(os.environ, PIP_NO_INDEX='1', PIP_DISABLE_PIP_VERSION_CHECK='1')
    r = subprocess.run(cmd, env=env, capture_output=True, text=True)
    if verbose or r.returncode != 0:
        sys.stderr.write(r.stdout + r.stderr)
    return r.returncode == 0


def setup():
    """Make `import fim` resolve to REPO and the contract libs importable."""
    os.environ.setdefault('PYTHONDONTWRITEBYTECODE', '1')
    sys.dont_write_bytecode = True
    for p in (DEPS, VERIF, REPO):
        while p in sys.path:
            sys.path.remove(p)
    sys.path.insert(0, REPO)
    sys.path.insert(1, VERIF)
    sys.path.append(DEPS)
    import logging
    logging.disable(logging.CRITICAL)
    import fim  # noqa
    f = os.path.abspath(fim.__file__)
    if not f.startswith(REPO + os.sep):
        raise RuntimeError(f'fim resolves to {f}, expected under {REPO}')
    return REPO
