"""Generators of raw property graphs (plain descriptions: node/edge lists) and
helpers that put a description into a store through different routes."""
import json

CLASSES = ['NetworkNode', 'Component', 'NetworkService', 'ConnectionPoint', 'Link', 'CompositeNode']
RELS = ['has', 'connects', 'depends', 'adapts']
PLAIN_PROPS = ['Name', 'Type', 'Model', 'Site', 'Layer', 'Technology', 'ImageRef', 'MgmtIp', 'Details',
               'StitchNode', 'p0', 'p1', 'long_property_name_2', 'X']
JSON_PROPS = ['Capacities', 'Labels', 'Tags', 'Flags', 'UserData']

ADVERSARIAL = ["'", '"', 'it\'s "q"', '<', '>', '&', ']]>', '<![CDATA[x]]>', '&amp;', '&#10;', '&lt;b&gt;',
               '<node id="n0"/>', '</data>', 'café', 'жук', '日本語', '\U0001F600',
               'a\U0001F600b', ' lead', 'trail ', '  both  ', '', ' ', '\n', 'a\nb', '\t', 'a\tb', 'line1\nline2\n',
               '007', '1e5', '-3', '0', 'None', 'true', 'False', 'NaN', '{"a": 1}', '[]', 'x' * 300, ' ',
               ' ', 'á', '%s', '{x}', '$y', '\\', '\\n', '//', '#',
               # several lines with blanks / tabs next to the line breaks (indented YAML, a boot script)
               'a: 1 \n  b: 2', 'x  \ny', ' \n ', '\n  indented', 'tab\t\nnext', 'write_files:\n  - path: /etc/motd\n    content: hi\n',
               '#!/bin/bash\n  echo hi  \n\n   \nexit 0']
INTS = [0, 1, -1, 7, -42, 2 ** 31 - 1, 2 ** 31, 2 ** 32 + 5, -2 ** 40, 2 ** 62]


def gen_value(rng, ints=True):
    r = rng.random()
    if ints and r < 0.2:
        return rng.choice(INTS) if rng.random() < 0.6 else rng.randrange(-10 ** 6, 10 ** 12)
    if r < 0.65:
        return rng.choice(ADVERSARIAL)
    if r < 0.8:
        return ''.join(rng.choice(ADVERSARIAL + ['a', 'b', 'Z', '1']) for _ in range(rng.randrange(1, 4)))
    return ''.join(rng.choice('abcXYZ019_- .:/') for _ in range(rng.randrange(1, 12)))


def gen_json_value(rng):
    return json.dumps(rng.choice([{'core': rng.randrange(1, 64)}, {'bdf': '0000:00:00.0'}, ['a', 'b'],
                                  {'auto_config': True}, {'k': gen_value(rng, ints=False)}]))


def gen_props(rng, maxn=6, ints=True):
    props = {}
    for _ in range(rng.randrange(0, maxn + 1)):
        if rng.random() < 0.12:
            props[rng.choice(JSON_PROPS)] = gen_json_value(rng)
        else:
            props[rng.choice(PLAIN_PROPS)] = gen_value(rng, ints)
    return props


def gen_node_id(rng, i):
    r = rng.random()
    if r < 0.5:
        return f'n{i}'
    if r < 0.7:
        return f'node-{i}-' + rng.choice(['a', 'é', 'x y', "q'", '<&>', '1'])
    if r < 0.85:
        return str(i)      # numeric looking
    return f'{rng.randrange(16 ** 8):08x}-{i}'


def gen_graph(rng, nmin=1, nmax=12, classes=CLASSES, rels=RELS, edge_p=None, ints=True, maxprops=6, selfloops=0.0):
    n = rng.randrange(nmin, nmax + 1)
    nodes = []
    for i in range(n):
        nodes.append({'id': gen_node_id(rng, i), 'cls': rng.choice(classes), 'props': gen_props(rng, maxprops, ints)})
    ids = [x['id'] for x in nodes]
    assert len(set(ids)) == len(ids)
    edges = []
    p = edge_p if edge_p is not None else rng.choice([0.15, 0.3, 0.6])
    for i in range(n):
        for j in range(i + 1, n):
            if rng.random() < p:
                eprops = gen_props(rng, 3, ints)
                eprops.pop('Class', None)
                edges.append({'a': ids[i], 'b': ids[j], 'cls': rng.choice(rels), 'props': eprops})
        if selfloops and rng.random() < selfloops:
            # a link from a node to itself (the interface accepts it)
            eprops = gen_props(rng, 2, ints)
            eprops.pop('Class', None)
            edges.append({'a': ids[i], 'b': ids[i], 'cls': rng.choice(rels), 'props': eprops})
    return {'nodes': nodes, 'edges': edges}


def expected_canon(desc):
    """Canonical snapshot a correct store must show for this description."""
    from .canon import _key
    nodes = {}
    for x in desc['nodes']:
        p = dict(x['props'])
        p['NodeID'] = x['id']
        p['Class'] = x['cls']
        nodes[x['id']] = p
    edges = {}
    for e in desc['edges']:
        p = dict(e['props'])
        p['Class'] = e['cls']
        edges[_key(e['a'], e['b'])] = p
    return {'nodes': nodes, 'edges': edges}


def nontrivial(desc):
    """>=1 edge and >=1 property value containing a character outside [A-Za-z0-9]."""
    if not desc['edges']:
        return False
    for x in desc['nodes'] + desc['edges']:
        for v in x['props'].values():
            if isinstance(v, str) and any(not (c.isascii() and c.isalnum()) for c in v):
                return True
    return False


def to_nx(desc, key_style=0, graph_id=None):
    """A networkx graph for the description whose own node keys follow key_style:
    0: 'n0','n1',.. (collide between graphs)  1: ints 1..n (collide with store ids)  2: the NodeIDs."""
    import networkx as nx
    g = nx.Graph()
    km = {}
    for i, x in enumerate(desc['nodes']):
        k = f'n{i}' if key_style == 0 else (i + 1 if key_style == 1 else x['id'])
        km[x['id']] = k
        d = dict(x['props'])
        d['NodeID'] = x['id']
        d['Class'] = x['cls']
        if graph_id is not None:
            d['GraphID'] = graph_id
        g.add_node(k, **d)
    for e in desc['edges']:
        g.add_edge(km[e['a']], km[e['b']], Class=e['cls'], **e['props'])
    return g


def build_via_api(graph, desc):
    """Through add_node / add_link of an ABCPropertyGraph object."""
    for x in desc['nodes']:
        graph.add_node(node_id=x['id'], label=x['cls'], props=dict(x['props']) if x['props'] else None)
    for e in desc['edges']:
        graph.add_link(node_a=e['a'], rel=e['cls'], node_b=e['b'], props=dict(e['props']) if e['props'] else None)


def importers():
    from fim.graph.networkx_property_graph import NetworkXGraphImporter, NetworkXPropertyGraph
    from fim.graph.networkx_property_graph_disjoint import NetworkXGraphImporterDisjoint, NetworkXPropertyGraphDisjoint
    return {'shared': (NetworkXGraphImporter(), NetworkXPropertyGraph),
            'disjoint': (NetworkXGraphImporterDisjoint(), NetworkXPropertyGraphDisjoint)}

