"""Topology-building workload: JSON-able operation descriptors, an executor that resolves
element handles through the documented views, a read-only structural view (TM) of the
extracted model, and a random history generator whose arguments are taken from the
*current* model (valid with probability ~0.8, deliberately stale/invalid otherwise).
"""
import random
import uuid

from . import canon

SITES = ['RENC', 'UKY', 'LBNL', 'STAR']
_uuid_rng = [None]
_orig_uuid4 = uuid.uuid4


def seed_uuid(seed):
    """Make library-generated ids reproducible (fim calls uuid.uuid4() through the module attribute)."""
    r = random.Random(f'uuid/{seed}')
    uuid.uuid4 = lambda: uuid.UUID(int=r.getrandbits(128), version=4)


# --------------------------------------------------------------------------- structural view of a model
class TM:
    """Read-only structure derived from a canonical snapshot (never from library queries)."""

    def __init__(self, c):
        import json
        self.c = c or {'nodes': {}, 'edges': {}}
        self.n = self.c['nodes']
        self.adj = {k: {} for k in self.n}
        for ek, p in self.c['edges'].items():
            a, b = json.loads(ek.replace('<dup>', ''))
            if a in self.adj and b in self.adj:
                self.adj[a][b] = p.get('Class')
                self.adj[b][a] = p.get('Class')

    def cls(self, i):
        return self.n[i].get('Class')

    def typ(self, i):
        return self.n[i].get('Type')

    def name(self, i):
        return self.n[i].get('Name')

    def ids(self, cls=None, typ=None):
        return sorted(i for i, p in self.n.items() if (cls is None or p.get('Class') == cls) and
                      (typ is None or p.get('Type') == typ))

    def nb(self, i, rel=None, cls=None):
        return sorted(j for j, r in self.adj.get(i, {}).items() if (rel is None or r == rel) and
                      (cls is None or self.cls(j) == cls))

    # containment
    def components(self, node):
        return self.nb(node, 'has', 'Component')

    def services_of(self, parent):
        return self.nb(parent, 'has', 'NetworkService')

    def ns_parent(self, ns):
        p = [j for j in self.nb(ns, 'has') if self.cls(j) in ('NetworkNode', 'Component', 'CompositeNode')]
        return p[0] if p else None

    def top_services(self):
        return [s for s in self.ids('NetworkService') if self.ns_parent(s) is None]

    def ifaces_of_service(self, ns):
        return self.nb(ns, 'connects', 'ConnectionPoint')

    def children(self, cp):
        """Sub-interfaces of a (dedicated) port."""
        return [j for j in self.nb(cp, 'connects', 'ConnectionPoint') if self.typ(j) == 'SubInterface'
                and self.typ(cp) != 'SubInterface']

    def cp_parent(self, cp):
        if self.typ(cp) == 'SubInterface':
            p = [j for j in self.nb(cp, 'connects', 'ConnectionPoint') if self.typ(j) != 'SubInterface']
            return p[0] if p else None
        p = self.nb(cp, 'connects', 'NetworkService')
        return p[0] if p else None

    def links_of(self, cp):
        return self.nb(cp, 'connects', 'Link')

    def link_ends(self, link):
        return self.nb(link, 'connects', 'ConnectionPoint')

    def peers(self, cp):
        out = []
        for l in self.links_of(cp):
            out += [x for x in self.link_ends(l) if x != cp]
        return out

    def owner_node(self, i):
        seen = set()
        while i is not None and i not in seen:
            seen.add(i)
            c = self.cls(i)
            if c in ('NetworkNode', 'CompositeNode'):
                return i
            if c == 'ConnectionPoint':
                i = self.cp_parent(i)
            elif c == 'NetworkService':
                i = self.ns_parent(i)
            elif c == 'Component':
                p = [j for j in self.nb(i, 'has') if self.cls(j) in ('NetworkNode', 'CompositeNode')]
                i = p[0] if p else None
            else:
                return None
        return None

    def node_ifaces(self, node):
        """Interfaces of a node and of its components (what node.interface_list documents), sub-interfaces excluded."""
        out = []
        for s in self.services_of(node):
            out += self.ifaces_of_service(s)
        for c in self.components(node):
            for s in self.services_of(c):
                out += self.ifaces_of_service(s)
        return out

    def owned_by_node(self, node):
        """Everything a network node owns: components, their services, node-level services, their interfaces, sub-interfaces."""
        out = set()
        for c in self.components(node):
            out |= self.owned_by_component(c) | {c}
        for s in self.services_of(node):
            out |= self.owned_by_service(s) | {s}
        return out

    def owned_by_component(self, comp):
        out = set()
        for s in self.services_of(comp):
            out |= self.owned_by_service(s) | {s}
        return out

    def owned_by_service(self, ns):
        out = set()
        for i in self.ifaces_of_service(ns):
            out |= {i} | set(self.children(i))
        return out


def tm_of(topo):
    return TM(canon.graph_snapshot(topo.graph_model.importer, topo.graph_model.graph_id))


# --------------------------------------------------------------------------- descriptors -> real objects
def mk_value(kind, d):
    from fim.user import Capacities, Labels, Tags, Flags, UserData, Location
    if d is None:
        return None
    if kind == 'capacities':
        return Capacities(**d)
    if kind in ('labels', 'peer_labels'):
        return Labels(**d)
    if kind == 'tags':
        return Tags(*d)
    if kind == 'flags':
        return Flags(**d)
    if kind == 'user_data':
        return UserData(d)
    if kind == 'location':
        return Location(**d)
    if kind == 'mirror_direction':
        from fim.slivers.network_service import MirrorDirection
        return MirrorDirection[d]
    if kind == 'stitch_node':
        return bool(d)
    return d


def mk_kwargs(kw):
    return {k: mk_value(k, v) for k, v in (kw or {}).items()}


class Unresolved(Exception):
    """The descriptor names an element the documented views do not (or no longer) offer."""


def get_node(topo, name):
    try:
        return topo.nodes[name]
    except KeyError:
        try:
            return topo.facilities[name]
        except KeyError:
            raise Unresolved(f'node {name}')


def get_iface(topo, ref):
    """ref = [node name, interface name] or [node name, interface name, child name] or ['svc', service, iface]"""
    if ref[0] == 'none':
        return None         # what `node.interfaces.get('typo')` hands a careless caller
    if ref[0] == 'name-instead-of-handle':
        return ref[1]       # the interface's name where its handle belongs
    if ref[0] == 'stale':
        # a handle whose element was removed after the handle was obtained (see op make_stale_ifaces)
        st = getattr(topo, '_verif_stale', None)
        if not st:
            raise Unresolved('no stale handles prepared')
        return st[ref[1] % len(st)]
    if ref[0] == 'svc':
        try:
            return topo.network_services[ref[1]].interfaces[ref[2]]
        except KeyError:
            raise Unresolved(f'service interface {ref}')
    n = get_node(topo, ref[0])
    try:
        i = n.interfaces[ref[1]]
        if len(ref) > 2:
            i = i.interfaces[ref[2]]
        return i
    except KeyError:
        raise Unresolved(f'interface {ref}')


def kept_iface(topo, ref, cached=False):
    """cached=True: the port handle a caller obtained earlier and kept (its list of sub-interfaces is as old as the handle);
    otherwise a handle looked up now."""
    if not cached or ref[0] == 'stale':
        return get_iface(topo, ref)
    hs = topo.__dict__.setdefault('_verif_iface_handles', {})
    k = '/'.join(map(str, ref))
    h = hs.get(k)
    if h is not None:
        try:
            # the kept handle must still denote the element the reference names now (names are recycled)
            if get_iface(topo, ref).node_id == h.node_id:
                return h
        except Unresolved:
            raise
    hs[k] = get_iface(topo, ref)
    return hs[k]


def get_service(topo, name, cached=False):
    """cached=True: reuse the handle object an earlier call returned (users keep handles), if there is one.
    name = ['stale', k]: a handle whose service was removed after the handle was obtained (op make_stale_services)."""
    if isinstance(name, (list, tuple)) and name and name[0] == 'kept':
        # the handle a caller put aside with op keep_handle (it does not follow later renames made through other handles)
        h = getattr(topo, '_verif_kept', None)
        if h is None:
            raise Unresolved('no handle put aside')
        return h
    if isinstance(name, (list, tuple)) and name and name[0] == 'stale':
        st = getattr(topo, '_verif_stale_services', None)
        if not st:
            raise Unresolved('no stale service handles prepared')
        return st[name[1] % len(st)]
    if cached:
        h = getattr(topo, '_verif_handles', {}).get(name)
        if h is not None:
            return h
    try:
        return topo.network_services[name]
    except KeyError:
        raise Unresolved(f'service {name}')


def remember(topo, name, handle):
    if not hasattr(topo, '_verif_handles'):
        topo._verif_handles = {}
    topo._verif_handles[name] = handle
    return handle


def get_element(topo, ref):
    k = ref[0]
    if k == 'node':
        return get_node(topo, ref[1])
    if k == 'comp':
        try:
            return get_node(topo, ref[1]).components[ref[2]]
        except KeyError:
            raise Unresolved(str(ref))
    if k == 'service':
        return get_service(topo, ref[1])
    if k == 'iface':
        return get_iface(topo, ref[1:])
    if k == 'link':
        try:
            return topo.links[ref[1]]
        except KeyError:
            raise Unresolved(str(ref))
    raise AssertionError(ref)


def _fresh_objects(op):
    import json
    try:
        return json.loads(json.dumps(op))
    except (TypeError, ValueError):
        return op


def execute(topo, op):
    """Apply one descriptor.  Returns the library's return value; raises whatever the library raises
    (Unresolved if the handle cannot be obtained through the views)."""
    from fim.user import (NodeType, ComponentType, ComponentModelType, ServiceType, InterfaceType, LinkType)
    # every call gets its own string objects (as a caller reading names from a file or a request would pass): equal-but-not-
    # identical names, ids and sites are what distinguishes `==` from `is` in the code under observation
    op = _fresh_objects(op)
    o = op['op']
    kw = mk_kwargs(op.get('kw'))
    if o == 'add_node':
        if op.get('ns_info') is not None:
            # the documented ns_info parameter: services (name, type, node id) the node is created with
            from fim.slivers.network_service import NetworkServiceSliver, NetworkServiceInfo
            nsi = NetworkServiceInfo()
            for nm, ty, nid in op['ns_info']:
                sl = NetworkServiceSliver()
                sl.set_name(nm)
                sl.set_type(ServiceType[ty])
                sl.node_id = nid
                nsi.add_network_service(sl)
            kw['ns_info'] = nsi
        return topo.add_node(name=op['name'], node_id=op.get('node_id'), site=op['site'], ntype=NodeType[op['ntype']], **kw)
    if o == 'remove_node':
        return topo.remove_node(op['name'])
    if o == 'add_component':
        n = get_node(topo, op['node'])
        if op.get('ns_info') is not None:
            # a component described together with services of its own (the network_service_info property of its sliver)
            from fim.slivers.network_service import NetworkServiceSliver, NetworkServiceInfo
            nsi = NetworkServiceInfo()
            for nm, ty, nid in op['ns_info']:
                sl = NetworkServiceSliver()
                sl.set_name(nm)
                sl.set_type(ServiceType[ty])
                sl.node_id = nid
                nsi.add_network_service(sl)
            kw['network_service_info'] = nsi
        if op.get('model_type'):
            return n.add_component(name=op['name'], node_id=op.get('node_id'), model_type=ComponentModelType[op['model_type']],
                                   network_service_node_id=op.get('ns_node_id'), interface_node_ids=op.get('if_node_ids'),
                                   interface_labels=[mk_value('labels', x) for x in op['if_labels']] if op.get('if_labels') else None,
                                   **kw)
        return n.add_component(name=op['name'], node_id=op.get('node_id'), ctype=ComponentType[op['ctype']], model=op['model'],
                               network_service_node_id=op.get('ns_node_id'), interface_node_ids=op.get('if_node_ids'),
                               interface_labels=[mk_value('labels', x) for x in op['if_labels']] if op.get('if_labels') else None,
                               **kw)
    if o == 'add_storage':
        return get_node(topo, op['node']).add_storage(name=op['name'], node_id=op.get('node_id'), **kw)
    if o == 'remove_component':
        return get_node(topo, op['node']).remove_component(op['name'])
    if o == 'remove_storage':
        return get_node(topo, op['node']).remove_storage(op['name'])
    if o == 'copy_to_peer_labels':
        return get_service(topo, op['service'], op.get('cached')).copy_to_peer_labels()
    if o == 'add_facility':
        ifs = None
        if op.get('interfaces') is not None:
            ifs = [(x[0], mk_value('labels', x[1]), mk_value('capacities', x[2])) for x in op['interfaces']]
        if op.get('nstype'):
            kw['nstype'] = ServiceType[op['nstype']]
        if op.get('nslabels') is not None:
            kw['nslabels'] = mk_value('labels', op['nslabels'])
        return topo.add_facility(name=op['name'], node_id=op.get('node_id'), site=op['site'], interfaces=ifs, **kw)
    if o == 'remove_facility':
        return topo.remove_facility(name=op['name'])
    if o == 'add_switch':
        if op.get('nstype'):
            kw['nstype'] = ServiceType[op['nstype']]
        for k, kind in (('nslabels', 'labels'), ('portlabels', 'labels'), ('portcapacities', 'capacities')):
            if op.get(k) is not None:
                kw[k] = mk_value(kind, op[k])
        return topo.add_switch(name=op['name'], node_id=op.get('node_id'), site=op['site'], nports=op.get('nports', 8), **kw)
    if o == 'remove_switch':
        return topo.remove_switch(name=op['name'])
    if o == 'add_network_service':
        ifs = [get_iface(topo, r) for r in op['interfaces']] if op.get('interfaces') is not None else None
        return remember(topo, op['name'], topo.add_network_service(name=op['name'], node_id=op.get('node_id'),
                                                                   nstype=ServiceType[op['nstype']], interfaces=ifs, **kw))
    if o == 'add_port_mirror_service':
        getattr(topo, '_verif_handles', {}).pop(op['name'], None)       # a kept handle of an earlier service of that name
        return remember(topo, op['name'], topo.add_port_mirror_service(name=op['name'], node_id=op.get('node_id'),
                                                                       from_interface_name=op['from'],
                                                                       to_interface=get_iface(topo, op['to']), **kw))
    if o == 'remove_network_service':
        return topo.remove_network_service(op['name'])
    if o == 'add_node_service':
        return remember(topo, op['name'], get_node(topo, op['node']).add_network_service(
            name=op['name'], node_id=op.get('node_id'), nstype=ServiceType[op['nstype']], **kw))
    if o == 'remove_node_service':
        return get_node(topo, op['node']).remove_network_service(op['name'])
    if o == 'service_add_interface':
        return get_service(topo, op['service'], op.get('cached')).add_interface(name=op['name'], node_id=op.get('node_id'),
                                                              itype=InterfaceType[op['itype']], **kw)
    if o == 'service_remove_interface':
        return get_service(topo, op['service'], op.get('cached')).remove_interface(name=op['name'])
    if o == 'connect_interface':
        return get_service(topo, op['service'], op.get('cached')).connect_interface(get_iface(topo, op['iface']))
    if o == 'disconnect_interface':
        return get_service(topo, op['service'], op.get('cached')).disconnect_interface(get_iface(topo, op['iface']))
    if o == 'peer':
        return get_service(topo, op['a'], op.get('cached')).peer(get_service(topo, op['b'], op.get('cached')), **kw)
    if o == 'unpeer':
        return get_service(topo, op['a'], op.get('cached')).unpeer(get_service(topo, op['b'], op.get('cached')))
    if o == 'add_child_interface':
        return kept_iface(topo, op['iface'], op.get('cached')).add_child_interface(name=op['name'], node_id=op.get('node_id'), **kw)
    if o == 'remove_child_interface':
        return kept_iface(topo, op['iface'], op.get('cached')).remove_child_interface(name=op['name'])
    if o == 'add_link':
        return topo.add_link(name=op['name'], node_id=op.get('node_id'), ltype=LinkType[op['ltype']],
                             interfaces=[get_iface(topo, r) for r in op['interfaces']], **kw)
    if o == 'remove_link':
        return topo.remove_link(op['name'])
    if o == 'rename':
        r = get_element(topo, op['elem']).rename(op['new'])
        if op['elem'][0] == 'service':
            # the harness addresses kept handles by the element's current name
            hs = getattr(topo, '_verif_handles', {})
            if op['elem'][1] in hs:
                hs[op['new']] = hs.pop(op['elem'][1])
        return r
    if o == 'set_property':
        return get_element(topo, op['elem']).set_property(op['pname'], mk_value(op['pname'], op['val']))
    if o == 'set_properties':
        return get_element(topo, op['elem']).set_properties(**kw)
    if o == 'unset_property':
        return get_element(topo, op['elem']).unset_property(op['pname'])
    if o == 'make_stale_ifaces':
        # build a node with a NIC, keep its interface handles, remove the node: the handles are now stale
        n = topo.add_node(name=op['name'], node_id=op.get('node_id'), site='RENC', ntype=NodeType.VM)
        kwn = {}
        if op.get('substrate'):
            b = op['node_id']
            kwn = dict(node_id=b + '-c', network_service_node_id=b + '-sf', interface_node_ids=[b + '-p1', b + '-p2'],
                       interface_labels=[mk_value('labels', {'mac': '04:3F:72:B7:15:0A'}), mk_value('labels', {'mac': '04:3F:72:B7:15:0B'})])
        n.add_component(name='stalenic', model_type=ComponentModelType.SmartNIC_ConnectX_6, **kwn)
        topo._verif_stale = list(n.interface_list)
        topo.remove_node(op['name'])
        return None
    if o == 'keep_handle':
        topo._verif_kept = get_service(topo, op['service'])
        return None
    if o == 'make_stale_services':
        # keep the handles of two services, then remove the services the documented way
        keep = []
        for nm, ty, nid in (('stale-svc-a', 'L2Bridge', op.get('node_id')), ('stale-svc-b', 'L3VPN', op.get('node_id2'))):
            keep.append(topo.add_network_service(name=nm, node_id=nid, nstype=ServiceType[ty]))
        for nm in ('stale-svc-a', 'stale-svc-b'):
            topo.remove_network_service(nm)
        topo._verif_stale_services = keep
        return None
    if o == 'validate':
        return topo.validate()
    raise AssertionError(o)


# --------------------------------------------------------------------------- history generator
NODE_TYPES = ['VM', 'VM', 'VM', 'Server', 'Container', 'Switch', 'NAS', 'Facility']
SERVICE_TYPES = ['P4', 'MPLS', 'OVS', 'L2Path', 'L2STS', 'L2PTP', 'L2Multisite', 'L2Bridge', 'FABNetv4', 'FABNetv6',
                 'PortMirror', 'L3VPN', 'VLAN', 'FABNetv4Ext', 'FABNetv6Ext']
MODEL_TYPES = ['GPU_RTX6000', 'GPU_Tesla_T4', 'GPU_A40', 'GPU_A30', 'SharedNIC_ConnectX_6', 'SmartNIC_BlueField_2_ConnectX_6',
               'SmartNIC_ConnectX_6', 'SmartNIC_ConnectX_5', 'SharedNIC_OpenStack_vNIC', 'NVME_P4510', 'Storage_NAS',
               'FPGA_Xilinx_U280', 'FPGA_Xilinx_SN1022']
NIC_MODEL_TYPES = [m for m in MODEL_TYPES if 'NIC' in m or 'FPGA' in m]
IFACE_TYPES = ['TrunkPort', 'AccessPort', 'DedicatedPort', 'FacilityPort', 'StitchPort', 'vInt', 'SharedPort']


class Gen:
    """Random history generator over a live topology."""

    def __init__(self, rng, topo, flavour='experiment', p_valid=0.8):
        self.rng, self.topo, self.flavour, self.p_valid = rng, topo, flavour, p_valid
        self.k = 0
        self.substrate = flavour == 'substrate'

    def fresh(self, prefix):
        self.k += 1
        return f'{prefix}{self.k}'

    def maybe_id(self, prefix):
        if self.substrate or self.rng.random() < 0.4:
            return self.fresh(prefix + '-id')
        return None

    # ---- argument pools from the current model
    def iface_refs(self, tm, only_free=False, with_subs=True):
        """[node name, iface name(, child)] for every node-side interface of the model."""
        out = []
        for n in tm.ids('NetworkNode'):
            for i in tm.node_ifaces(n):
                if tm.typ(i) == 'ServicePort':
                    continue
                free = not tm.peers(i)
                if not only_free or free:
                    out.append(([tm.name(n), tm.name(i)], i))
                if with_subs:
                    for ch in tm.children(i):
                        if not only_free or not tm.peers(ch):
                            out.append(([tm.name(n), tm.name(i), tm.name(ch)], ch))
        return out

    def pick_name(self, pool, prefix):
        """An existing name (to provoke duplicates) with probability 1-p_valid, else a fresh one."""
        if pool and self.rng.random() > self.p_valid:
            return self.rng.choice(pool)
        # a name that was in use earlier and was given up (rename, removal): users recycle names
        kind = {'n': 'node', 'fac': 'node', 'sw': 'node', 's': 'service', 'pm': 'service'}.get(prefix)
        freed = [n for k, n in getattr(self, 'former', []) if k == kind and n not in pool]
        if freed and self.rng.random() < 0.3:
            return self.rng.choice(freed)
        return self.fresh(prefix)

    def node_kw(self):
        r = self.rng
        kw = {}
        if r.random() < 0.6:
            kw['capacities'] = {'core': r.choice([1, 2, 4, 32]), 'ram': r.choice([2, 8, 64]), 'disk': r.choice([10, 100, 500])}
        if r.random() < 0.3:
            kw['image_type'] = 'qcow2'
            kw['image_ref'] = r.choice(['default_centos_8', 'default_ubuntu_20'])
        if r.random() < 0.15:
            kw['tags'] = ['t1', 'blue']
        if r.random() < 0.15:
            kw['flags'] = {'auto_config': True}
        if r.random() < 0.1:
            kw['user_data'] = {'k': r.randrange(10)}
        if r.random() < 0.05:
            kw['labels'] = {'vlan': str(r.randrange(5000))}          # may be invalid
        return kw

    def recycle_name_macro(self):
        """A short scripted sequence users produce when they reorganise a slice: a removal by name that is refused (wrong kind of
        element), the element renamed, its old name given to a new node, and that new node removed by name again."""
        tm = tm_of(self.topo)
        nodes = tm.ids('NetworkNode')
        if not nodes:
            return []
        busy = [n for n in nodes if any(tm.peers(i) for i in tm.node_ifaces(n) if tm.typ(i) != 'ServicePort')]
        a = self.rng.choice(busy or nodes)
        name, typ = tm.name(a), tm.typ(a)
        wrong = 'remove_switch' if typ != 'Switch' else 'remove_facility'
        kind = 'remove_switch' if typ == 'Switch' else ('remove_facility' if typ == 'Facility' else 'remove_node')
        return [{'op': wrong, 'name': name},
                {'op': 'rename', 'elem': ['node', name], 'new': self.fresh('rn')},
                {'op': 'add_node', 'name': name, 'node_id': self.maybe_id('n'), 'site': self.rng.choice(SITES), 'ntype': 'VM', 'kw': {}},
                {'op': 'remove_node', 'name': name}]

    def two_handles_macro(self):
        """A caller holds on to a port handle while sub-interfaces are also added through a handle looked up later: the second
        name / VLAN offered through the older handle is already taken in the model (and must be refused)."""
        tm = tm_of(self.topo)
        ded = [(ref, i) for ref, i in self.iface_refs(tm, with_subs=False) if tm.typ(i) == 'DedicatedPort']
        if not ded:
            return []
        ref, i = self.rng.choice(ded)
        a, b, c = self.fresh('sub'), self.fresh('sub'), self.fresh('sub')
        v = self.rng.randrange(2000, 3000)
        mk = lambda name, vlan, cached: {'op': 'add_child_interface', 'iface': ref, 'name': name, 'node_id': self.maybe_id('sub'),
                                         'kw': {'labels': {'vlan': str(vlan)}}, 'cached': cached}
        return [mk(a, v, True), mk(b, v + 1, False), mk(b, v + 2, True), mk(c, v + 1, True)]

    def swap_through_other_handle_macro(self):
        """A caller keeps the handle add_network_service() returned; through a handle looked up later one interface is taken off
        the service and another one connected (as many as before, other ones)."""
        tm = tm_of(self.topo)
        free = [ref for ref, i in self.iface_refs(tm, only_free=True, with_subs=False) if tm.typ(i) in ('DedicatedPort', 'SharedPort')]
        if len(free) < 3:
            return []
        a, b, c = self.rng.sample(free, 3)
        name = self.fresh('swp')
        return [{'op': 'add_network_service', 'name': name, 'node_id': self.maybe_id('ns'), 'nstype': 'L2Bridge', 'interfaces': [a, b], 'kw': {}},
                {'op': 'disconnect_interface', 'service': name, 'iface': a, 'cached': False},
                {'op': 'connect_interface', 'service': name, 'iface': c, 'cached': False}]

    def same_named_ifaces_macro(self):
        """Interface names are unique within their service only: two services of one node each get an interface of one name.
        (Only where the caller asked for it: afterwards [node, name] no longer names ONE interface, which the removal checks rely on.)"""
        tm = tm_of(self.topo)
        nodes = [n for n in tm.ids('NetworkNode') if tm.typ(n) != 'Facility']
        if not nodes:
            return []
        n = tm.name(self.rng.choice(nodes))
        a, b, x = self.fresh('ns'), self.fresh('ns'), self.fresh('p')
        return [{'op': 'add_node_service', 'node': n, 'name': a, 'node_id': self.maybe_id('ns'), 'nstype': 'MPLS', 'kw': {}},
                {'op': 'add_node_service', 'node': n, 'name': b, 'node_id': self.maybe_id('ns'), 'nstype': 'VLAN', 'kw': {}},
                {'op': 'service_add_interface', 'service': a, 'name': x, 'node_id': self.maybe_id('p'), 'itype': 'TrunkPort', 'kw': {}},
                {'op': 'service_add_interface', 'service': b, 'name': x, 'node_id': self.maybe_id('p'), 'itype': 'TrunkPort', 'kw': {}}]

    def derived_link_name_macro(self):
        """connect_interface() derives '<node>-<iface>-link': (a) a plain link carrying that name exists first; (b) two same-named
        sub-interfaces under two ports of one node are connected to two DIFFERENT services."""
        tm = tm_of(self.topo)
        top = tm.top_services()
        free = [x for x in self.iface_refs(tm, only_free=True, with_subs=False)]
        if self.substrate or len(top) < 2:
            return []
        r = self.rng
        if r.random() < 0.5 and len(free) >= 3:
            t0, l1, l2 = r.sample(free, 3)
            return [{'op': 'add_link', 'name': f'{t0[0][0]}-{t0[0][1]}-link', 'node_id': None, 'ltype': 'Patch', 'interfaces': [l1[0], l2[0]]},
                    {'op': 'connect_interface', 'service': tm.name(r.choice(top)), 'iface': t0[0]}]
        by_node = {}
        for ref, i in free:
            if tm.typ(i) == 'DedicatedPort':
                by_node.setdefault(ref[0], []).append(ref)
        pairs = [v for v in by_node.values() if len(v) >= 2]
        if not pairs:
            return []
        a, b = r.sample(r.choice(pairs), 2)
        x = self.fresh('sub')
        sa, sb = r.sample(top, 2)
        v = r.randrange(3000, 3900)
        return [{'op': 'add_child_interface', 'iface': a, 'name': x, 'node_id': None, 'kw': {'labels': {'vlan': str(v)}}},
                {'op': 'add_child_interface', 'iface': b, 'name': x, 'node_id': None, 'kw': {'labels': {'vlan': str(v)}}},
                {'op': 'connect_interface', 'service': tm.name(sa), 'iface': a + [x]},
                {'op': 'connect_interface', 'service': tm.name(sb), 'iface': b + [x]}]

    def next_op(self):
        if getattr(self, 'pending', None):
            return self.pending.pop(0)
        if self.rng.random() < 0.04:
            m = self.rng.random()
            if m < 0.25 and getattr(self, 'ambiguous_names_ok', False):
                self.pending = self.same_named_ifaces_macro()
            elif m < 0.45:
                self.pending = self.derived_link_name_macro()
            elif m < 0.6:
                self.pending = self.swap_through_other_handle_macro()
            else:
                self.pending = self.recycle_name_macro() if m < 0.85 else self.two_handles_macro()
            if self.pending:
                return self.pending.pop(0)
        op = self._next_op()
        if not hasattr(self, 'former'):
            self.former = []
        # (a freed name is recycled for an element of the same kind only: the harness addresses elements by name)
        if op['op'] == 'rename' and op['elem'][0] in ('node', 'service'):
            self.former.append((op['elem'][0], op['elem'][1]))
        elif op['op'] in ('remove_node', 'remove_facility', 'remove_switch'):
            self.former.append(('node', op['name']))
        elif op['op'] == 'remove_network_service':
            self.former.append(('service', op['name']))
        del self.former[:-6]
        # a caller-supplied id that is already in use (any class) - must be refused without side effects
        if 'node_id' in op and op['op'] != 'make_stale_ifaces' and self.rng.random() > self.p_valid and self.rng.random() < 0.5:
            ids = sorted(tm_of(self.topo).n)
            if ids:
                op['node_id'] = self.rng.choice(ids)
        if op['op'] in ('service_add_interface', 'service_remove_interface', 'connect_interface', 'disconnect_interface',
                        'peer', 'unpeer', 'add_child_interface', 'remove_child_interface', 'copy_to_peer_labels') and self.rng.random() < 0.4:
            op['cached'] = True
        return op

    def _next_op(self):
        r = self.rng
        tm = tm_of(self.topo)
        nodes = tm.ids('NetworkNode')
        nnames = [tm.name(n) for n in nodes]
        plain = [n for n in nodes if tm.typ(n) in ('VM', 'Server', 'Container')]
        top = tm.top_services()
        snames = [tm.name(s) for s in tm.ids('NetworkService')]
        k = r.randrange(100)
        if not nodes:
            k = 0
        stale = lambda pool, fallback: r.choice(pool) if pool and r.random() < self.p_valid else fallback
        if k < 12:
            return {'op': 'add_node', 'name': self.pick_name(nnames, 'n'), 'node_id': self.maybe_id('n'),
                    'site': r.choice(SITES), 'ntype': r.choice(NODE_TYPES), 'kw': self.node_kw()}
        if k < 16:
            return {'op': 'remove_node', 'name': stale(nnames, 'ghost')}
        if k < 30:
            n = r.choice(plain) if plain and r.random() < 0.9 else r.choice(nodes)
            cn = [tm.name(c) for c in tm.components(n)]
            op = {'op': 'add_component', 'node': tm.name(n), 'name': self.pick_name(cn, 'c'), 'node_id': self.maybe_id('c')}
            mt = r.choice(MODEL_TYPES + NIC_MODEL_TYPES * 2)
            if r.random() < 0.75:
                op['model_type'] = mt if r.random() < 0.97 else 'GPU_A30'
            else:
                from fim.slivers.component_catalog import ComponentModelTypeMap
                from fim.user import ComponentModelType
                ent = ComponentModelTypeMap[ComponentModelType[mt]]
                op['ctype'], op['model'] = ent['Type'], ent['Model'] if r.random() < 0.9 else 'NoSuchModel'
            if self.substrate and ('NIC' in mt or 'FPGA' in mt):
                nports = 1 if 'SharedNIC' in mt else 2
                base = self.fresh('nic')
                op['ns_node_id'] = base + '-sf'
                op['if_node_ids'] = [f'{base}-p{i}' for i in range(1, nports + 1)]
                op['if_labels'] = [{'mac': '04:3F:72:B7:15:%02X' % r.randrange(256), 'vlan_range': '1-4096'} for _ in range(nports)]
            if r.random() < 0.2:
                op['kw'] = {'labels': {'bdf': '0000:41:00.0'}} if r.random() < 0.8 else {'labels': {'bdf': 'zz'}}
            return op
        if k < 33:
            n = r.choice(plain or nodes)
            return {'op': 'add_storage', 'node': tm.name(n), 'name': self.pick_name([tm.name(c) for c in tm.components(n)], 'st'),
                    'node_id': self.maybe_id('st'), 'kw': {'labels': {'local_name': 'vol1'}}}
        if k < 37:
            withc = [n for n in nodes if tm.components(n)]
            if withc:
                n = r.choice(withc)
                c = r.choice(tm.components(n))
                if tm.typ(c) == 'Storage' and r.random() < 0.5:
                    return {'op': 'remove_storage', 'node': tm.name(n), 'name': tm.name(c)}
                return {'op': 'remove_component', 'node': tm.name(n), 'name': tm.name(c)}
            return {'op': 'remove_component', 'node': r.choice(nnames), 'name': 'ghost'}
        if k < 41:
            op = {'op': 'add_facility', 'name': self.pick_name(nnames, 'fac'), 'node_id': self.maybe_id('fac'), 'site': r.choice(SITES)}
            m = r.random()
            if m < 0.4:
                op['kw'] = {'labels': {'vlan_range': '100-200'}, 'capacities': {'bw': 10}}
            elif m < 0.8:
                op['interfaces'] = [[self.fresh('fi'), {'vlan_range': '100-200'}, {'bw': 10}] for _ in range(r.randrange(1, 4))]
                if len(op['interfaces']) > 1 and r.random() > self.p_valid:
                    op['interfaces'][-1][0] = op['interfaces'][0][0]
            if r.random() < 0.2:
                op.update(r.choice([{'nstype': 'VLAN'}, {'nslabels': {'local_name': 'fac-ns'}}, {'nstype': 'MPLS'}]))
            return op
        if k < 43:
            facs = [tm.name(n) for n in nodes if tm.typ(n) == 'Facility']
            return {'op': 'remove_facility', 'name': stale(facs, r.choice(nnames))}
        if k < 46:
            op = {'op': 'add_switch', 'name': self.pick_name(nnames, 'sw'), 'node_id': self.maybe_id('sw'), 'site': r.choice(SITES),
                  'nports': r.choice([1, 2, 4])}
            if r.random() < 0.3:
                # the optional parameters of the convenience call
                op.update(r.choice([{'nstype': 'MPLS'}, {'nslabels': {'local_name': 'sw-ns'}}, {'portlabels': {'local_name': 'px', 'vlan_range': '1-100'}},
                                    {'portcapacities': {'bw': 25}}, {'kw': {'capacities': {'unit': 1}}}, {'kw': {'nosuchprop': 1}}]))
            return op
        if k < 47:
            sws = [tm.name(n) for n in nodes if tm.typ(n) == 'Switch']
            return {'op': 'remove_switch', 'name': stale(sws, r.choice(nnames))}
        if self.substrate and 47 <= k < 74:
            nsvc = [(n, sv) for n in nodes for sv in tm.services_of(n)]
            m = r.random()
            if m < 0.3 or not nsvc:
                n = r.choice(nodes)
                return {'op': 'add_node_service', 'node': tm.name(n), 'name': self.pick_name([tm.name(x) for x in tm.services_of(n)], 'ns'),
                        'node_id': self.maybe_id('ns'), 'nstype': r.choice(['MPLS', 'VLAN', 'P4', 'OVS', 'L2Bridge']),
                        'kw': {'stitch_node': True} if r.random() < 0.3 else {}}
            n, sv = r.choice(nsvc)
            inames = [tm.name(i) for i in tm.ifaces_of_service(sv)]
            if m < 0.85:
                return {'op': 'service_add_interface', 'service': tm.name(sv), 'name': self.pick_name(inames, 'p'),
                        'node_id': self.maybe_id('p'), 'itype': r.choice(IFACE_TYPES),
                        'kw': r.choice([{}, {'capacities': {'bw': 100}}, {'labels': {'local_name': 'p1'}}, {'stitch_node': True}])}
            if m < 0.95:
                return {'op': 'service_remove_interface', 'service': tm.name(sv), 'name': stale(inames, 'ghost')}
            return {'op': 'remove_node_service', 'node': tm.name(n), 'name': tm.name(sv)}
        if k < 60:
            pool = self.iface_refs(tm, only_free=r.random() < self.p_valid)
            cnt = r.choice([0, 1, 2, 2, 3, 4])
            ifs = [x[0] for x in r.sample(pool, min(cnt, len(pool)))]
            nst = r.choice(SERVICE_TYPES)
            op = {'op': 'add_network_service', 'name': self.pick_name(snames, 's'), 'node_id': self.maybe_id('s'), 'nstype': nst,
                  'interfaces': ifs if (ifs or r.random() < 0.5) else None}
            if r.random() < 0.2:
                op['kw'] = r.choice([{'site': r.choice(SITES)}, {'labels': {'vlan': '100'}}, {'capacities': {'bw': 1}},
                                     {'controller_url': 'http://x'}, {'labels': {'asn': '0'}}])
            return op
        if k < 63:
            pool = self.iface_refs(tm, only_free=r.random() < self.p_valid, with_subs=False)
            if pool:
                to = r.choice(pool)
                allnames = [x[0][1] for x in self.iface_refs(tm)] + ['outside-port']
                return {'op': 'add_port_mirror_service', 'name': self.pick_name(snames, 'pm'), 'node_id': self.maybe_id('pm'),
                        'from': r.choice(allnames), 'to': to[0],
                        'kw': {} if r.random() < 0.7 else {'site': r.choice(SITES)}}
        if k < 67:
            return {'op': 'remove_network_service', 'name': stale([tm.name(s) for s in top], 'ghost')}
        if k < 74:
            pool = self.iface_refs(tm, only_free=r.random() < self.p_valid)
            if top and pool:
                return {'op': 'connect_interface', 'service': tm.name(r.choice(top)), 'iface': r.choice(pool)[0]}
        if k < 79:
            conn = []
            for s in top:
                for sp in tm.ifaces_of_service(s):
                    for p in tm.peers(sp):
                        conn.append((tm.name(s), p))
            refs = {i: ref for ref, i in self.iface_refs(tm)}
            conn = [(s, refs[p]) for s, p in conn if p in refs]
            if conn:
                s, ref = r.choice(conn)
                if r.random() > self.p_valid and top:
                    s = tm.name(r.choice(top))
                return {'op': 'disconnect_interface', 'service': s, 'iface': ref}
        if k < 82:
            if len(top) >= 2:
                a, b = r.sample(top, 2)
                op = {'op': 'peer', 'a': tm.name(a), 'b': tm.name(b)}
                if r.random() < 0.3:
                    op['kw'] = r.choice([{'labels': {'vlan': '100'}}, {'capacities': {'bw': 10}}, {'labels': {'vlan': '100'}, 'capacities': {'bw': 1}},
                                         {'nosuchprop': 1}])
                return op
            if top and r.random() < 0.5:
                return {'op': 'copy_to_peer_labels', 'service': tm.name(r.choice(top))}
        if k < 84:
            pairs = []
            for s in top:
                for sp in tm.ifaces_of_service(s):
                    for p in tm.peers(sp):
                        q = tm.cp_parent(p)
                        if q in top and q != s:
                            pairs.append((tm.name(s), tm.name(q)))
            if pairs and r.random() < self.p_valid:
                a, b = r.choice(pairs)
                return {'op': 'unpeer', 'a': a, 'b': b}
            if len(top) >= 2:
                a, b = r.sample(top, 2)
                return {'op': 'unpeer', 'a': tm.name(a), 'b': tm.name(b)}
        if k < 89:
            ded = [(ref, i) for ref, i in self.iface_refs(tm, with_subs=False) if tm.typ(i) == 'DedicatedPort' or r.random() > 0.9]
            if ded:
                ref, i = r.choice(ded)
                ch = [tm.name(c) for c in tm.children(i)]
                m = r.random()
                lab = {'vlan': str(r.choice([100, 101, 102, 4097]))} if m < 0.9 else ({} if m < 0.95 else None)
                kw = {'labels': lab} if lab is not None else {}
                name = self.pick_name(ch, 'sub')
                # names are unique within the parent port only: reuse a name carried by a sub-interface of another port
                elsewhere = sorted({tm.name(c) for _, j in ded if j != i for c in tm.children(j)} - set(ch))
                if elsewhere and r.random() < 0.35:
                    name = r.choice(elsewhere)
                return {'op': 'add_child_interface', 'iface': ref, 'name': name, 'node_id': self.maybe_id('sub'), 'kw': kw}
        if k < 91:
            withch = [(ref, i) for ref, i in self.iface_refs(tm, with_subs=False) if tm.children(i)]
            if withch:
                ref, i = r.choice(withch)
                return {'op': 'remove_child_interface', 'iface': ref, 'name': tm.name(r.choice(tm.children(i)))}
        if k < 94:
            el = self.pick_elem(tm)
            if el:
                kind = el[0]
                pools = {'node': nnames, 'service': snames}
                return {'op': 'rename', 'elem': el, 'new': self.pick_name(pools.get(kind, []), 'rn') if r.random() < 0.9 else 'x'}
        if k < 98:
            el = self.pick_elem(tm)
            if el:
                pn, val = r.choice([('capacities', {'bw': r.randrange(1, 100)}), ('labels', {'vlan': str(r.randrange(1, 4000))}),
                                    ('tags', ['a', 'b']), ('flags', {'auto_mount': True}), ('user_data', {'z': 1}),
                                    ('details', 'some text'), ('boot_script', '#!/bin/bash'), ('labels', {'mac': 'nope'}),
                                    ('site', r.choice(SITES)), ('nosuchprop', 1)])
                if r.random() < 0.25:
                    return {'op': 'unset_property', 'elem': el, 'pname': pn}
                return {'op': 'set_property', 'elem': el, 'pname': pn, 'val': val}
        if (self.substrate and k >= 91) or k >= 98:
            free = self.iface_refs(tm, only_free=r.random() < self.p_valid, with_subs=False)
            lnames = [tm.name(l) for l in tm.ids('Link')]
            if k == 99 and lnames:
                return {'op': 'remove_link', 'name': r.choice(lnames)}
            if len(free) >= 2:
                cnt = r.choice([2, 2, 2, 3])
                ends = [x[0] for x in r.sample(free, min(cnt, len(free)))]
                return {'op': 'add_link', 'name': self.pick_name(lnames, 'l'), 'node_id': self.maybe_id('l'),
                        'ltype': r.choice(['Patch', 'L2Path', 'L1Path']), 'interfaces': ends}
        return {'op': 'add_node', 'name': self.pick_name(nnames, 'n'), 'node_id': self.maybe_id('n'),
                'site': r.choice(SITES), 'ntype': r.choice(NODE_TYPES), 'kw': self.node_kw()}

    def pick_elem(self, tm):
        r = self.rng
        kind = r.choice(['node', 'comp', 'service', 'iface', 'link'])
        nodes = tm.ids('NetworkNode')
        if kind == 'node' and nodes:
            return ['node', tm.name(r.choice(nodes))]
        if kind == 'comp':
            pool = [(n, c) for n in nodes for c in tm.components(n)]
            if pool:
                n, c = r.choice(pool)
                return ['comp', tm.name(n), tm.name(c)]
        if kind == 'service':
            ss = tm.top_services()
            if ss:
                return ['service', tm.name(r.choice(ss))]
        if kind == 'iface':
            pool = self.iface_refs(tm)
            if pool:
                return ['iface'] + r.choice(pool)[0]
        if kind == 'link':
            ls = tm.ids('Link')
            if ls:
                return ['link', tm.name(r.choice(ls))]
        return None


def new_topology(importer, flavour='experiment'):
    from fim.user.topology import ExperimentTopology, SubstrateTopology
    if flavour == 'substrate':
        return SubstrateTopology(importer=importer)
    return ExperimentTopology(importer=importer)


def run_history(rng, topo, length, flavour='experiment', hook=None, p_valid=0.8, ambiguous_names_ok=False):
    """Generate and apply `length` operations; hook(op, outcome, exc) is called after each one.
    Returns the list of (op, outcome) pairs."""
    g = Gen(rng, topo, flavour, p_valid)
    g.ambiguous_names_ok = ambiguous_names_ok
    out = []
    for _ in range(length):
        op = g.next_op()
        try:
            execute(topo, op)
            res = 'ok'
            exc = None
        except Unresolved as e:
            res, exc = 'unresolved', e
        except Exception as e:
            res, exc = f'raise {type(e).__name__}', e
        out.append((op, res))
        if hook is not None:
            if hook(op, res, exc) is False:
                break
    return out


def make_model(rng, imp, kind):
    """A model reachable through the topology-building API, for checks that need realistic graphs
    (C01): returns (property graph object, build script)."""
    if kind in ('arm', 'adm'):
        try:
            from . import subgen
            return subgen.make_model(rng, imp, kind)
        except ImportError:
            kind = 'substrate'
    flavour = 'substrate' if kind == 'substrate' else 'experiment'
    topo = new_topology(imp, flavour)
    script = []

    def hook(op, res, exc):
        if res == 'ok':
            script.append(op)
    run_history(rng, topo, rng.randrange(15, 45), flavour, hook, p_valid=0.95)
    return topo.graph_model, script
