"""Generator of substrate (aggregate) models with delegations, built through SubstrateTopology:
sites with workers (GPU / NVME / SharedNIC / SmartNIC components), a data-plane switch with a
node-level service and ports, facility ports, patch links, stitch-marked uplinks; a network
model that shares the stitch-marked switch/service/uplink nodes and connects the sites; per-node
capacity and label delegations under 1-3 delegation ids (single-resource and pooled).

The delegation JSON is written by the generator itself (plain dictionaries in the documented wire
format), so that the oracle of C13/C14 never depends on the library's Delegations code.
"""
import json

from . import topogen

CAPD, LABD = 'CapacityDelegations', 'LabelDelegations'


class Site:
    def __init__(self, name):
        self.name = name
        self.script = []          # topogen descriptors
        self.delegations = {}     # node_id -> {CAPD: {del: entry}, LABD: {del: entry}}
        self.stitch = []          # node ids marked StitchNode
        self.uplinks = []         # (port name, node id)
        self.switch = None        # (name, id, ns name, ns id)


def gen_site(rng, name, del_ids, nworkers=None):
    s = Site(name)
    add = s.script.append
    sw_name, sw_id = f'{name.lower()}-dp', f'{name}-dp-id'
    add({'op': 'add_node', 'name': sw_name, 'node_id': sw_id, 'site': name, 'ntype': 'Switch', 'kw': {'stitch_node': True}})
    ns_name, ns_id = sw_name + '-ns', sw_id + '-ns'
    add({'op': 'add_node_service', 'node': sw_name, 'name': ns_name, 'node_id': ns_id, 'nstype': 'MPLS', 'kw': {'stitch_node': True}})
    s.switch = (sw_name, sw_id, ns_name, ns_id)
    s.stitch += [sw_id, ns_id]
    port_k = [0]

    def sw_port(stitch=False):
        port_k[0] += 1
        pn, pid = f'HundredGigE0/0/0/{port_k[0]}', f'{sw_id}-p{port_k[0]}'
        kw = {'stitch_node': True} if stitch else {}
        if rng.random() < 0.4:
            kw['capacities'] = {'bw': 100}
        add({'op': 'service_add_interface', 'service': ns_name, 'name': pn, 'node_id': pid, 'itype': 'TrunkPort', 'kw': kw})
        if stitch:
            s.stitch.append(pid)
        # switch ports can carry delegations of their own: the two ends of a link may then belong to different delegation ids
        # (not the stitch ports: in a combined model only one of the models sharing a stitch port may speak for it)
        if not stitch:
            delegable.append((pid, 'port'))
        return pn, pid
    link_k = [0]

    def patch(a_ref, b_ref):
        link_k[0] += 1
        add({'op': 'add_link', 'name': f'{name}-l{link_k[0]}', 'node_id': f'{name}-l{link_k[0]}-id', 'ltype': 'Patch',
             'interfaces': [a_ref, b_ref]})
        return f'{name}-l{link_k[0]}-id'
    delegable = []     # (node id, kind) that may carry delegations
    # an optional second switch that is NOT a stitch node (like the P4 switch of a site): ports peered with it
    # must drag its service and the switch itself into a partition
    p4 = None
    if rng.random() < 0.6:
        p4n, p4id = f'{name.lower()}-p4', f'{name}-p4-id'
        np4 = rng.randrange(2, 4)
        add({'op': 'add_switch', 'name': p4n, 'node_id': p4id, 'site': name, 'nports': np4})
        p4 = [p4n, [f'p{i}' for i in range(1, np4 + 1)]]
    for w in range(nworkers or rng.randrange(1, 4)):
        wn, wid = f'{name.lower()}-w{w + 1}', f'{name}-w{w + 1}-id'
        add({'op': 'add_node', 'name': wn, 'node_id': wid, 'site': name, 'ntype': 'Server',
             'kw': {'capacities': {'core': rng.choice([32, 64]), 'ram': rng.choice([256, 512]), 'disk': 3000, 'unit': 1}}})
        delegable.append((wid, 'node'))
        for c in range(rng.randrange(0, 4)):
            kind = rng.choice(['GPU', 'NVME', 'SharedNIC', 'SmartNIC'])
            cn, cid = f'{wn}-c{c}', f'{wid}-c{c}'
            if kind == 'GPU':
                add({'op': 'add_component', 'node': wn, 'name': cn, 'node_id': cid, 'ctype': 'GPU', 'model': rng.choice(['RTX6000', 'Tesla T4']),
                     'kw': {'capacities': {'unit': 1}, 'labels': {'bdf': '0000:25:00.0'}}})
                delegable.append((cid, 'component'))
            elif kind == 'NVME':
                add({'op': 'add_component', 'node': wn, 'name': cn, 'node_id': cid, 'ctype': 'NVME', 'model': 'P4510',
                     'kw': {'capacities': {'unit': 1, 'disk': 1000}, 'labels': {'bdf': '0000:21:00.0'}}})
                delegable.append((cid, 'component'))
            else:
                nports = 1 if kind == 'SharedNIC' else 2
                if_ids = [f'{cid}-p{i + 1}' for i in range(nports)]
                if kind == 'SharedNIC':
                    labs = [{'bdf': ['0000:e2:00.2', '0000:e2:00.3'], 'mac': ['04:3F:72:B7:14:ED', '04:3F:72:B7:14:EE'], 'vlan': ['1001', '1002']}]
                else:
                    labs = [{'mac': '04:3F:72:B7:15:7%d' % i, 'vlan_range': '1-4096'} for i in range(nports)]
                add({'op': 'add_component', 'node': wn, 'name': cn, 'node_id': cid, 'ctype': kind, 'model': 'ConnectX-6',
                     'ns_node_id': cid + '-sf', 'if_node_ids': if_ids, 'if_labels': labs,
                     'kw': {'capacities': {'unit': 2 if kind == 'SharedNIC' else 1}}})
                delegable.append((cid, 'component'))
                for i, pid in enumerate(if_ids):
                    delegable.append((pid, 'port'))
                    r = rng.random()
                    if p4 and p4[1] and r < 0.4:
                        patch([wn, f'{cn}-p{i + 1}'], [p4[0], p4[1].pop()])
                    elif r < 0.9:
                        pn, spid = sw_port()
                        patch([wn, f'{cn}-p{i + 1}'], [sw_name, pn])
    for u in range(rng.randrange(1, 3)):
        pn, pid = sw_port(stitch=True)
        s.uplinks.append((pn, pid))
    if rng.random() < 0.5:
        fn, fid = f'{name}-fac', f'{name}-fac-id'
        add({'op': 'add_facility', 'name': fn, 'node_id': fid, 'site': name,
             'kw': {'labels': {'vlan_range': '100-200'}, 'capacities': {'bw': 10}}})
        delegable.append((fid + '-int', 'port'))
        pn, spid = sw_port()
        patch([fn, fn + '-int'], [sw_name, pn])
    # ---- delegations
    pools = []
    for nid, kind in delegable:
        mode = rng.choice(['none', 'cap', 'lab', 'both', 'cap', 'both'])
        if mode == 'none':
            continue
        ds = rng.sample(del_ids, rng.randrange(1, len(del_ids) + 1)) if rng.random() < 0.35 else [rng.choice(del_ids)]
        ent = {}
        if mode in ('cap', 'both'):
            ent[CAPD] = {d: {'pool_id': '_', 'capacities': {'unit': 1, 'core': rng.choice([2, 8, 16])} if kind == 'node' else {'unit': 1}} for d in ds}
        if mode in ('lab', 'both'):
            ent[LABD] = {d: {'pool_id': '_', 'labels': {'vlan_range': f'{100 + 10 * i}-{109 + 10 * i}'} if kind == 'port' else {'bdf': '0000:25:00.0'}}
                         for i, d in enumerate(ds)}
            if rng.random() < 0.2:
                # a free-text label whose value happens to be the delegation id
                for d in ds:
                    ent[LABD][d]['labels'] = dict(ent[LABD][d]['labels'], local_name=d)
        s.delegations[nid] = ent
    # a pooled delegation: defined on one node, referenced from others
    cands = [nid for nid, kind in delegable if kind == 'port' and nid not in s.delegations]
    if len(cands) >= 2 and rng.random() < 0.7:
        d = rng.choice(del_ids)
        # (a pool may be named like the delegation it belongs to - only '_' is reserved)
        pool = f'{name}-pool{rng.randrange(10)}' if rng.random() < 0.7 else d
        members = rng.sample(cands, rng.randrange(2, min(4, len(cands)) + 1))
        t, key, det = rng.choice([(LABD, 'labels', {'vlan_range': '2000-2999'}), (CAPD, 'capacities', {'bw': 100})])
        s.delegations[members[0]] = {t: {d: {'pool_id': pool, key: det}}}
        for m in members[1:]:
            s.delegations[m] = {t: {d: {'pool': pool}}}
    return s


def gen_network(rng, sites, del_ids):
    """A network model sharing the stitch-marked switch/service/uplink nodes of the sites, plus inter-site links."""
    n = Site('NET')
    add = n.script.append
    for s in sites:
        sw_name, sw_id, ns_name, ns_id = s.switch
        for op in s.script:
            if (op['op'] == 'add_node' and op['node_id'] == sw_id) or (op['op'] == 'add_node_service' and op['node_id'] == ns_id) or \
                    (op['op'] == 'service_add_interface' and op['node_id'] in [u[1] for u in s.uplinks]):
                add(dict(op))
        n.stitch += [sw_id, ns_id] + [u[1] for u in s.uplinks]
    k = 0
    ups = [(s, u) for s in sites for u in s.uplinks]
    used = set()
    for i in range(len(sites)):
        for j in range(i + 1, len(sites)):
            a = [u for u in sites[i].uplinks if u[1] not in used]
            b = [u for u in sites[j].uplinks if u[1] not in used]
            if a and b and rng.random() < 0.8:
                k += 1
                ua, ub = a[0], b[0]
                used |= {ua[1], ub[1]}
                add({'op': 'add_link', 'name': f'net-l{k}', 'node_id': f'net-l{k}-id', 'ltype': 'L2Path',
                     'interfaces': [[sites[i].switch[0], ua[0]], [sites[j].switch[0], ub[0]]]})
    # the network aggregate speaks for the uplink ports
    for s, u in ups:
        if rng.random() < 0.8:
            d = rng.choice(del_ids)
            n.delegations[u[1]] = {LABD: {d: {'pool_id': '_', 'labels': {'vlan_range': '3000-3100'}}},
                                   **({CAPD: {d: {'pool_id': '_', 'capacities': {'bw': 100}}}} if rng.random() < 0.5 else {})}
    return n


def build(imp, site: Site):
    """Apply the script through SubstrateTopology and write the delegation properties.  Returns the topology."""
    topo = topogen.new_topology(imp, 'substrate')
    for op in site.script:
        topogen.execute(topo, op)
    gm = topo.graph_model
    for nid, ent in site.delegations.items():
        for prop, val in ent.items():
            gm.update_node_property(node_id=nid, prop_name=prop, prop_val=json.dumps(val))
    return topo


def arm_of(topo, via='as_arm'):
    """The ARM either recast from the topology (as_arm) or obtained by serialize -> import -> NetworkXARMGraph."""
    from fim.graph.resources.networkx_arm import NetworkXARMGraph
    if via == 'as_arm':
        return topo.as_arm()
    imp = topo.graph_model.importer
    text = topo.serialize()
    g = imp.import_graph_from_string(graph_string=text, graph_id='arm-' + topo.graph_model.graph_id[:8])
    return NetworkXARMGraph(graph=g)


def make_model(rng, imp, kind):
    """For C01: an ARM or one of its ADMs as a model reachable through the API."""
    s = gen_site(rng, rng.choice(['RENC', 'UKY', 'LBNL']), ['d1', 'd2'])
    topo = build(imp, s)
    arm = arm_of(topo)
    if kind == 'arm':
        return arm, s.script
    adms = arm.generate_adms()
    if not adms:
        return arm, s.script
    k = sorted(adms)[0]
    return adms[k], s.script + [{'op': 'generate_adms', 'delegation': k}]
