"""Instrumented lock substituted for storage.lock + per-call balance accounting +
invariant hook at every successful release (lock still held)."""
import threading


class WouldBlock(Exception):
    """Sequential mode: acquire() found the lock still held by an earlier call."""


class SchedAbort(BaseException):
    """Raised inside managed threads to unwind after a deadlock was detected."""


class MonitoredLock:
    def __init__(self, name, sched=None, release_hook=None):
        self.name = name
        self.inner = threading.Lock()
        self.sched = sched
        self.release_hook = release_hook
        self.owner = None            # logical owner (thread tag) or None
        self.owner_call = None
        self.log = []                # (thread tag, call id, 'acquire'|'release', 'ok'|error)
        self.tl = threading.local()
        self.mutex = threading.Lock()
        self.hook_problems = []

    # -- call records (set by the method wrappers)
    def cur(self):
        st = getattr(self.tl, 'stack', None)
        return st[-1] if st else None

    def _tag(self):
        if self.sched is not None:
            t = self.sched.tid()
            if t is not None:
                return t
        return 'main'

    def _rec(self, what, res):
        c = self.cur()
        with self.mutex:
            self.log.append((self._tag(), c['id'] if c else None, what, res))
        if c is not None:
            c['events'].append((what, res))

    def acquire(self, blocking=True, timeout=-1):
        tag = self._tag()
        if self.sched is not None and self.sched.tid() is not None:
            while self.owner is not None:
                self.sched.block_on(self)          # parks this thread, returns when runnable again
            self.owner = tag
            assert self.inner.acquire(False)
        else:
            if not self.inner.acquire(False):
                self._rec('acquire', 'would-block')
                raise WouldBlock(f'{self.name}: lock is still held by {self.owner_call}')
            self.owner = tag
        c = self.cur()
        self.owner_call = (c['name'], c['id']) if c else None
        if c is not None:
            c['held'] += 1
        self._rec('acquire', 'ok')
        return True

    def release(self):
        if self.owner is None:
            self._rec('release', 'error: release unlocked lock')
            raise RuntimeError('release unlocked lock')
        # invariant hook, lock still held
        if self.release_hook is not None:
            try:
                p = self.release_hook()
                if p:
                    self.hook_problems.append((self.owner_call, p))
            except Exception as e:      # the hook must never disturb the code under test
                self.hook_problems.append((self.owner_call, f'hook raised {type(e).__name__}: {e}'))
        c = self.cur()
        if c is not None:
            c['held'] -= 1
        self.owner = None
        self.inner.release()
        self._rec('release', 'ok')
        if self.sched is not None:
            self.sched.lock_released(self)

    def locked(self):
        return self.owner is not None

    def __enter__(self):
        self.acquire()
        return self

    def __exit__(self, *a):
        self.release()

    def force_free(self):
        """Harness-only: bring the lock back to 'free' after a recorded leak so the run can go on."""
        self.owner = None
        self.owner_call = None
        if self.inner.locked():
            self.inner.release()


PUBLIC = ['add_graph', 'add_graph_direct', 'del_graph', 'extract_graph', 'get_graph', 'del_all_graphs',
          'add_blank_node_to_graph']


class StoreMonitor:
    """Installs a MonitoredLock on a storage singleton and wraps its public methods with
    call/return recorders that judge the per-call lock balance."""

    def __init__(self, importer, name, sched=None, invariant=None):
        from .canon import raw_storage
        self.st = raw_storage(importer)
        self.name = name
        self.calls = 0
        self.problems = []       # (kind, detail dict)
        self.lock = MonitoredLock(name, sched, (lambda: invariant(self.st)) if invariant else None)
        self.orig_lock = self.st.lock
        self.st.lock = self.lock
        self.cls = type(self.st)
        self.orig = {}
        self._idlock = threading.Lock()
        for m in PUBLIC:
            if m in self.cls.__dict__:
                self.orig[m] = self.cls.__dict__[m]
                setattr(self.cls, m, self._wrap(m, self.orig[m]))
        self.wrapped = sorted(self.orig)

    def _wrap(self, mname, fn):
        mon = self

        def wrapper(self_, *a, **kw):
            if self_ is not mon.st:
                return fn(self_, *a, **kw)
            lk = mon.lock
            with mon._idlock:
                mon.calls += 1
                cid = mon.calls
            rec = {'name': mname, 'id': cid, 'events': [], 'held': 0}
            st = getattr(lk.tl, 'stack', None)
            if st is None:
                st = lk.tl.stack = []
            st.append(rec)
            outcome = 'return'
            try:
                return fn(self_, *a, **kw)
            except SchedAbort:
                outcome = 'abort'
                raise
            except BaseException as e:
                outcome = f'raise {type(e).__name__}: {str(e)[:120]}'
                raise
            finally:
                st.pop()
                if outcome != 'abort':
                    mon._judge(rec, outcome)
        wrapper.__name__ = mname
        return wrapper

    def _judge(self, rec, outcome):
        acq = sum(1 for w, r in rec['events'] if w == 'acquire' and r == 'ok')
        rel = sum(1 for w, r in rec['events'] if w == 'release' and r == 'ok')
        err = [r for w, r in rec['events'] if r not in ('ok',)]
        d = {'store': self.name, 'method': rec['name'], 'outcome': outcome, 'acquires': acq, 'releases': rel,
             'events': rec['events']}
        if any('release unlocked' in e for e in err):
            self.problems.append(('double-release', d))
        elif any(e == 'would-block' for e in err):
            self.problems.append(('blocked-by-leaked-lock', dict(d, held_by=self.lock.owner_call)))
        elif rec['held'] != 0 or acq != rel:
            self.problems.append(('lock-left-held' if acq > rel else 'unbalanced', d))

    def uninstall(self):
        for m, f in self.orig.items():
            setattr(self.cls, m, f)
        self.st.lock = self.orig_lock


# ------------------------------------------------------------------ store invariants (run under the store's own lock)
def shared_invariant(st):
    g = st.graphs
    out = []
    mx = max(g.nodes, default=0)
    if isinstance(mx, int) and st.start_id <= mx:
        out.append(f'start_id {st.start_id} <= largest internal id in use {mx}')
    for n, d in g.nodes(data=True):
        if 'GraphID' not in d or 'NodeID' not in d:
            out.append(f'stored node {n} lacks GraphID/NodeID: {sorted(d)}')
            break
    return out


def disjoint_invariant(st):
    out = []
    for gid, g in list(st.graphs.items()):
        mx = max(g.nodes, default=0)
        if len(g.nodes) and isinstance(mx, int) and st.graph_node_ids[gid] <= mx:
            out.append(f'graph {gid}: next id {st.graph_node_ids[gid]} <= largest id in use {mx}')
        for n, d in g.nodes(data=True):
            if 'GraphID' not in d or 'NodeID' not in d:
                out.append(f'graph {gid}: stored node {n} lacks GraphID/NodeID')
                break
    return out
