"""Run context, three-valued verdicts, shard orchestration, evidence writing.

A check module (checks/cNN.py) provides

    PROPERTY = 'C01'
    LEVEL = 'exploration'
    RULE = '...'                       # how cases are generated, what counts as non-trivial
    SHARDS = {'quick': 4, 'thorough': 16}
    REQUIRED = ['monitor-name', ...]   # monitors that must have been evaluated (else INCONCLUSIVE)
    def run(ctx): ...                  # executed once per shard, in its own process
    def replay(ctx, case): ...         # optional: re-run one recorded case

Inside run() the workload reports through ctx:
    ctx.count(name)            per-operation / per-monitor counters
    ctx.seen(obj, nontrivial)  one evaluated case (hashed for distinctness)
    ctx.sample(obj)            keep a few cases verbatim for the evidence file
    ctx.violation(key, clause, witness)   key = mechanism key used by known_findings.json
"""
import hashlib
import json
import os
import random
import subprocess
import sys
import time
import traceback
from collections import Counter

from . import boot

EXIT_HELD, EXIT_VIOLATION, EXIT_INCONCLUSIVE = 0, 1, 2


def jdefault(o):
    if isinstance(o, (set, frozenset)):
        return sorted(o, key=repr)
    if isinstance(o, bytes):
        return o.decode('latin1')
    if isinstance(o, tuple):
        return list(o)
    return repr(o)


def sanitize(o):
    if isinstance(o, dict):
        return {(k if isinstance(k, str) else repr(k)): sanitize(v) for k, v in o.items()}
    if isinstance(o, (list, tuple)):
        return [sanitize(x) for x in o]
    if isinstance(o, (set, frozenset)):
        return sorted((sanitize(x) for x in o), key=repr)
    return o


def jdump(o, **kw):
    try:
        return json.dumps(o, default=jdefault, sort_keys=True, ensure_ascii=True, **kw)
    except TypeError:
        return json.dumps(sanitize(o), default=jdefault, sort_keys=True, ensure_ascii=True, **kw)


def digest(o):
    if not isinstance(o, str):
        o = jdump(o)
    return hashlib.sha1(o.encode('utf-8', 'surrogatepass')).hexdigest()[:14]


class Budget(Exception):
    pass


class Ctx:
    def __init__(self, prop, tier, seed, shard=0, nshards=1):
        self.prop, self.tier, self.seed = prop, tier, seed
        self.shard, self.nshards = shard, nshards
        self.rng = random.Random(f'{seed}/{prop}/{shard}/{nshards}')
        self.counters = Counter()
        self.hashes = set()
        self.evaluations = 0
        self.samples = []
        self.violations = []
        self.info = {}
        self.inconclusive = []
        self.t0 = time.time()
        self.deadline = None

    # ------------------------------------------------------------------
    @property
    def quick(self):
        return self.tier == 'quick'

    def pick(self, quick, thorough):
        return quick if self.quick else thorough

    def subrng(self, *tag):
        return random.Random(f'{self.seed}/{self.prop}/{self.shard}/{self.nshards}/' + '/'.join(map(str, tag)))

    def count(self, name, n=1):
        self.counters[name] += n

    def seen(self, obj, nontrivial=True):
        self.evaluations += 1
        if nontrivial:
            self.hashes.add(digest(obj))

    def sample(self, obj, limit=3):
        if len(self.samples) < limit:
            s = jdump(obj)
            if len(s) > 6000:
                s = s[:6000] + '...(truncated)'
                self.samples.append(s)
            else:
                self.samples.append(json.loads(s))

    def violation(self, key, clause, witness):
        """key: mechanism key (see known_findings.json); clause: which oracle clause failed."""
        self.count('violations_raw')
        # keep the first few witnesses of each key, count the rest
        same = [v for v in self.violations if v['key'] == key]
        if len(same) < 3:
            w = json.loads(jdump(witness))
            self.violations.append({'key': key, 'clause': clause, 'witness': w, 'n': 1,
                                    'shard': self.shard, 'hashseed': os.environ.get('PYTHONHASHSEED')})
        else:
            same[0]['n'] += 1

    def mark_inconclusive(self, reason):
        self.inconclusive.append(reason)

    def out_of_time(self):
        return self.deadline is not None and time.time() > self.deadline

    def result(self):
        return {'counters': dict(self.counters), 'hashes': sorted(self.hashes),
                'evaluations': self.evaluations, 'samples': self.samples,
                'violations': self.violations, 'info': self.info,
                'inconclusive': self.inconclusive, 'wall_s': time.time() - self.t0}


# ----------------------------------------------------------------------
def load_check(prop):
    import importlib
    return importlib.import_module('checks.' + prop.lower())


def load_findings():
    p = os.path.join(boot.VERIF, 'known_findings.json')
    if not os.path.exists(p):
        return []
    with open(p) as f:
        return json.load(f).get('findings', [])


def worker_main(prop, tier, seed, shard, nshards, out, replay_case=None):
    boot.setup()
    mod = load_check(prop)
    ctx = Ctx(prop, tier, seed, shard, nshards)
    budget = getattr(mod, 'TIME_BUDGET', {'quick': 120, 'thorough': 1500})
    ctx.deadline = time.time() + float(os.environ.get('VERIF_TIME_BUDGET', budget[tier]))
    try:
        if replay_case is not None:
            mod.replay(ctx, replay_case)
        else:
            mod.run(ctx)
    except Exception:
        ctx.mark_inconclusive('harness error: ' + traceback.format_exc()[-3000:])
    with open(out, 'w') as f:
        f.write(jdump(ctx.result()))


def merge(results):
    tot = {'counters': Counter(), 'hashes': set(), 'evaluations': 0, 'samples': [], 'violations': [],
           'info': {}, 'inconclusive': []}
    for r in results:
        tot['counters'].update(r['counters'])
        tot['hashes'].update(r['hashes'])
        tot['evaluations'] += r['evaluations']
        for s in r['samples']:
            if len(tot['samples']) < 4:
                tot['samples'].append(s)
        tot['violations'].extend(r['violations'])
        for k, v in r['info'].items():
            if isinstance(v, (int, float)) and isinstance(tot['info'].get(k), (int, float)):
                tot['info'][k] += v
            elif isinstance(v, list) and isinstance(tot['info'].get(k), list):
                for x in v:
                    if x not in tot['info'][k]:
                        tot['info'][k].append(x)
            elif isinstance(v, dict) and isinstance(tot['info'].get(k), dict):
                for kk, vv in v.items():
                    if isinstance(vv, (int, float)) and isinstance(tot['info'][k].get(kk), (int, float)):
                        tot['info'][k][kk] += vv
                    else:
                        tot['info'][k].setdefault(kk, vv)
            else:
                tot['info'].setdefault(k, v)
        tot['inconclusive'].extend(r['inconclusive'])
    return tot


def master_main(prop, tier, seed, replay_path=None, only_shard=None):
    t0 = time.time()
    boot.ensure_deps()
    boot.setup()
    mod = load_check(prop)
    nsh = getattr(mod, 'SHARDS', {'quick': 4, 'thorough': 16})[tier]
    if os.environ.get('VERIF_SHARDS'):
        nsh = int(os.environ['VERIF_SHARDS'])
    work = os.path.join(boot.VERIF, '.work', f'{prop}-{tier}-{os.getpid()}')
    os.makedirs(work, exist_ok=True)
    replay_case = None
    if not replay_path:
        import glob
        rdir0 = os.environ.get('VERIF_REPLAY_DIR') or os.path.join(boot.VERIF, 'replay')
        for f in glob.glob(os.path.join(rdir0, f'{prop}-{tier}-*.json')):
            try:
                os.unlink(f)
            except OSError:
                pass
    if replay_path:
        with open(replay_path) as f:
            rp = json.load(f)
        replay_case = rp
        nsh = 1
    timeout = getattr(mod, 'WORKER_TIMEOUT', {'quick': 600, 'thorough': 3600})[tier]
    procs = []
    for i in range(nsh):
        if only_shard is not None and i != only_shard:
            continue
        out = os.path.join(work, f'shard{i}.json')
        env = dict(os.environ)
        hs = rp.get('hashseed') if replay_case else None
        if hs is None:
            hs = getattr(mod, 'hashseed', lambda tier, i: 0 if tier == 'quick' else i)(tier, i)
        env['PYTHONHASHSEED'] = str(hs)
        env['PYTHONDONTWRITEBYTECODE'] = '1'
        env['PYTHONUTF8'] = '1'
        env['VERIF_REPO'] = boot.REPO
        cmd = [boot.PY, os.path.join(boot.VERIF, 'check.py'), prop, tier, '--worker', f'{i}/{nsh}',
               '--out', out, '--seed', str(seed)]
        if replay_path:
            cmd += ['--replay', replay_path]
        lf = open(os.path.join(work, f'shard{i}.log'), 'w')
        procs.append((i, out, lf, subprocess.Popen(cmd, env=env, stdout=lf, stderr=subprocess.STDOUT,
                                                   cwd=boot.VERIF)))
    results, incon = [], []
    for i, out, lf, p in procs:
        try:
            p.wait(timeout=max(1, timeout - (time.time() - t0)))
        except subprocess.TimeoutExpired:
            p.kill()
            p.wait()
            incon.append(f'shard {i} exceeded the {timeout}s watchdog (inconclusive, not a violation)')
        lf.close()
        if os.path.exists(out):
            try:
                with open(out) as f:
                    results.append(json.load(f))
            except Exception as e:
                incon.append(f'shard {i}: unreadable result ({e})')
        else:
            tail = ''
            try:
                with open(lf.name) as f:
                    tail = f.read()[-1500:]
            except Exception:
                pass
            incon.append(f'shard {i}: no result written (exit {p.returncode}) {tail}')
    tot = merge(results)
    tot['inconclusive'].extend(incon)
    # required monitors
    for m in getattr(mod, 'REQUIRED', []):
        if replay_case is None and tot['counters'].get(m, 0) == 0:
            tot['inconclusive'].append(f'deciding monitor/workload "{m}" was never evaluated')
    # classify violations
    findings = load_findings()
    known = {f['key']: f for f in findings if f.get('property') == prop and f.get('status') == 'known'}
    known_seen, fresh = {}, []
    for v in tot['violations']:
        if v['key'] in known:
            known_seen.setdefault(v['key'], []).append(v)
        else:
            fresh.append(v)
    rc = EXIT_HELD
    lines = []
    for k, vs in sorted(known_seen.items()):
        lines.append(f'KNOWN-FINDING: property={prop} {k}: {known[k]["what"]} (seen {sum(v["n"] for v in vs)}x this run)')
    if fresh:
        rc = EXIT_VIOLATION
        rdir = os.environ.get('VERIF_REPLAY_DIR') or os.path.join(boot.VERIF, 'replay')
        os.makedirs(rdir, exist_ok=True)
        seen_keys = set()
        for n, v in enumerate(fresh):
            if v['key'] in seen_keys:
                continue
            seen_keys.add(v['key'])
            rp = os.path.join(rdir, f'{prop}-{tier}-{len(seen_keys)}.json')
            with open(rp, 'w') as f:
                f.write(jdump({'property': prop, 'tier': tier, 'seed': seed, 'shard': v.get('shard'),
                               'hashseed': v.get('hashseed'), 'key': v['key'], 'clause': v['clause'],
                               'witness': v['witness']}, indent=1))
            lines.append(f'VIOLATION property={prop} replay={rp}')
            lines.append(f'  key={v["key"]} clause={v["clause"]}')
            lines.append('  witness=' + jdump(v['witness'])[:1500])
    elif tot['inconclusive']:
        rc = EXIT_INCONCLUSIVE
        for r in tot['inconclusive'][:5]:
            lines.append(f'INCONCLUSIVE property={prop} reason={r}')
    if replay_case is None and not os.environ.get('VERIF_NO_EVIDENCE'):
        write_evidence(mod, prop, tier, seed, tot, known_seen, fresh, time.time() - t0, nsh)
    import shutil
    if rc == EXIT_HELD or not os.environ.get('VERIF_KEEP_WORK'):
        shutil.rmtree(work, ignore_errors=True)
    c = tot['counters']
    print(f'{prop} {tier} seed={seed}: evaluations={tot["evaluations"]} distinct_nontrivial={len(tot["hashes"])} '
          f'violations={len(fresh)} known_findings={len(known_seen)} wall={time.time() - t0:.1f}s')
    top = ', '.join(f'{k}={v}' for k, v in sorted(c.items())[:40])
    print('  observed: ' + top)
    for l in lines:
        print(l)
    return rc


def write_evidence(mod, prop, tier, seed, tot, known_seen, fresh, wall, nsh):
    cov = {
        'evaluations': tot['evaluations'],
        'distinct_nontrivial': len(tot['hashes']),
        'rule': getattr(mod, 'RULE', ''),
        'samples': tot['samples'],
        'counters': dict(sorted(tot['counters'].items())),
        'shards': nsh,
        'known_findings_seen': {k: sum(v['n'] for v in vs) for k, vs in known_seen.items()},
        'inconclusive': tot['inconclusive'][:10],
    }
    if getattr(mod, 'EXHAUSTIVE', {}).get(tier):
        cov['exhaustive'] = True
    cov.update(tot['info'])
    ev = {
        'property_id': prop, 'tier': tier, 'seed': int(seed), 'level': getattr(mod, 'LEVEL', 'exploration'),
        'coverage': cov, 'assumptions': getattr(mod, 'ASSUMPTIONS', []), 'wall_s': round(wall, 2),
        'violations': len(fresh),
    }
    path = os.path.join(boot.VERIF, 'evidence', f'{prop}.json')
    os.makedirs(os.path.dirname(path), exist_ok=True)
    try:
        import jsonschema
        with open('/root/.vp/EVIDENCE.schema.json') as f:
            schema = json.load(f)
        jsonschema.validate(json.loads(jdump(ev)), schema)
    except ImportError:
        pass
    except FileNotFoundError:
        pass
    except Exception as e:  # schema violation: say so loudly but still write
        print(f'WARNING evidence does not validate: {str(e)[:300]}')
    with open(path, 'w') as f:
        f.write(jdump(ev, indent=1))
