"""Executable reference model of the documented property-graph interface
(ABCPropertyGraph docstrings + the clauses of property C05), an operation
alphabet, and an executor that applies one operation to a real backend.

State: nodes {(gid, nid): props incl. Class/NodeID/GraphID}, edges {frozenset{(gid,nid),(gid,nid)}: props incl. Class}.
Every model answer is tagged 'spec' (the interface says so) or 'unspec' (the
interface is silent: only backend-vs-backend agreement is required and the
model adopts the backends' state afterwards).
"""
import copy
import json

IDENTITY = ['GraphID', 'NodeID', 'Type', 'Class', 'Name']   # can never be removed
RAISE = ('raise',)


class Model:
    def __init__(self):
        self.nodes = {}
        self.edges = {}

    def clone(self):
        m = Model()
        m.nodes = copy.deepcopy(self.nodes)
        m.edges = copy.deepcopy(self.edges)
        return m

    # -- helpers
    def g_nodes(self, g):
        return [k for k in self.nodes if k[0] == g]

    def ek(self, a, b):
        return frozenset([a, b])

    def snapshot(self):
        nodes = {json.dumps(list(k)): dict(v) for k, v in self.nodes.items()}
        edges = {}
        for k, v in self.edges.items():
            ks = sorted(json.dumps(list(x)) for x in k)
            if len(ks) == 1:
                ks = ks * 2
            edges['|'.join(ks)] = dict(v)
        return {'nodes': nodes, 'edges': edges}

    def adopt(self, snap):
        self.nodes = {tuple(json.loads(k)): dict(v) for k, v in snap['nodes'].items()}
        self.edges = {}
        for k, v in snap['edges'].items():
            a, b = k.split('|')
            self.edges[frozenset([tuple(json.loads(a)), tuple(json.loads(b))])] = dict(v)

    # -- operations: return (outcome, 'spec'|'unspec'); outcome = ('ok', value) | ('raise',)
    def apply(self, op):
        return getattr(self, 'op_' + op['op'])(**{k: v for k, v in op.items() if k != 'op'})

    def op_add_node(self, g, nid, label, props):
        if (g, nid) in self.nodes:
            # "a node id is unique within its graph whatever the node's class"
            return RAISE, 'spec'
        p = {'GraphID': g, 'Class': label, 'NodeID': nid}
        if props:
            if any(k in ('GraphID', 'Class', 'NodeID') for k in props):
                return None, 'unspec'
            p.update(props)
        self.nodes[(g, nid)] = p
        return ('ok', None), 'spec'

    def op_delete_node(self, g, nid):
        if (g, nid) not in self.nodes:
            return RAISE, 'spec'
        del self.nodes[(g, nid)]
        for k in [k for k in self.edges if (g, nid) in k]:
            del self.edges[k]
        return ('ok', None), 'spec'

    def op_add_link(self, g, a, rel, b, props):
        if (g, a) not in self.nodes or (g, b) not in self.nodes:
            return RAISE, 'spec'
        k = self.ek((g, a), (g, b))
        if k in self.edges or a == b:
            return None, 'unspec'          # re-adding an existing link / self loop: interface silent
        p = {'Class': rel}
        if props:
            if 'Class' in props:
                return None, 'unspec'
            p.update(props)
        self.edges[k] = p
        return ('ok', None), 'spec'

    def op_get_node_properties(self, g, nid):
        if (g, nid) not in self.nodes:
            return RAISE, 'spec'
        p = dict(self.nodes[(g, nid)])
        c = p.pop('Class')
        return ('ok', [[c], p]), 'spec'

    def op_get_link_properties(self, g, a, b):
        if (g, a) not in self.nodes or (g, b) not in self.nodes:
            return RAISE, 'spec'
        k = self.ek((g, a), (g, b))
        if k not in self.edges:
            return RAISE, 'spec'
        p = dict(self.edges[k])
        c = p.pop('Class')
        return ('ok', [c, p]), 'spec'

    def op_update_node_property(self, g, nid, name, val):
        if name == 'Class':
            return RAISE, 'spec'          # the class can never be changed through the API
        if (g, nid) not in self.nodes:
            return RAISE, 'spec'
        if name in ('GraphID', 'NodeID'):
            return None, 'unspec'
        self.nodes[(g, nid)][name] = val
        return ('ok', None), 'spec'

    def op_unset_node_property(self, g, nid, name):
        if name in IDENTITY:
            return RAISE, 'spec'          # identity properties can never be removed
        if (g, nid) not in self.nodes:
            return RAISE, 'spec'
        if name not in self.nodes[(g, nid)]:
            return None, 'unspec'
        del self.nodes[(g, nid)][name]
        return ('ok', None), 'spec'

    def op_update_nodes_property(self, g, name, val):
        if name == 'Class':
            return RAISE, 'spec'
        if name in ('GraphID', 'NodeID'):
            return None, 'unspec'
        ns = self.g_nodes(g)
        if not ns:
            return None, 'unspec'
        for k in ns:
            self.nodes[k][name] = val
        return ('ok', None), 'spec'

    def op_update_node_properties(self, g, nid, props):
        if 'Class' in props:
            return RAISE, 'spec'
        if (g, nid) not in self.nodes:
            return RAISE, 'spec'
        if 'GraphID' in props or 'NodeID' in props:
            return None, 'unspec'
        self.nodes[(g, nid)].update(props)
        return ('ok', None), 'spec'

    def _link(self, g, a, b, kind):
        if (g, a) not in self.nodes or (g, b) not in self.nodes:
            return None
        k = self.ek((g, a), (g, b))
        if k not in self.edges or self.edges[k].get('Class') != kind:
            return None
        return k

    def op_update_link_property(self, g, a, b, kind, name, val):
        if name == 'Class':
            return RAISE, 'spec'
        k = self._link(g, a, b, kind)
        if k is None:
            return RAISE, 'spec'
        self.edges[k][name] = val
        return ('ok', None), 'spec'

    def op_unset_link_property(self, g, a, b, kind, name):
        if name == 'Class':
            return RAISE, 'spec'
        k = self._link(g, a, b, kind)
        if k is None:
            return RAISE, 'spec'
        if name not in self.edges[k]:
            return None, 'unspec'
        del self.edges[k][name]
        return ('ok', None), 'spec'

    def op_update_link_properties(self, g, a, b, kind, props):
        if 'Class' in props:
            return RAISE, 'spec'
        k = self._link(g, a, b, kind)
        if k is None:
            return RAISE, 'spec'
        self.edges[k].update(props)
        return ('ok', None), 'spec'

    def op_list_all_node_ids(self, g):
        ns = self.g_nodes(g)
        if not ns:
            return None, 'unspec'       # empty / unknown graph: interface silent (backends raise)
        return ('ok', sorted(k[1] for k in ns)), 'spec'

    def op_get_all_nodes_by_class(self, g, label):
        return ('ok', sorted(k[1] for k in self.g_nodes(g) if self.nodes[k].get('Class') == label)), 'spec'

    def op_get_all_nodes_by_class_and_type(self, g, label, ntype):
        return ('ok', sorted(k[1] for k in self.g_nodes(g)
                             if self.nodes[k].get('Class') == label and self.nodes[k].get('Type') == ntype)), 'spec'

    def op_node_exists(self, g, nid, label):
        return ('ok', (g, nid) in self.nodes and self.nodes[(g, nid)].get('Class') == label), 'spec'

    def op_check_node_unique(self, g, label, name):
        return ('ok', not any(self.nodes[k].get('Class') == label and self.nodes[k].get('Name') == name
                              for k in self.g_nodes(g))), 'spec'

    def op_graph_exists(self, g):
        return ('ok', bool(self.g_nodes(g))), 'spec'

    def op_find_matching_nodes(self, g, other):
        if not self.g_nodes(g) or not self.g_nodes(other):
            return None, 'unspec'
        return ('ok', sorted({k[1] for k in self.g_nodes(g)} & {k[1] for k in self.g_nodes(other)})), 'spec'

    def op_delete_graph(self, g):
        for k in self.g_nodes(g):
            del self.nodes[k]
        for k in [k for k in self.edges if any(x[0] == g for x in k)]:
            del self.edges[k]
        return ('ok', None), 'spec'

    def op_merge_nodes(self, g, nid, other, policy):
        u, v = (g, nid), (other, nid)
        if g == other:
            return None, 'unspec'
        if not self.g_nodes(other):
            return RAISE, 'spec'
        if u not in self.nodes or v not in self.nodes:
            return RAISE, 'spec'
        if self.ek(u, v) in self.edges:
            return None, 'unspec'          # an edge between the two merged nodes themselves: undocumented
        pu, pv = self.nodes[u], self.nodes[v]
        new = dict(pu)
        if policy:
            for k, how in policy.items():
                if k not in pu:
                    continue
                if how == 'overwrite':
                    if k not in pv:
                        return RAISE, 'spec'       # nothing to take over: refused, and a refused call changes nothing
                    new[k] = pv[k]
                elif how == 'combine':
                    if k not in pv:
                        return RAISE, 'spec'
                    new[k] = [pu[k], pv[k]]
                elif how != 'discard':
                    return None, 'unspec'
        # edges of v move to u; an edge both had keeps u's properties (which of the two
        # wins is not documented: the comparison accepts either, see c05)
        amb = {}
        for k in [k for k in self.edges if v in k]:
            w = [x for x in k if x != v]
            w = w[0] if w else u          # a link of the merged-in node to itself becomes a link of the merged node to itself
            p = self.edges.pop(k)
            nk = self.ek(u, w)
            if nk in self.edges:
                amb[nk] = p
            else:
                self.edges[nk] = p
        del self.nodes[v]
        self.nodes[u] = new
        self.ambiguous_edges = amb
        return ('ok', None), 'spec'


# ------------------------------------------------------------------ real backends
def store_global_snapshot(importer):
    """Whole store in the model's own shape (cross-graph edges included)."""
    import networkx as nx
    from .canon import raw_storage
    st = raw_storage(importer)
    nodes, edges, problems = {}, {}, []

    def nk(d, fallback):
        return json.dumps([d.get('GraphID', fallback), d.get('NodeID')])

    def take(graph, fallback):
        for n, d in graph.nodes(data=True):
            k = nk(d, fallback)
            if k in nodes:
                problems.append(f'two stored nodes with identity {k}')
                k = k + f'<dup:{n}>'
            nodes[k] = dict(d)
        for a, b, d in graph.edges(data=True):
            ks = sorted([nk(graph.nodes[a], fallback), nk(graph.nodes[b], fallback)])
            edges['|'.join(ks)] = dict(d)
    if isinstance(st.graphs, nx.Graph):
        take(st.graphs, None)
    else:
        for gid, g in list(st.graphs.items()):
            take(g, gid)
    return {'nodes': nodes, 'edges': edges}, problems


def norm(v):
    if isinstance(v, (set, frozenset)):
        return sorted(v)
    if isinstance(v, tuple):
        return [norm(x) for x in v]
    return v


SORTED_RESULT = {'list_all_node_ids', 'get_all_nodes_by_class', 'get_all_nodes_by_class_and_type',
                 'find_matching_nodes'}


# Callers reuse argument dictionaries (`policy = {...}; for n in common: g.merge_nodes(..., merge_properties=policy)`), so
# within one history equal dict arguments are passed as ONE object per store; a call that edits its argument therefore
# shows, as it would for such a caller, in what later calls do.  ARG_EDITS only counts (editing an argument is not in itself
# against any statement).
_INTERN = {}
ARG_EDITS = [0]


def reset_args():
    _INTERN.clear()


def _arg(graphs, d):
    import json as _json
    key = (id(graphs), _json.dumps(d, sort_keys=True, default=repr))
    if key not in _INTERN:
        _INTERN[key] = dict(d)
    elif _INTERN[key] != d:
        ARG_EDITS[0] += 1
    return _INTERN[key]


def execute(graphs, op):
    """graphs: {gid: property graph object}.  Returns ('ok', value) | ('exc', class name, message)."""
    try:
        o = json.loads(json.dumps(op))          # fresh string objects per call (see topogen.execute)
    except (TypeError, ValueError):
        o = dict(op)
    name = o.pop('op')
    g = graphs[o.pop('g')]
    handed = []

    def dict_(d):
        # a dictionary argument as the caller holds it: it must come back from the call as it went in
        c = dict(d)
        handed.append((c, copy.deepcopy(c)))
        return c
    try:
        return _execute(graphs, g, name, o, dict_)
    finally:
        for c, was in handed:
            if c != was:
                ARG_CHANGED.append({'op': name, 'argument_before': was, 'argument_after': {k: repr(v)[:80] for k, v in c.items()}})


ARG_CHANGED = []


def _execute(graphs, g, name, o, dict):
    try:
        if name == 'add_node':
            r = g.add_node(node_id=o['nid'], label=o['label'], props=dict(o['props']) if o['props'] else None)
        elif name == 'delete_node':
            r = g.delete_node(node_id=o['nid'])
        elif name == 'add_link':
            r = g.add_link(node_a=o['a'], rel=o['rel'], node_b=o['b'], props=dict(o['props']) if o['props'] else None)
        elif name == 'get_node_properties':
            r = g.get_node_properties(node_id=o['nid'])
        elif name == 'get_link_properties':
            r = g.get_link_properties(node_a=o['a'], node_b=o['b'])
        elif name == 'update_node_property':
            r = g.update_node_property(node_id=o['nid'], prop_name=o['name'], prop_val=o['val'])
        elif name == 'unset_node_property':
            r = g.unset_node_property(node_id=o['nid'], prop_name=o['name'])
        elif name == 'update_nodes_property':
            r = g.update_nodes_property(prop_name=o['name'], prop_val=o['val'])
        elif name == 'update_node_properties':
            r = g.update_node_properties(node_id=o['nid'], props=dict(o['props']))
        elif name == 'update_link_property':
            r = g.update_link_property(node_a=o['a'], node_b=o['b'], kind=o['kind'], prop_name=o['name'], prop_val=o['val'])
        elif name == 'unset_link_property':
            r = g.unset_link_property(node_a=o['a'], node_b=o['b'], kind=o['kind'], prop_name=o['name'])
        elif name == 'update_link_properties':
            r = g.update_link_properties(node_a=o['a'], node_b=o['b'], kind=o['kind'], props=dict(o['props']))
        elif name == 'list_all_node_ids':
            r = g.list_all_node_ids()
        elif name == 'get_all_nodes_by_class':
            r = g.get_all_nodes_by_class(label=o['label'])
        elif name == 'get_all_nodes_by_class_and_type':
            r = g.get_all_nodes_by_class_and_type(label=o['label'], ntype=o['ntype'])
        elif name == 'node_exists':
            r = g.node_exists(node_id=o['nid'], label=o['label'])
        elif name == 'check_node_unique':
            r = g.check_node_unique(label=o['label'], name=o['name'])
        elif name == 'graph_exists':
            r = g.graph_exists()
        elif name == 'find_matching_nodes':
            r = g.find_matching_nodes(other_graph=graphs[o['other']])
        elif name == 'delete_graph':
            r = g.delete_graph()
        elif name == 'merge_nodes':
            r = g.merge_nodes(node_id=o['nid'], other_graph=graphs[o['other']],
                              merge_properties=_arg(graphs, o['policy']) if o['policy'] else None)
        else:
            raise AssertionError(name)
    except Exception as e:
        return ('exc', type(e).__name__, str(e)[:200])
    r = norm(r)
    if name in SORTED_RESULT and isinstance(r, list):
        r = sorted(r)
    return ('ok', r)


# ------------------------------------------------------------------ alphabet
GIDS = ['A', 'B']
NIDS = ['x', 'y', 'z']
LABELS = ['NetworkNode', 'Component']
RELS = ['has', 'connects']
PNAMES = ['p', 'Name', 'Type']
VALS = ['v1', 'v2']


def alphabet(small=True):
    """All concrete operations over the small alphabet (used for exhaustive enumeration)."""
    ops = []
    for g in GIDS:
        o = GIDS[1 - GIDS.index(g)]
        for n in NIDS:
            for l in LABELS:
                ops.append({'op': 'add_node', 'g': g, 'nid': n, 'label': l, 'props': None})
                ops.append({'op': 'node_exists', 'g': g, 'nid': n, 'label': l})
            ops.append({'op': 'add_node', 'g': g, 'nid': n, 'label': LABELS[0], 'props': {'Name': 'v1', 'Type': 'v1', 'p': 'v1'}})
            ops.append({'op': 'delete_node', 'g': g, 'nid': n})
            ops.append({'op': 'get_node_properties', 'g': g, 'nid': n})
            for pn in PNAMES + ['Class']:
                ops.append({'op': 'update_node_property', 'g': g, 'nid': n, 'name': pn, 'val': 'v2'})
            for pn in PNAMES + ['Class', 'NodeID', 'GraphID']:
                ops.append({'op': 'unset_node_property', 'g': g, 'nid': n, 'name': pn})
            ops.append({'op': 'update_node_properties', 'g': g, 'nid': n, 'props': {'p': 'v2', 'Name': 'v2'}})
            ops.append({'op': 'update_node_properties', 'g': g, 'nid': n, 'props': {'p': 'v2', 'Class': 'Component'}})
            ops.append({'op': 'merge_nodes', 'g': g, 'nid': n, 'other': o, 'policy': None})
            ops.append({'op': 'merge_nodes', 'g': g, 'nid': n, 'other': o,
                        'policy': {'p': 'overwrite', 'Name': 'combine', 'Type': 'discard'}})
        for i, a in enumerate(NIDS):
            for b in NIDS[i + 1:]:
                for r in RELS:
                    ops.append({'op': 'add_link', 'g': g, 'a': a, 'rel': r, 'b': b, 'props': None})
                    ops.append({'op': 'update_link_property', 'g': g, 'a': a, 'b': b, 'kind': r, 'name': 'p', 'val': 'v2'})
                ops.append({'op': 'add_link', 'g': g, 'a': b, 'rel': RELS[0], 'b': a, 'props': {'p': 'v1', 'q': 'v1'}})
                ops.append({'op': 'get_link_properties', 'g': g, 'a': a, 'b': b})
                ops.append({'op': 'get_link_properties', 'g': g, 'a': b, 'b': a})
                ops.append({'op': 'unset_link_property', 'g': g, 'a': a, 'b': b, 'kind': RELS[0], 'name': 'p'})
                ops.append({'op': 'unset_link_property', 'g': g, 'a': a, 'b': b, 'kind': RELS[0], 'name': 'Class'})
                ops.append({'op': 'update_link_property', 'g': g, 'a': a, 'b': b, 'kind': RELS[0], 'name': 'Class', 'val': 'connects'})
                ops.append({'op': 'update_link_properties', 'g': g, 'a': a, 'b': b, 'kind': RELS[0], 'props': {'p': 'v2', 'r': 'v2'}})
                ops.append({'op': 'update_link_properties', 'g': g, 'a': a, 'b': b, 'kind': RELS[0], 'props': {'Class': 'connects'}})
        for pn in PNAMES + ['Class']:
            ops.append({'op': 'update_nodes_property', 'g': g, 'name': pn, 'val': 'v2'})
        ops.append({'op': 'list_all_node_ids', 'g': g})
        for l in LABELS:
            ops.append({'op': 'get_all_nodes_by_class', 'g': g, 'label': l})
            for t in VALS:
                ops.append({'op': 'get_all_nodes_by_class_and_type', 'g': g, 'label': l, 'ntype': t})
                ops.append({'op': 'check_node_unique', 'g': g, 'label': l, 'name': t})
        ops.append({'op': 'graph_exists', 'g': g})
        ops.append({'op': 'find_matching_nodes', 'g': g, 'other': o})
        ops.append({'op': 'delete_graph', 'g': g})
    return ops


def random_op(rng, gids=GIDS, nids=NIDS):
    g = rng.choice(gids)
    o = rng.choice([x for x in gids if x != g])
    n, a, b = rng.choice(nids), rng.choice(nids), rng.choice(nids)
    pn = rng.choice(PNAMES + PNAMES + ['Class', 'q'])
    val = rng.choice(VALS + [7, '', 'x y', "it's"])
    k = rng.randrange(100)
    if k < 16:
        props = None if rng.random() < 0.4 else {rng.choice(PNAMES): rng.choice(VALS) for _ in range(rng.randrange(1, 4))}
        return {'op': 'add_node', 'g': g, 'nid': n, 'label': rng.choice(LABELS), 'props': props}
    if k < 22:
        return {'op': 'delete_node', 'g': g, 'nid': n}
    if k < 34:
        props = None if rng.random() < 0.5 else {rng.choice(['p', 'q', 'Name']): rng.choice(VALS)}
        return {'op': 'add_link', 'g': g, 'a': a, 'rel': rng.choice(RELS), 'b': b, 'props': props}
    if k < 38:
        return {'op': 'get_node_properties', 'g': g, 'nid': n}
    if k < 42:
        return {'op': 'get_link_properties', 'g': g, 'a': a, 'b': b}
    if k < 48:
        return {'op': 'update_node_property', 'g': g, 'nid': n, 'name': pn, 'val': val}
    if k < 53:
        return {'op': 'unset_node_property', 'g': g, 'nid': n, 'name': rng.choice(PNAMES + ['Class', 'NodeID', 'GraphID', 'q'])}
    if k < 56:
        return {'op': 'update_nodes_property', 'g': g, 'name': pn, 'val': val}
    if k < 60:
        props = {rng.choice(PNAMES + ['q']): rng.choice(VALS) for _ in range(rng.randrange(1, 3))}
        if rng.random() < 0.15:
            props['Class'] = rng.choice(LABELS)
        return {'op': 'update_node_properties', 'g': g, 'nid': n, 'props': props}
    if k < 65:
        return {'op': 'update_link_property', 'g': g, 'a': a, 'b': b, 'kind': rng.choice(RELS), 'name': pn, 'val': val}
    if k < 69:
        return {'op': 'unset_link_property', 'g': g, 'a': a, 'b': b, 'kind': rng.choice(RELS), 'name': rng.choice(['p', 'q', 'Class'])}
    if k < 73:
        props = {rng.choice(['p', 'q', 'r']): rng.choice(VALS) for _ in range(rng.randrange(1, 3))}
        if rng.random() < 0.15:
            props['Class'] = rng.choice(RELS)
        return {'op': 'update_link_properties', 'g': g, 'a': a, 'b': b, 'kind': rng.choice(RELS), 'props': props}
    if k < 76:
        return {'op': 'list_all_node_ids', 'g': g}
    if k < 79:
        return {'op': 'get_all_nodes_by_class', 'g': g, 'label': rng.choice(LABELS)}
    if k < 82:
        return {'op': 'get_all_nodes_by_class_and_type', 'g': g, 'label': rng.choice(LABELS), 'ntype': rng.choice(VALS)}
    if k < 85:
        return {'op': 'node_exists', 'g': g, 'nid': n, 'label': rng.choice(LABELS)}
    if k < 88:
        return {'op': 'check_node_unique', 'g': g, 'label': rng.choice(LABELS), 'name': rng.choice(VALS)}
    if k < 90:
        return {'op': 'graph_exists', 'g': g}
    if k < 93:
        return {'op': 'find_matching_nodes', 'g': g, 'other': o}
    if k < 94:
        return {'op': 'delete_graph', 'g': g}
    pol = None
    if rng.random() < 0.6:
        pol = {p: rng.choice(['discard', 'overwrite', 'combine']) for p in rng.sample(['p', 'q', 'Name', 'Type'], rng.randrange(1, 4))}
    return {'op': 'merge_nodes', 'g': g, 'nid': n, 'other': o, 'policy': pol}
