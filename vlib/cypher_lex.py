"""Own Cypher tokenizer + structural well-formedness checks for C19.

Not a Cypher parser (none is available offline).  It decides, on the statement
text alone (and the parameter names supplied with it):

 (a) tokenizes completely            -> problems of kind 'untokenizable'
 (b) () [] {} balanced and nested    -> 'unbalanced'
 (c) no un-expanded template residue -> 'template-residue'   ({{ , `{ident}` that is neither map nor projection)
 (d) every $name is supplied         -> 'missing-parameter'
 (e) every referenced variable bound -> 'unbound-variable'

and offers compare_streams() for the differential data-independence clause (f).

Token = (kind, text, pos, value)
  kind in {'str','ident','qident','kw','param','num','punct'}
  value: decoded string for 'str' (Cypher escape rules), name for 'param'/'qident', else None
"""
import re

KEYWORDS = {
    'MATCH', 'OPTIONAL', 'WHERE', 'RETURN', 'WITH', 'UNWIND', 'AS', 'CREATE', 'MERGE', 'DELETE', 'DETACH', 'SET',
    'REMOVE', 'CALL', 'YIELD', 'UNION', 'ALL', 'DISTINCT', 'ORDER', 'BY', 'SKIP', 'LIMIT', 'AND', 'OR', 'XOR', 'NOT',
    'IN', 'IS', 'NULL', 'TRUE', 'FALSE', 'STARTS', 'ENDS', 'CONTAINS', 'CASE', 'WHEN', 'THEN', 'ELSE', 'END', 'ON',
    'FOREACH', 'INDEX', 'CONSTRAINT', 'IF', 'EXISTS', 'FOR', 'ASC', 'DESC', 'ASCENDING', 'DESCENDING', 'ASSERT',
    'UNIQUE', 'DROP', 'USING', 'REQUIRE',
}
# keywords that start a clause (end a pattern / WITH / YIELD / RETURN item list)
CLAUSE = {'MATCH', 'OPTIONAL', 'WHERE', 'RETURN', 'WITH', 'UNWIND', 'CREATE', 'MERGE', 'DELETE', 'DETACH', 'SET',
          'REMOVE', 'CALL', 'YIELD', 'UNION', 'ORDER', 'SKIP', 'LIMIT', 'FOREACH', 'ON', 'FOR', 'USING'}
PATTERN_START = {'MATCH', 'MERGE', 'CREATE', 'FOR'}

_ESC = {'\\': '\\', "'": "'", '"': '"', 'b': '\b', 'f': '\f', 'n': '\n', 'r': '\r', 't': '\t'}
_ID_START = re.compile(r'[^\W\d]', re.UNICODE)
_ID_CHAR = re.compile(r'\w', re.UNICODE)
_NUM = re.compile(r'0[xX][0-9a-fA-F]+|\d+(?:\.\d+)?(?:[eE][+-]?\d+)?|\.\d+(?:[eE][+-]?\d+)?')
_PUNCT2 = ('<>', '<=', '>=', '=~', '+=', '..', '->', '<-', '!=')
_PUNCT1 = set('(){}[],.;:|=+-*/%^<>!&')


class LexError(Exception):
    def __init__(self, msg, pos):
        super().__init__(f'{msg} at {pos}')
        self.msg, self.pos = msg, pos


def tokenize(text, comments=None):
    """-> list of tokens; raises LexError on unterminated literal/comment/back-tick or illegal character.
    comments: optional list that receives the text of every comment met (comments are not tokens)."""
    toks = []
    i, n = 0, len(text)
    while i < n:
        c = text[i]
        if c.isspace():
            i += 1
            continue
        if c == '/' and text.startswith('//', i):
            j = text.find('\n', i)
            if comments is not None:
                comments.append(text[i:n if j < 0 else j])
            i = n if j < 0 else j + 1
            continue
        if c == '/' and text.startswith('/*', i):
            j = text.find('*/', i + 2)
            if j < 0:
                raise LexError('unterminated comment', i)
            if comments is not None:
                comments.append(text[i:j + 2])
            i = j + 2
            continue
        if c in '\'"':
            j = i + 1
            out = []
            while True:
                if j >= n:
                    raise LexError(f'unterminated {c}-quoted literal', i)
                d = text[j]
                if d == '\\':
                    if j + 1 >= n:
                        raise LexError(f'unterminated {c}-quoted literal (dangling backslash)', i)
                    e = text[j + 1]
                    if e in _ESC:
                        out.append(_ESC[e])
                        j += 2
                    elif e == 'u' and re.fullmatch(r'[0-9a-fA-F]{4}', text[j + 2:j + 6] or ''):
                        out.append(chr(int(text[j + 2:j + 6], 16)))
                        j += 6
                    elif e == 'U' and re.fullmatch(r'[0-9a-fA-F]{8}', text[j + 2:j + 10] or ''):
                        cp = int(text[j + 2:j + 10], 16)
                        out.append(chr(cp) if cp < 0x110000 else '�')
                        j += 10
                    else:
                        # unknown escape: dialects differ (error vs kept verbatim); be lenient = keep verbatim
                        out.append('\\' + e)
                        j += 2
                    continue
                if d == c:
                    break
                out.append(d)
                j += 1
            toks.append(('str', text[i:j + 1], i, ''.join(out)))
            i = j + 1
            continue
        if c == '`':
            j = i + 1
            out = []
            while True:
                if j >= n:
                    raise LexError('unterminated back-ticked name', i)
                if text[j] == '`':
                    if j + 1 < n and text[j + 1] == '`':
                        out.append('`')
                        j += 2
                        continue
                    break
                out.append(text[j])
                j += 1
            toks.append(('qident', text[i:j + 1], i, ''.join(out)))
            i = j + 1
            continue
        if c == '$':
            j = i + 1
            if j < n and text[j] == '`':
                k = text.find('`', j + 1)
                if k < 0:
                    raise LexError('unterminated back-ticked parameter', i)
                toks.append(('param', text[i:k + 1], i, text[j + 1:k]))
                i = k + 1
                continue
            while j < n and _ID_CHAR.match(text[j]):
                j += 1
            if j == i + 1:
                raise LexError('"$" not followed by a parameter name', i)
            toks.append(('param', text[i:j], i, text[i + 1:j]))
            i = j
            continue
        if c.isdigit() or (c == '.' and i + 1 < n and text[i + 1].isdigit() and not (toks and toks[-1][1] == '.')
                           and not (toks and toks[-1][0] in ('ident', 'qident', 'num') and toks[-1][2] + len(toks[-1][1]) == i)):
            m = _NUM.match(text, i)
            s = m.group(0)
            # "1..4": do not swallow the first dot of a range
            if '.' in s and text.startswith('..', i + s.index('.')):
                s = s[:s.index('.')]
            toks.append(('num', s, i, None))
            i += len(s)
            continue
        if _ID_START.match(c):
            j = i + 1
            while j < n and _ID_CHAR.match(text[j]):
                j += 1
            w = text[i:j]
            toks.append(('kw' if w.upper() in KEYWORDS else 'ident', w, i, None))
            i = j
            continue
        two = text[i:i + 2]
        if two in _PUNCT2:
            toks.append(('punct', two, i, None))
            i += 2
            continue
        if c in _PUNCT1:
            toks.append(('punct', c, i, None))
            i += 1
            continue
        raise LexError(f'illegal character {c!r} outside a literal', i)
    return toks


def encode_literal(value, quote="'"):
    """Reference escaping of a Python string as a Cypher literal (used by self tests / repair proposals)."""
    out = value.replace('\\', '\\\\').replace(quote, '\\' + quote)
    return quote + out + quote


# ----------------------------------------------------------------------
_OPEN = {'(': ')', '[': ']', '{': '}'}
_CLOSE = {')': '(', ']': '[', '}': '{'}


def check_balance(toks):
    """-> list of problems (kind 'unbalanced')."""
    st = []
    for k, t, p, _ in toks:
        if k != 'punct':
            continue
        if t in _OPEN:
            st.append((t, p))
        elif t in _CLOSE:
            if not st:
                return [('unbalanced', f'closing {t!r} at {p} has no opener', p)]
            o, op = st.pop()
            if o != _CLOSE[t]:
                return [('unbalanced', f'{o!r} opened at {op} is closed by {t!r} at {p}', p)]
    if st:
        o, op = st[-1]
        return [('unbalanced', f'{o!r} opened at {op} is never closed', op)]
    return []


def check_residue(toks):
    """Un-expanded str.format / f-string residue: '{{' (never valid Cypher), and '{identifier}' that is neither a map
    ('{key: value}') nor a map projection ('var{x}' / 'var{.x}')."""
    out = []
    for i, (k, t, p, _) in enumerate(toks):
        if k == 'punct' and t == '{':
            nx = toks[i + 1] if i + 1 < len(toks) else None
            if nx and nx[0] == 'punct' and nx[1] == '{' and nx[2] == p + 1:
                out.append(('template-residue', f'"{{{{" at {p}', p))
                continue
            if nx and nx[0] in ('ident', 'kw') and i + 2 < len(toks) and toks[i + 2][1] == '}' and \
                    toks[i + 2][0] == 'punct':
                pv = toks[i - 1] if i else None
                is_projection = pv is not None and (pv[0] in ('ident', 'qident') or pv[1] == ')')
                if not is_projection:
                    out.append(('template-residue', f'"{{{nx[1]}}}" at {p} is neither a map nor a projection', p))
    return out


def check_separators(toks):
    """A list/map/argument separator with nothing on one side: ', }', '{ ,', ', ,', ', )' ... (what an empty container
    spliced into a template leaves behind) and a map entry without a value ('key: }' / 'key: ,')."""
    out = []
    for i, (k, t, p, _) in enumerate(toks):
        if k != 'punct':
            continue
        nx = toks[i + 1] if i + 1 < len(toks) else None
        if t == ',' and (nx is None or (nx[0] == 'punct' and nx[1] in (',', '}', ']', ')'))):
            out.append(('dangling-separator', f'"," at {p} is followed by {nx[1] if nx else "the end"!r}', p))
        elif t in ('{', '[', '(') and nx is not None and nx[0] == 'punct' and nx[1] == ',':
            out.append(('dangling-separator', f'{t!r} at {p} is followed by ","', p))
        elif t == ':' and nx is not None and nx[0] == 'punct' and nx[1] in (',', '}'):
            pv = toks[i - 1] if i else None
            if pv is not None and pv[0] in ('ident', 'kw', 'qident'):
                out.append(('dangling-separator', f'map entry {pv[1]!r} at {pv[2]} has no value', p))
    return out


def check_params(toks, params):
    out = []
    have = set(params or ())
    for k, t, p, v in toks:
        if k == 'param' and v not in have:
            out.append(('missing-parameter', f'${v} is not among the supplied parameters {sorted(have)}', p))
    return out


def check_bound(toks, skip=()):
    """Every variable referenced is bound earlier: by a MATCH/MERGE/CREATE/FOR pattern, AS, YIELD, a
    comprehension/quantifier/FOREACH `x IN`, or carried through WITH.  WITH narrows the scope to its items,
    UNION starts a new scope."""
    out = []
    n = len(toks)
    bound = set()
    brackets = []        # (char, locally-bound names, saved pattern mode)
    mode = None          # 'pattern' | 'yield' | None
    with_state = None    # dict(depth, new, star) while inside WITH items
    in_types = False     # inside a :Label:Label / :TYPE|TYPE run

    def tk(j):
        return toks[j] if 0 <= j < n else (None, None, None, None)

    def is_kw(j, *names):
        k, t, _, _ = tk(j)
        return k == 'kw' and t.upper() in names

    def end_with():
        nonlocal bound, with_state
        if with_state is not None:
            bound = (set(bound) if with_state['star'] else set()) | with_state['new']
            with_state = None

    i = 0
    while i < n:
        k, t, p, v = toks[i]
        pk, pt, _, _ = tk(i - 1)
        nk, nt, _, _ = tk(i + 1)
        depth = len(brackets)
        if k == 'punct':
            if t in _OPEN:
                brackets.append([t, [], mode])
                in_types = False
            elif t in _CLOSE:
                if brackets:
                    _, local, _ = brackets.pop()
                    for name in local:
                        bound.discard(name)
                in_types = False
            elif t == ':':
                inner = brackets[-1][0] if brackets else None
                if inner in ('(', '[') or (inner is None and pk in ('ident', 'qident')):
                    in_types = True
            elif t == '|':
                # keeps a type alternation going ([:a|b]); otherwise it is the comprehension bar
                if not (in_types and brackets and brackets[-1][0] == '['):
                    in_types = False
            elif t in ('&', '!'):
                pass
            else:
                if t == '*' and with_state is not None and is_kw(i - 1, 'WITH'):
                    with_state['star'] = True
                in_types = False
            i += 1
            continue
        if k == 'kw':
            u = t.upper()
            in_types = False
            if u in CLAUSE and not (u == 'WITH' and is_kw(i - 1, 'STARTS', 'ENDS')) and \
                    not (u == 'ON' and depth > 0):
                if with_state is not None and depth == with_state['depth']:
                    end_with()
                if u == 'UNION':
                    bound = set()
                    mode = None
                elif u == 'WITH':
                    with_state = {'depth': depth, 'new': set(), 'star': False}
                    mode = None
                elif u == 'YIELD':
                    mode = 'yield'
                elif u in PATTERN_START and not (u == 'CREATE' and is_kw(i + 1, 'INDEX', 'CONSTRAINT', 'UNIQUE')):
                    mode = 'pattern'
                else:
                    mode = None
            i += 1
            continue
        if k == 'num' or k == 'str' or k == 'param':
            in_types = False
            i += 1
            continue
        # ---- identifier (plain or back-ticked) ----
        if p in skip:        # the identifier inside a "{identifier}" template residue is not a Cypher variable
            i += 1
            continue
        name = v if k == 'qident' else t
        inner = brackets[-1][0] if brackets else None
        was_types = in_types
        # 1. property name / namespace member
        if pt == '.' and pk == 'punct':
            i += 1
            continue
        # 2. label / relationship type
        if pk == 'punct' and pt in (':', '|', '&', '!') and was_types:
            i += 1
            continue
        in_types = False
        # 3. function / procedure name (possibly namespaced): ident ( . ident )* '('
        j = i + 1
        while tk(j)[1] == '.' and tk(j + 1)[0] in ('ident', 'qident', 'kw'):
            j += 2
        if tk(j)[1] == '(' and tk(j)[0] == 'punct':
            i += 1
            continue
        # 4. map key
        if inner == '{' and nk == 'punct' and nt == ':' and pk == 'punct' and pt in ('{', ','):
            i += 1
            continue
        # 5. index / constraint name
        if is_kw(i - 1, 'INDEX', 'CONSTRAINT'):
            i += 1
            continue
        # ---- binding sites ----
        if is_kw(i - 1, 'AS'):
            bound.add(name)
            if with_state is not None and depth == with_state['depth']:
                with_state['new'].add(name)
            i += 1
            continue
        if mode == 'yield' and depth == 0:
            if not is_kw(i + 1, 'AS'):      # "YIELD field AS alias": only the alias becomes visible
                bound.add(name)
            i += 1
            continue
        if is_kw(i + 1, 'IN') and pk == 'punct' and pt in ('(', '['):
            if name not in bound:
                bound.add(name)
                brackets[-1][1].append(name)
            i += 1
            continue
        opened_in_pattern = brackets and brackets[-1][2] == 'pattern'
        if (mode == 'pattern' or opened_in_pattern) and pk == 'punct' and pt in ('(', '[') and \
                ((nk == 'punct' and nt in (':', ')', ']', '{', '*')) or nk is None):
            bound.add(name)
            i += 1
            continue
        if mode == 'pattern' and nk == 'punct' and nt == '=' and (is_kw(i - 1, *PATTERN_START) or pt == ','):
            bound.add(name)
            i += 1
            continue
        # ---- a reference ----
        kind = 'property access' if (nt == '.' and nk == 'punct') else \
            ('function argument' if pt == '(' or (is_kw(i - 1, 'DISTINCT') and tk(i - 2)[1] == '(') else 'bare reference')
        if name not in bound:
            out.append(('unbound-variable', f'variable {name!r} ({kind}) at {p} is not bound earlier '
                                            f'(bound: {sorted(bound)})', p))
        if with_state is not None and depth == with_state['depth'] and \
                (is_kw(i - 1, 'WITH', 'DISTINCT') or pt == ',') and \
                (nk is None or (nk == 'punct' and nt == ',') or (nk == 'kw' and nt.upper() in CLAUSE)):
            with_state['new'].add(name)
        i += 1
    end_with()
    return out


def check_statement(text, params=None):
    """-> (tokens or None, [problem, ...]); problem = (kind, message, position)."""
    if not isinstance(text, str):
        return None, [('untokenizable', f'statement is {type(text).__name__}, not str', 0)]
    try:
        toks = tokenize(text)
    except LexError as e:
        return None, [('untokenizable', e.msg, e.pos)]
    probs = []
    if not toks:
        probs.append(('untokenizable', 'empty statement', 0))
    bal = check_balance(toks)
    probs += bal
    res = check_residue(toks)
    probs += res
    probs += check_separators(toks)
    probs += check_params(toks, params)
    if not bal:
        skip = set()
        for _, _, rp in res:
            for j, tok in enumerate(toks):
                if tok[2] == rp and j + 1 < len(toks):
                    skip.add(toks[j + 1][2])
        probs += check_bound(toks, skip)
    return toks, probs


# ----------------------------------------------------------------------
def compare_streams(toks0, toks1, v0, v1):
    """Differential clause (f).  toks0/toks1: token streams of the same statement template executed with data value
    v0 resp. v1 in ONE data position.  -> None if data-independent, else (reason, detail)."""
    if len(toks0) != len(toks1):
        return ('shape', f'{len(toks0)} tokens with the benign value, {len(toks1)} with the other value')
    for a, b in zip(toks0, toks1):
        if a[0] != b[0]:
            return ('shape', f'token kind {a[0]} ({a[1]!r}) became {b[0]} ({b[1]!r}) at {b[2]}')
        if a[0] != 'str':
            if a[1] != b[1]:
                return ('shape', f'non-literal token {a[1]!r} became {b[1]!r} at {b[2]}')
            continue
        if a[1] == b[1]:
            continue
        if a[3] == v0 and b[3] == v1:
            continue
        if a[3] != v0:
            return ('literal', f'literal {a[1]!r} changes with the value but decodes to {a[3]!r}, not to the value '
                               f'passed {v0!r}')
        return ('literal', f'literal {b[1][:200]!r} decodes to {b[3][:200]!r}, not to the value passed {v1!r}')
    return None


# ----------------------------------------------------------------------
SELFTEST_GOOD = [
    ("MATCH (n:GraphNode {GraphID: $g}) RETURN collect(n.NodeID) as nodeids", {'g': 1}),
    ("match (a:GraphNode {GraphID: $g, NodeID: $a}) with a match (z:GraphNode {GraphID: $g, NodeID: $z}), "
     "p=shortestPath((a) -[:has*1..]- (z)) with nodes(p) as pathnodes unwind pathnodes as pathnode "
     "return collect(pathnode.NodeID) as nodeids", {'g': 1, 'a': 1, 'z': 1}),
    ("MATCH(n:GraphNode:X {GraphID: $g, Name: \"a'b\\\\\" }) WHERE size([(n) -[:has]- (:Component {GraphID: $g, "
     "Type: \"GPU\" }) | n.NodeID])>=2 RETURN collect(n.NodeID) as ids", {'g': 1}),
    ("CREATE INDEX graphid_nodeid IF NOT EXISTS FOR (n:GraphNode) ON (n.GraphID, n.NodeID)", {}),
    ("MATCH (n:GraphNode {GraphID: $g}) RETURN ALL(r IN collect(n) WHERE r.Class IS NOT NULL)", {'g': 1}),
    ("MATCH (a {GraphID: $g}) CALL apoc.algo.allSimplePaths(a, a, 'connects|has', $c) YIELD path AS path WITH path, "
     "relationships(path) AS rels WHERE size(rels) = size(apoc.coll.toSet(rels)) "
     "RETURN [node in nodes(path) | node.NodeID] AS nodeids // trailing 'comment", {'g': 1, 'c': 2}),
    ("MATCH (n {GraphID: $g}) WITH * MATCH (m) WHERE m.x = n.x RETURN n{.x, m}, {a: {b: 1}} AS mm", {'g': 1}),
    ("MATCH (n) SET n:GraphNode SET n += {`odd name`: 1} REMOVE n.p DETACH DELETE n", {}),
    ("MATCH (n) WHERE n.name STARTS WITH 'x' RETURN n", {}),
]
SELFTEST_BAD = [
    ("MATCH (n:GraphNode {GraphID: $g} RETURN n", {'g': 1}, 'unbalanced'),
    ("MATCH (n:GraphNode {{GraphID: $g}}) RETURN n", {'g': 1}, 'template-residue'),
    ("MATCH (a) -[r:{kind}]- (b) RETURN r", {}, 'template-residue'),
    ("MATCH (n {GraphID: $g, NodeID: $nodeId}) RETURN n", {'g': 1, 'nodeid': 2}, 'missing-parameter'),
    ("MATCH (a) -[r]- (b) SET r += {x: '1'} RETURN properties(s)", {}, 'unbound-variable'),
    ("MATCH (n) WITH collect(n.Site) as sites MATCH (m) RETURN [x in allSites where not x in sites] as d", {},
     'unbound-variable'),
    ("MATCH (n) WITH n.x AS x RETURN n.y", {}, 'unbound-variable'),
    ("MATCH (n) RETURN n UNION MATCH (m) RETURN n", {}, 'unbound-variable'),
    ("MATCH (n {Name: 'it's'}) RETURN n", {}, 'untokenizable'),
    ("MATCH (n {Name: 'abc\\'}) RETURN n", {}, 'untokenizable'),
    ("MATCH (n) RETURN [x IN n.l | x.a], x.b", {}, 'unbound-variable'),
    ("CALL apoc.x.y($a) YIELD path AS pth WITH path RETURN path", {'a': 1}, 'unbound-variable'),
]


def selftest():
    """-> list of failures (empty = the lexer behaves as documented on its own fixed examples)."""
    bad = []
    for text, params in SELFTEST_GOOD:
        _, probs = check_statement(text, params)
        if probs:
            bad.append(('false alarm', text, probs))
    for text, params, kind in SELFTEST_BAD:
        _, probs = check_statement(text, params)
        if kind not in [p[0] for p in probs]:
            bad.append(('missed ' + kind, text, probs))
    for v in ["a'b", 'a"b', 'a\\', '\\n', "') DETACH DELETE n //", 'é\n{x}$y']:
        for q in '\'"':
            lit = encode_literal(v, q)
            try:
                t = tokenize('RETURN ' + lit + ' AS x')
            except LexError as e:
                bad.append(('encode/tokenize', lit, str(e)))
                continue
            if len(t) != 4 or t[1][3] != v:
                bad.append(('encode/decode round trip', lit, t))
    import random
    rng = random.Random(19)
    frags = ["'", '"', '\\', '{', '}', '$x', '\n', '//', '/*', '`', 'é', 'abc', ' ', '\\n', "\\'", ';', ')']
    for _ in range(300):
        v = ''.join(rng.choice(frags) for _ in range(rng.randint(1, 6)))
        q = rng.choice('\'"')
        text = 'MATCH (n {Name: ' + encode_literal(v, q) + ', X: $p}) RETURN n.Name'
        toks, probs = check_statement(text, {'p': 1})
        if probs or toks is None or [t[3] for t in toks if t[0] == 'str'] != [v]:
            bad.append(('random literal round trip', text, probs))
            break
    t0 = tokenize("MATCH (n {Name: 'abc'}) RETURN n")
    if compare_streams(t0, tokenize("MATCH (n {Name: 'a\\'b'}) RETURN n"), 'abc', "a'b") is not None:
        bad.append(('compare: escaped literal rejected',))
    if compare_streams(t0, tokenize("MATCH (n {Name: 'a\\tb'}) RETURN n"), 'abc', 'a\\tb') is None:
        bad.append(('compare: backslash-t accepted as the value',))
    if compare_streams(t0, tokenize("MATCH (n {Name: 'a'}) DETACH DELETE n //'}) RETURN n"), 'abc',
                       "a'}) DETACH DELETE n //") is None:
        bad.append(('compare: injection accepted',))
    return bad
