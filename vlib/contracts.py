"""icontract-based monitors attached from the harness to the repository's own
classes (no source edit).  Conditions *record* into the active sink and return
True, so one workload reports every violation instead of dying on the first;
each monitor counts its evaluations (zero evaluations => inconclusive).
"""
import functools
import traceback

import icontract


class Sink:
    """Where monitor verdicts go.  `ctx` is a core.Ctx (or anything with
    count()/violation())."""
    ctx = None
    enabled = True
    depth = 0   # re-entrancy guard: conditions call the monitored functions themselves


class MonitorBroken(Exception):
    pass


def _run(name, fn, *a, **kw):
    """Evaluate a monitor body.  Returns True always (recording mode)."""
    if not Sink.enabled or Sink.depth > 0 or Sink.ctx is None:
        return True
    Sink.depth += 1
    try:
        Sink.ctx.count('mon:' + name)
        res = fn(*a, **kw)
        if res is None or res is True:
            return True
        if res == 'skip':
            Sink.ctx.count('mon-skip:' + name)
            return True
        key, clause, witness = res
        Sink.ctx.violation(key, clause, witness)
    except Exception:
        Sink.ctx.mark_inconclusive(f'monitor {name} raised: ' + traceback.format_exc()[-1200:])
    finally:
        Sink.depth -= 1
    return True


def _get_raw(cls, name):
    raw = cls.__dict__[name]
    kind = None
    if isinstance(raw, classmethod):
        kind, raw = classmethod, raw.__func__
    elif isinstance(raw, staticmethod):
        kind, raw = staticmethod, raw.__func__
    return kind, raw


def attach(cls, name, monitor, cond, snapshots=None):
    """Attach post-condition `cond` (named function whose parameters are a subset
    of the target's parameters plus `result` and `OLD`) to cls.name.
    `snapshots`: {name: capture_fn(args...)}.
    """
    kind, raw = _get_raw(cls, name)
    if getattr(raw, '_verif_monitors', None) and monitor in raw._verif_monitors:
        return
    wrapped = icontract.ensure(cond, error=MonitorBroken)(raw)
    for sname, cap in (snapshots or {}).items():
        wrapped = icontract.snapshot(cap, name=sname)(wrapped)
    mons = list(getattr(raw, '_verif_monitors', [])) + [monitor]
    try:
        wrapped._verif_monitors = mons
    except Exception:
        pass
    if kind is not None:
        wrapped = kind(wrapped)
    setattr(cls, name, wrapped)


def monitored(monitor):
    """Decorator turning `body(...) -> None|True|'skip'|(key, clause, witness)`
    into an icontract condition that records and returns True.  The wrapper
    keeps the body's signature (icontract inspects parameter names)."""
    def deco(body):
        import inspect
        sig = inspect.signature(body)
        params = list(sig.parameters)
        src = f"def _cond({', '.join(params)}):\n    return _run(_name, _body, {', '.join(params)})\n"
        ns = {'_run': _run, '_name': monitor, '_body': body}
        exec(src, ns)
        c = ns['_cond']
        c.__name__ = body.__name__
        return c
    return deco
