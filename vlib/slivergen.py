"""Sliver generators and the field-wise canonical form used by C02.

* `vocabulary(kind)`   - the settable property names of a sliver class, DISCOVERED from
                         `cls.list_properties()`; `generator_for(kind, p)` gives the typed value generator
                         (by name, falling back to the setter's annotation; None = no generator).
* `TreeGen`            - builds real sliver trees (node -> components -> services -> interfaces ->
                         sub-interfaces, stand-alone services/interfaces/links) through the public setters.
* `canon_sliver`       - canonical, JSON-able form of a sliver tree; `diff_canon` lists the differences.

Importing this module has no side effects (fim is imported lazily).
"""
import enum
import inspect
import ipaddress
import json

from . import codecgen as G

KINDS = ('node', 'component', 'service', 'interface', 'link')
IDENTITY = ('name', 'type')
# setters that attach containment (no getter, no graph property): covered by the shape comparison
STRUCTURAL = {'component': ('network_service_info',)}
# properties that are written/read only together (documented: "image ref and type have fate-sharing")
PAIRS = {'image_ref': 'image_type', 'image_type': 'image_ref'}

_BASE = ('boot_script', 'capacities', 'capacity_allocations', 'capacity_delegations', 'capacity_hints', 'details',
         'flags', 'label_allocations', 'label_delegations', 'labels', 'layout_data', 'mf_data', 'model', 'name',
         'node_map', 'reservation_info', 'stitch_node', 'structural_info', 'tags', 'type', 'user_data')
# the vocabulary this check was written against (compared with the discovered one at run time)
PINNED = {
    'node': tuple(sorted(_BASE + ('allocation_constraints', 'image_ref', 'image_type', 'location', 'maintenance_info',
                                  'management_ip', 'service_endpoint', 'site'))),
    'component': tuple(sorted(_BASE + ('network_service_info',))),
    'service': tuple(sorted(_BASE + ('allocation_constraints', 'controller_url', 'ero', 'gateway', 'layer',
                                     'mirror_direction', 'mirror_port', 'mirror_vlan', 'path_info', 'site',
                                     'technology'))),
    'interface': tuple(sorted(_BASE + ('peer_labels',))),
    'link': tuple(sorted(_BASE + ('layer', 'technology'))),
}


def sliver_classes():
    from fim.slivers.network_node import NodeSliver
    from fim.slivers.attached_components import ComponentSliver
    from fim.slivers.network_service import NetworkServiceSliver
    from fim.slivers.interface_info import InterfaceSliver
    from fim.slivers.network_link import NetworkLinkSliver
    return {'node': NodeSliver, 'component': ComponentSliver, 'service': NetworkServiceSliver,
            'interface': InterfaceSliver, 'link': NetworkLinkSliver}


def type_enums():
    from fim.slivers.network_node import NodeType
    from fim.slivers.attached_components import ComponentType
    from fim.slivers.network_service import ServiceType
    from fim.slivers.interface_info import InterfaceType
    from fim.slivers.network_link import LinkType
    return {'node': NodeType, 'component': ComponentType, 'service': ServiceType, 'interface': InterfaceType,
            'link': LinkType}


def kind_of(sliver):
    for k, c in sliver_classes().items():
        if isinstance(sliver, c):
            return k
    return None


def vocabulary(kind):
    return tuple(sliver_classes()[kind].list_properties())


def getters(cls):
    return sorted(k[4:] for k in dir(cls) if k.startswith('get_') and k != 'get_property' and
                  callable(getattr(cls, k)))


# ----------------------------------------------------------------------------------------------
# value generators
_SPECIAL = ['0', 'None', 'null', 'false', '{}', '[]', ' ', '0.0']


def fast_free_string(rng, maxlen=40):
    """Same distribution of shapes as codecgen.free_string (empty, JSON-looking, 1000/5000/70000 characters, short
    hostile), but a long string repeats a random chunk instead of drawing every character."""
    m = rng.random()
    if m < 0.08:
        return ''
    if m < 0.12:
        return rng.choice(_SPECIAL)
    if m < 0.16:
        n = rng.choice([1000, 5000, 70000])
        chunk = ''.join(rng.choice(G.FREE) for _ in range(rng.randrange(7, 60)))
        return (chunk * (n // len(chunk) + 1))[:n]
    return ''.join(rng.choice(G.FREE) for _ in range(rng.randrange(1, maxlen)))


def use_fast_strings():
    """Process-local: the codecgen generators draw their free text from fast_free_string (a check worker only)."""
    G.free_string = fast_free_string


def text(rng, maxlen=3000):
    return fast_free_string(rng, 40)[:maxlen]


def text_nocomma(rng):
    return text(rng, 300).replace(',', ';')


def ip_text(rng):
    return G.ipv4(rng) if rng.random() < 0.5 else G.ipv6(rng)


def gen_gateway(rng):
    for _ in range(50):
        g = G.gen_gateway(rng)
        if g.lab is not None:         # Gateway(None) is an empty shell, not a settable value (see ASSUMPTIONS)
            return g
    raise RuntimeError('no gateway generated')


def gen_node_map(rng):
    v = (rng.choice(['g1', 'graph-é', text(rng, 60)]), rng.choice(['n1', 'node:1', text(rng, 60)]))
    return list(v) if rng.random() < 0.3 else v


def gen_delegations(rng, tname):
    from fim.slivers.delegations import Delegations, Delegation, DelegationType, DelegationFormat
    from fim.slivers.capacities_labels import Capacities, Labels
    atype = DelegationType.CAPACITY if tname == 'capacity' else DelegationType.LABEL
    ds = Delegations(atype=atype)
    for i in range(rng.choice([0, 1, 1, 2, 3])):
        fmt = rng.choice(list(DelegationFormat))
        pool = None if fmt == DelegationFormat.SinglePool else rng.choice(['pool1', 'p-é', 'pool ' + str(i)])
        d = Delegation(atype=atype, delegation_id=rng.choice(['del', 'site-ad', 'd 中']) + str(i), aformat=fmt,
                       pool_id=pool)
        if fmt != DelegationFormat.PoolReference:
            if tname == 'capacity':
                d.set_details(Capacities(core=rng.randrange(1, 128), ram=rng.choice([0, 1, 2 ** 40]),
                                         unit=rng.choice([0, 1, 5])))
            else:
                d.set_details(Labels(vlan_range=G.vlan_range(rng)) if rng.random() < 0.5 else
                              Labels(ipv4_range=G.LABEL_FIELD_GEN['ipv4_range'](rng), local_name=text(rng, 20)))
        ds.add_delegations(d)
    return ds


def _enum_gen(path):
    def g(rng):
        mod, name = path
        import importlib
        return rng.choice(list(getattr(importlib.import_module(mod), name)))
    return g


BY_NAME = {
    'details': text, 'site': text, 'allocation_constraints': text, 'service_endpoint': text, 'controller_url': text,
    'technology': text, 'mirror_port': text, 'mirror_vlan': text, 'model': text,
    'boot_script': lambda r: text(r, 1023),
    'image_ref': lambda r: (text(r, 300) if r.random() < 0.7 else 'img,v2,' + text(r, 20)), 'image_type': text_nocomma,
    'management_ip': ip_text,
    'capacities': G.gen_capacities, 'capacity_allocations': G.gen_capacities,
    'labels': G.gen_labels, 'label_allocations': G.gen_labels, 'peer_labels': G.gen_labels,
    'capacity_hints': G.gen_capacityhints, 'reservation_info': G.gen_reservationinfo,
    'structural_info': G.gen_structuralinfo, 'location': G.gen_location, 'flags': G.gen_flags, 'tags': G.gen_tags,
    'mf_data': G.gen_measurementdata, 'user_data': G.gen_userdata, 'layout_data': G.gen_layoutdata,
    'maintenance_info': G.gen_maintenanceinfo, 'ero': G.gen_ero, 'path_info': G.gen_pathinfo,
    'gateway': gen_gateway,
    'layer': _enum_gen(('fim.slivers.network_service', 'NSLayer')),
    'mirror_direction': _enum_gen(('fim.slivers.network_service', 'MirrorDirection')),
    'node_map': gen_node_map,
    'stitch_node': lambda r: r.random() < 0.75,
    'capacity_delegations': lambda r: gen_delegations(r, 'capacity'),
    'label_delegations': lambda r: gen_delegations(r, 'label'),
}


def _by_annotation(cls, prop):
    """Fallback for a setter this module does not know by name: use the annotation of its argument."""
    try:
        params = list(inspect.signature(getattr(cls, 'set_' + prop)).parameters.values())[1:]
    except (TypeError, ValueError, AttributeError):
        return None
    if len(params) != 1:
        return None
    ann = params[0].annotation
    name = getattr(ann, '__name__', str(ann))
    table = {'str': text, 'bool': lambda r: r.random() < 0.5, 'Capacities': G.gen_capacities,
             'Labels': G.gen_labels, 'CapacityHints': G.gen_capacityhints, 'ReservationInfo': G.gen_reservationinfo,
             'StructuralInfo': G.gen_structuralinfo, 'Location': G.gen_location, 'Flags': G.gen_flags,
             'Tags': G.gen_tags, 'MeasurementData': G.gen_measurementdata, 'UserData': G.gen_userdata,
             'LayoutData': G.gen_layoutdata, 'MaintenanceInfo': G.gen_maintenanceinfo, 'ERO': G.gen_ero,
             'PathInfo': G.gen_pathinfo, 'Gateway': gen_gateway,
             'int': lambda r: r.choice(G.BIG_INTS)}
    if isinstance(ann, type) and issubclass(ann, enum.Enum):
        return lambda r: r.choice(list(ann))
    return table.get(name)


def generator_for(kind, prop):
    """fn(rng) -> value for `set_<prop>` of the sliver class of `kind`, or None."""
    if prop == 'type':
        en = type_enums()[kind]
        return lambda r: r.choice(list(en))
    if prop == 'name':
        return lambda r: gen_name(r, kind)
    if prop in BY_NAME:
        return BY_NAME[prop]
    return _by_annotation(sliver_classes()[kind], prop)


NAME_EXTRA = {'node': '-.', 'component': '-_. ', 'service': '-_.', 'interface': '-+_/. :', 'link': '-+_/. :'}


def gen_name(rng, kind, suffix=''):
    alpha = G.WORD + NAME_EXTRA[kind] * 3
    n = rng.choice([2, 3, 8, 8, 20, 200]) - min(len(suffix), 1)
    return ''.join(rng.choice(alpha) for _ in range(max(n, 2))) + suffix


def value_props(kind, vocab=None):
    """Settable names that carry a value (identity and structural setters excluded)."""
    vocab = vocab if vocab is not None else vocabulary(kind)
    return [p for p in vocab if p not in IDENTITY and p not in STRUCTURAL.get(kind, ())]


def choose_props(rng, kind, mode, names):
    """mode: 'all' | 'none' | ('one', p) | 'random' (uniform subset SIZE, so every size occurs and each property
    is set in about half of the random cases)."""
    if mode == 'all':
        chosen = list(names)
    elif mode == 'none':
        chosen = []
    elif isinstance(mode, (tuple, list)):
        chosen = [mode[1]] if mode[1] in names else []
    else:
        chosen = rng.sample(list(names), rng.randrange(0, len(names) + 1))
    for p in list(chosen):              # documented pair: both or neither
        q = PAIRS.get(p)
        if q and q in names and q not in chosen:
            chosen.append(q)
    return chosen


class NoGenerator(Exception):
    pass


class TreeGen:
    """Builds sliver trees; `self.set_log` lists (kind, property) pairs that were set."""

    def __init__(self, rng, vocab=None):
        self.rng = rng
        self.vocab = vocab or {k: vocabulary(k) for k in KINDS}
        self.set_log = []
        self.shapes = []
        self.n = 0
        self.cls = sliver_classes()
        self.types = type_enums()

    def nid(self, tag):
        self.n += 1
        return f'{tag}-{self.n}' + self.rng.choice(['', '', ':é', ' x', '/a.b'])

    def fill(self, s, kind, mode, name=None, stype=None, keep=()):
        """Identity (unless `keep` says the sliver already has it) + a subset of the value properties."""
        rng = self.rng
        if 'name' not in keep:
            for _ in range(20):
                try:
                    s.set_name(name if name is not None else gen_name(rng, kind))
                    break
                except ValueError:
                    name = None
            else:
                raise NoGenerator(f'{kind}.name: generated names are refused by NAME_REGEX {s.NAME_REGEX!r}')
            self.set_log.append((kind, 'name'))
        if 'type' not in keep:
            s.set_type(stype if stype is not None else rng.choice(list(self.types[kind])))
            self.set_log.append((kind, 'type'))
        names = [p for p in value_props(kind, self.vocab[kind]) if p not in keep]
        for p in choose_props(rng, kind, mode, names):
            g = generator_for(kind, p)
            if g is None:
                raise NoGenerator(f'{kind}.{p}')
            s.set_property(p, g(rng))
            self.set_log.append((kind, p))
        return s

    # ---- shapes
    def interface(self, mode='random', name=None, nsub=None, itype=None):
        from fim.slivers.interface_info import InterfaceInfo, InterfaceType
        rng = self.rng
        s = self.cls['interface']()
        s.node_id = self.nid('cp')
        nsub = rng.choice([0, 0, 0, 1, 2, 3]) if nsub is None else nsub
        if nsub > 0:
            itype = InterfaceType.DedicatedPort          # sub-interfaces exist under dedicated ports only
        self.fill(s, 'interface', mode, name=name, stype=itype)
        if nsub > 0:
            ii = InterfaceInfo()
            for j in range(nsub):
                c = self.cls['interface']()
                c.node_id = self.nid('sub')
                self.fill(c, 'interface', 'random', name=gen_name(rng, 'interface', f'.{j}'),
                          stype=InterfaceType.SubInterface if rng.random() < 0.8 else
                          rng.choice([t for t in InterfaceType if t != InterfaceType.DedicatedPort]))
                ii.add_interface(c)
            s.interface_info = ii
        elif rng.random() < 0.1:
            s.interface_info = InterfaceInfo()           # an empty container is the same structure as none
        return s

    def service(self, mode='random', name=None, nifs=None):
        from fim.slivers.interface_info import InterfaceInfo
        rng = self.rng
        s = self.cls['service']()
        s.node_id = self.nid('ns')
        self.fill(s, 'service', mode, name=name)
        nifs = rng.choice([0, 1, 1, 2, 3, 4]) if nifs is None else nifs
        if nifs > 0 or rng.random() < 0.1:
            ii = InterfaceInfo()
            for j in range(nifs):
                ii.add_interface(self.interface(name=gen_name(rng, 'interface', f'_{j}')))
            s.interface_info = ii
        return s

    def component(self, mode='random', name=None, catalogue=None, parent_name=None):
        from fim.slivers.network_service import NetworkServiceInfo
        rng = self.rng
        catalogue = (rng.random() < 0.5) if catalogue is None else catalogue
        if catalogue:
            from fim.slivers.component_catalog import ComponentCatalog, ComponentModelType
            if name is None:
                name = gen_name(rng, 'component')
            for _ in range(20):
                try:
                    s = ComponentCatalog().generate_component(name=name, model_type=rng.choice(list(ComponentModelType)),
                                                              parent_name=parent_name if rng.random() < 0.5 else None)
                    break
                except ValueError:      # interface/service names derived from a component name they do not admit
                    name = 'c' + ''.join(rng.choice('abcXYZ019-_.') for _ in range(rng.randrange(1, 12)))
            s.node_id = self.nid('comp')
            self.shapes.append('catalogue-component')
            for p in ('name', 'type', 'model', 'details'):
                self.set_log.append(('component', p))
            # catalogue-given ids are random uuids: replace them, then decorate everything with more properties
            self.fill(s, 'component', mode, keep=('name', 'type', 'model', 'details'))
            if s.network_service_info is not None:
                for ns in s.network_service_info.list_services():
                    ns.node_id = self.nid('ns')
                    self.fill(ns, 'service', 'random', keep=('name', 'type', 'layer'))
                    for i in (ns.interface_info.list_interfaces() if ns.interface_info else []):
                        i.node_id = self.nid('cp')
                        self.fill(i, 'interface', 'random', keep=('name', 'type', 'labels', 'capacities'))
            return s
        s = self.cls['component']()
        s.node_id = self.nid('comp')
        self.shapes.append('handbuilt-component')
        self.fill(s, 'component', mode, name=name)
        nns = rng.choice([0, 1, 1, 2])
        if nns > 0 or rng.random() < 0.1:
            nsi = NetworkServiceInfo()
            for j in range(nns):
                nsi.add_network_service(self.service(name=gen_name(rng, 'service', f'.{j}')))
            if rng.random() < 0.5:
                s.set_network_service_info(nsi)
            else:
                s.network_service_info = nsi
            self.set_log.append(('component', 'network_service_info'))
        return s

    def node(self, mode='random', name=None):
        from fim.slivers.attached_components import AttachedComponentsInfo
        from fim.slivers.network_service import NetworkServiceInfo
        rng = self.rng
        s = self.cls['node']()
        s.node_id = self.nid('node')
        self.fill(s, 'node', mode, name=name)
        nc = rng.choice([0, 1, 1, 2, 3])
        if nc > 0 or rng.random() < 0.1:
            aci = AttachedComponentsInfo()
            for j in range(nc):
                aci.add_device(self.component(name=gen_name(rng, 'component', f'-{j}'), parent_name=s.get_name()))
            s.attached_components_info = aci
        nns = rng.choice([0, 0, 1, 2])
        if nns > 0 or rng.random() < 0.1:
            nsi = NetworkServiceInfo()
            for j in range(nns):
                nsi.add_network_service(self.service(name=gen_name(rng, 'service', f'-n{j}')))
            s.network_service_info = nsi
        return s

    def link(self, mode='random', name=None):
        s = self.cls['link']()
        s.node_id = self.nid('link')
        self.fill(s, 'link', mode, name=name)
        return s

    def build(self, kind, mode='random'):
        return getattr(self, kind)(mode=mode)


# ----------------------------------------------------------------------------------------------
# canonical form
_unknown_types = set()


def unknown_value_types():
    return sorted(_unknown_types)


def canon_value(v):
    """JSON-able canonical form of one getter value, by type."""
    from fim.slivers.capacities_labels import JSONField
    from fim.slivers.json_data import JSONData
    from fim.slivers.delegations import Delegations
    if v is None or isinstance(v, (bool, int, float, str)):
        return v
    if isinstance(v, enum.Enum):
        return {'enum': type(v).__name__, 'name': v.name}
    if isinstance(v, (ipaddress.IPv4Address, ipaddress.IPv6Address)):
        return {'ip': str(v)}
    if isinstance(v, (tuple, list)):
        return [canon_value(x) for x in v]
    if isinstance(v, JSONField):
        j = v.to_json()
        if j == '':
            return None     # the library's own convention: an object without values is written as '' = absent
        d = json.loads(j)
        # list-valued fields are taken from the object itself, not from its own encoding (positions in a list carry meaning:
        # the i-th bdf, mac and vlan belong together - an encoder that reorders them must not hide behind its own output)
        for k in list(d):
            raw = v.__dict__.get(k)
            if isinstance(raw, (list, tuple)):
                d[k] = [canon_value(x) for x in raw]
        return {'cls': type(v).__name__, 'json': d}
    if isinstance(v, JSONData):
        return {'cls': type(v).__name__, 'data': json.loads(v.json)}
    if isinstance(v, Delegations):
        return {'cls': 'Delegations', 'type': v.type.name, 'json': json.loads(v.to_json())}
    if hasattr(v, 'to_json'):
        j = v.to_json()
        return {'cls': type(v).__name__, 'json': json.loads(j) if isinstance(j, str) and j else j}
    _unknown_types.add(type(v).__name__)
    return {'cls': type(v).__name__, 'repr': repr(v)}


def _children(s):
    """{child-kind: {name: sliver}} of the containers a sliver carries (empty container == no container)."""
    out = {}
    aci = getattr(s, 'attached_components_info', None)
    if aci is not None and aci.devices:
        out['components'] = dict(aci.devices)
    nsi = getattr(s, 'network_service_info', None)
    if nsi is not None and nsi.network_services:
        out['services'] = dict(nsi.network_services)
    ii = getattr(s, 'interface_info', None)
    if ii is not None and ii.interfaces:
        out['interfaces'] = dict(ii.interfaces)
    return out


def canon_sliver(s, with_id=True, deep=True):
    out = {'class': type(s).__name__, 'fields': {}}
    if with_id:
        out['node_id'] = s.node_id
    for p in getters(type(s)):
        out['fields'][p] = canon_value(getattr(s, 'get_' + p)())
    if deep:
        for ck, d in _children(s).items():
            out[ck] = {n: canon_sliver(c, with_id, True) for n, c in d.items()}
    return out


def walk(s, path=''):
    """(path, sliver) for the sliver and everything nested in it."""
    yield path, s
    for ck, d in _children(s).items():
        for n, c in d.items():
            yield from walk(c, f'{path}/{ck}[{n[:40]}]')


def short(v, n=240):
    t = json.dumps(v, sort_keys=True, ensure_ascii=True, default=repr) if not isinstance(v, str) else v
    return v if len(t) <= n else t[:n] + f'...({len(t)} chars)'


def diff_canon(a, b, path=''):
    """Differences between two canonical slivers: list of dicts {at, cls, field, expected, observed}."""
    out = []
    cls = a.get('class')
    if a.get('class') != b.get('class'):
        out.append({'at': path, 'cls': cls, 'field': 'class', 'expected': a.get('class'), 'observed': b.get('class')})
    if 'node_id' in a and a.get('node_id') != b.get('node_id'):
        out.append({'at': path, 'cls': cls, 'field': 'node_id', 'expected': a.get('node_id'),
                    'observed': b.get('node_id')})
    fa, fb = a.get('fields', {}), b.get('fields', {})
    for p in sorted(set(fa) | set(fb)):
        va, vb = fa.get(p, '<no getter>'), fb.get(p, '<no getter>')
        if not G_typed_equal(va, vb):
            out.append({'at': path, 'cls': cls, 'field': p, 'expected': va, 'observed': vb})
    for ck in ('components', 'services', 'interfaces'):
        ca, cb = a.get(ck, {}), b.get(ck, {})
        if set(ca) != set(cb):
            out.append({'at': path, 'cls': cls, 'field': 'structure:' + ck,
                        'expected': sorted(ca), 'observed': sorted(cb)})
        for n in sorted(set(ca) & set(cb)):
            out.extend(diff_canon(ca[n], cb[n], f'{path}/{ck}[{n[:40]}]'))
    return out


def G_typed_equal(a, b):
    """== that distinguishes True from 1 and 1 from 1.0 (json keeps them apart)."""
    if type(a) != type(b):
        return False
    if isinstance(a, dict):
        return a.keys() == b.keys() and all(G_typed_equal(a[k], b[k]) for k in a)
    if isinstance(a, list):
        return len(a) == len(b) and all(G_typed_equal(x, y) for x, y in zip(a, b))
    return a == b
