"""Hand-written, three-valued recognisers for the documented value domains of FIM
labels, tags, element names, boot scripts and opaque JSON blobs (property C16).

Deliberately NO `re`, and nothing imported from the library: every recogniser is
a character-class loop / integer range test written from the published format
(the pattern text + example + range text shown to the user in the error messages
and class attributes), read as a WHOLE-STRING language.

Verdicts
    IN     the string is in the documented domain   -> the library must accept it
    OUT    the string is outside it                 -> the library must reject it
    UNSPEC the documentation does not decide        -> never compared

UNSPEC is generous on purpose (no false alarms):
  * non-ASCII decimal digits where the pattern says `\\d`, any non-ASCII character where it says `\\w`
    (which of them are "digits"/"word characters" is an implementation detail of the regex engine);
  * numbers written with blanks, sign, underscores, leading zeros where only a range is documented (numa);
  * the unescaped `.` of the bdf pattern standing for another character than '.';
  * ipv6: strings the pattern admits but which are not IPv6 text addresses (and the other way round);
    prefix lengths that the pattern admits but are not meaningful (ipv4 /33../99), or meaningful but
    not admitted (ipv6 /100../128); reversed ipv4 ranges;
  * a string `u + '\\n'` where u itself is UNSPEC;
  * JSON: NaN/Infinity literals, nesting deeper than 64, size between the character and the byte count.
"""

IN, OUT, UNSPEC = 'in', 'out', 'unspecified'

_DIG = frozenset('0123456789')
_HEX = frozenset('0123456789abcdefABCDEF')
_LHEX = frozenset('0123456789abcdef')
_WORD = frozenset('abcdefghijklmnopqrstuvwxyzABCDEFGHIJKLMNOPQRSTUVWXYZ0123456789_')


def _both(*vs):
    if OUT in vs:
        return OUT
    if UNSPEC in vs:
        return UNSPEC
    return IN


def _all_in(s, cls):
    for c in s:
        if c not in cls:
            return False
    return True


def _hexrun(s, lo, hi):
    return lo <= len(s) <= hi and _all_in(s, _HEX)


def _digits(s, lo, hi):
    """lo..hi decimal digits.  ASCII -> IN; Unicode decimals mixed in -> UNSPEC; else OUT."""
    if not (lo <= len(s) <= hi):
        return OUT
    v = IN
    for c in s:
        if c in _DIG:
            continue
        if ord(c) > 127 and c.isdecimal():
            v = UNSPEC
            continue
        return OUT
    return v


def _value(s):
    """value of a non-empty ASCII digit string, capped (never builds huge ints)."""
    t = s.lstrip('0')
    if len(t) > 12:
        return 10 ** 12
    return int(t) if t else 0


def _wordclass(s, extra, lo, hi):
    """[\\w<extra>]{lo,hi} as a whole-string language; non-ASCII characters are undecided."""
    if not (lo <= len(s) <= hi):
        return OUT
    v = IN
    for c in s:
        if c in _WORD or c in extra:
            continue
        if ord(c) > 127:
            v = UNSPEC
            continue
        return OUT
    return v


# ---------------------------------------------------------------------------------- labels
def bdf(s):
    # dddd:bb:dd.f   1-4 hex ':' 2 hex ':' 2 hex '.' 1+ hex
    i, n = 0, len(s)
    while i < n and i < 4 and s[i] in _HEX:
        i += 1
    if i == 0 or i >= n or s[i] != ':':
        return OUT
    rest = s[i + 1:]
    # rest must be  HH ':' HH X F+
    if len(rest) < 7:
        return OUT
    if not (_hexrun(rest[0:2], 2, 2) and rest[2] == ':' and _hexrun(rest[3:5], 2, 2)):
        return OUT
    x, fn = rest[5], rest[6:]
    if not _hexrun(fn, 1, len(fn)):
        return OUT
    if x == '.':
        return IN
    if x == '\n':
        return OUT
    return UNSPEC          # the published pattern leaves the '.' unescaped


def mac(s):
    parts = s.split(':')
    if len(parts) != 6:
        return OUT
    for p in parts:
        if not _hexrun(p, 2, 2):
            return OUT
    return IN


def _octet(p):
    return 1 <= len(p) <= 3 and _all_in(p, _DIG) and int(p) <= 255


def ipv4(s):
    parts = s.split('.')
    if len(parts) != 4:
        return OUT
    for p in parts:
        if not _octet(p):
            return OUT
    return IN


def ipv4_range(s):
    parts = s.split('-')
    if len(parts) != 2:
        return OUT
    if ipv4(parts[0]) == OUT or ipv4(parts[1]) == OUT:
        return OUT
    a = [int(x) for x in parts[0].split('.')]
    b = [int(x) for x in parts[1].split('.')]
    return IN if a <= b else UNSPEC


def ipv4_subnet(s):
    parts = s.split('/')
    if len(parts) != 2:
        return OUT
    if ipv4(parts[0]) == OUT:
        return OUT
    d = _digits(parts[1], 1, 2)
    if d != IN:
        return d
    return IN if int(parts[1]) <= 32 else UNSPEC


def _ipv6_pattern(s):
    """the published pattern: at most 8 groups of 0-4 hex digits separated by ':'"""
    groups = s.split(':')
    if len(groups) > 8:
        return False
    for g in groups:
        if not _hexrun(g, 0, 4):
            return False
    return True


def _ipv6_text(s):
    """RFC 4291 text form without embedded IPv4 and without zone index"""
    if '::' in s:
        head, tail = s.split('::', 1)
        if '::' in tail or tail.startswith(':') or head.endswith(':'):
            return False
        hg = head.split(':') if head else []
        tg = tail.split(':') if tail else []
        if len(hg) + len(tg) > 7:
            return False
        groups = hg + tg
    else:
        groups = s.split(':')
        if len(groups) != 8:
            return False
    for g in groups:
        if not _hexrun(g, 1, 4):
            return False
    return True


def _ipv6_addr(s):
    if '.' in s:
        # embedded IPv4 tail: legal IPv6 text, not admitted by the pattern -> undecided when well formed
        k = s.rfind(':')
        if k >= 0 and ipv4(s[k + 1:]) == IN and _ipv6_text(s[:k + 1] + '0:0'):
            return UNSPEC
        return OUT
    p, t = _ipv6_pattern(s), _ipv6_text(s)
    if p and t:
        return IN
    if not p and not t:
        return OUT
    return UNSPEC


def ipv6(s):
    return _ipv6_addr(s)


def ipv6_range(s):
    parts = s.split('-')
    if len(parts) != 2:
        return OUT
    return _both(_ipv6_addr(parts[0]), _ipv6_addr(parts[1]))


def ipv6_subnet(s):
    parts = s.split('/')
    if len(parts) != 2:
        return OUT
    a, pfx = parts
    # "we allow fewer than 128 bits to be specified": 1-8 non-empty groups is the documented short form
    groups = a.split(':')
    if 1 <= len(groups) <= 8 and all(_hexrun(g, 1, 4) for g in groups):
        av = IN
    else:
        av = _ipv6_addr(a)
    d = _digits(pfx, 1, 2)
    if d == OUT and _digits(pfx, 3, 3) == IN and 100 <= int(pfx) <= 128:
        d = UNSPEC
    return _both(av, d)


def _ranged(s, maxdigits, lo, hi):
    d = _digits(s, 1, maxdigits)
    if d != IN:
        return d
    return IN if lo <= _value(s) <= hi else OUT


def asn(s):
    return _ranged(s, 10 ** 9, 1, 2 ** 32 - 1)


def vlan(s):
    return _ranged(s, 4, 0, 4096)


def vlan_range(s):
    parts = s.split('-')
    if len(parts) != 2:
        return OUT
    a, b = _digits(parts[0], 1, 4), _digits(parts[1], 1, 4)
    v = _both(a, b)
    if v != IN:
        return v
    x, y = _value(parts[0]), _value(parts[1])
    return IN if 0 <= x <= 4096 and 0 <= y <= 4096 and x <= y else OUT


# field -> (extra characters besides word characters, min length, max length)
WORD_FIELDS = {'bgp_key': ('-+_/.:', 6, 150), 'account_id': ('-/.', 3, 100), 'region': ('-.', 3, 100)}


def bgp_key(s):
    return _wordclass(s, *WORD_FIELDS['bgp_key'])


def account_id(s):
    return _wordclass(s, *WORD_FIELDS['account_id'])


def region(s):
    return _wordclass(s, *WORD_FIELDS['region'])


def usb_id(s):
    return IN if len(s) == 9 and s[4] == ':' and _all_in(s[:4], _LHEX) and _all_in(s[5:], _LHEX) else OUT


def numa(s):
    if len(s) == 1 and s in '01234567' or s == '-1':
        return IN
    body = s[1:] if s[:1] == '-' else s
    if body and _all_in(body, _DIG) and (body == '0' or body[0] != '0') and s != '-0':
        return OUT      # a plainly written integer outside -1..7
    # anything an integer parser might still read as a number: blanks, sign, '_', leading zeros, other digits
    t = s.strip()
    if t[:1] in ('+', '-'):
        t = t[1:]
    if t and all(c.isdecimal() or c == '_' for c in t):
        return UNSPEC
    return OUT


def free_form(s):
    return IN


LABELS = {
    'bdf': bdf, 'mac': mac, 'ipv4': ipv4, 'ipv4_range': ipv4_range, 'ipv4_subnet': ipv4_subnet,
    'ipv6': ipv6, 'ipv6_range': ipv6_range, 'ipv6_subnet': ipv6_subnet, 'asn': asn, 'vlan': vlan,
    'vlan_range': vlan_range, 'inner_vlan': vlan, 'bgp_key': bgp_key, 'account_id': account_id,
    'region': region, 'usb_id': usb_id, 'numa': numa,
}
# fields documented as plain strings (no pattern, no range)
FREE_LABELS = ('instance', 'instance_parent', 'local_name', 'local_type', 'device_name')


def _nl(fn, s):
    v = fn(s)
    if v == OUT and s.endswith('\n') and fn(s[:-1]) == UNSPEC:
        return UNSPEC
    return v


def label(field, s):
    """verdict for one scalar label value"""
    if not isinstance(s, str):
        return UNSPEC
    fn = LABELS.get(field)
    if fn is None:
        return IN if field in FREE_LABELS else UNSPEC
    return _nl(fn, s)


def is_member_newline(fn, s):
    """s is `<member>\\n`: OUT itself, and IN once the final newline is removed"""
    return isinstance(s, str) and s.endswith('\n') and fn(s) == OUT and fn(s[:-1]) == IN


# ---------------------------------------------------------------------------------- tags, names
def tag(s):
    if not isinstance(s, str):
        return OUT         # "it is a string of regular characters no longer than limit"
    return _nl(tag_raw, s)


TAG = ('-', 1, 255)


def tag_raw(s):
    return _wordclass(s, *TAG)


# sliver class -> (extra characters besides word characters, min, max)
NAMES = {
    'NodeSliver': ('-.', 2, 255),
    'ComponentSliver': ('-_. ', 2, 255),
    'NetworkServiceSliver': ('-_.', 2, 255),
    'InterfaceSliver': ('-+_/. :', 1, 255),
    'NetworkLinkSliver': ('-+_/. :', 2, 255),
}


def name_raw(kind, s):
    extra, lo, hi = NAMES[kind]
    return _wordclass(s, extra, lo, hi)


def name(kind, s):
    if not isinstance(s, str):
        return UNSPEC
    return _nl(lambda x: name_raw(kind, x), s)


# ---------------------------------------------------------------------------------- boot script, JSON blobs
BOOT_SCRIPT_LIMIT = 1024          # "string limited in length": len < 1024
JSON_LIMITS = {'MeasurementData': 4096, 'UserData': 2048, 'LayoutData': 1024}   # len <= limit


def boot_script(s):
    if not isinstance(s, str):
        return OUT
    if len(s) >= BOOT_SCRIPT_LIMIT:
        return OUT
    if len(s.encode('utf-8', 'surrogatepass')) >= BOOT_SCRIPT_LIMIT:
        return UNSPEC
    return IN


class _J:
    """RFC 8259 syntax recogniser (recursive descent, depth-capped)."""
    WS = ' \t\n\r'
    MAXDEPTH = 64

    def __init__(self, s):
        self.s, self.i, self.n = s, 0, len(s)
        self.unspec = False

    def ws(self):
        while self.i < self.n and self.s[self.i] in self.WS:
            self.i += 1

    def lit(self, w):
        if self.s.startswith(w, self.i):
            self.i += len(w)
            return True
        return False

    def string(self):
        s = self.s
        if self.i >= self.n or s[self.i] != '"':
            return False
        self.i += 1
        while self.i < self.n:
            c = s[self.i]
            if c == '"':
                self.i += 1
                return True
            if c == '\\':
                if self.i + 1 >= self.n:
                    return False
                e = s[self.i + 1]
                if e in '"\\/bfnrt':
                    self.i += 2
                elif e == 'u':
                    h = s[self.i + 2:self.i + 6]
                    if len(h) != 4 or not _all_in(h, _HEX):
                        return False
                    self.i += 6
                else:
                    return False
                continue
            if ord(c) < 0x20:
                return False
            self.i += 1
        return False

    def number(self):
        s, n = self.s, self.n
        j = self.i
        if j < n and s[j] == '-':
            j += 1
        if j >= n:
            return False
        if s[j] == '0':
            j += 1
        elif s[j] in '123456789':
            while j < n and s[j] in _DIG:
                j += 1
        else:
            return False
        if j < n and s[j] == '.':
            k = j + 1
            while k < n and s[k] in _DIG:
                k += 1
            if k == j + 1:
                return False
            j = k
        if j < n and s[j] in 'eE':
            k = j + 1
            if k < n and s[k] in '+-':
                k += 1
            m = k
            while k < n and s[k] in _DIG:
                k += 1
            if k == m:
                return False
            j = k
        if j < n and ord(s[j]) > 127 and s[j].isdecimal():
            self.unspec = True
        self.i = j
        return True

    def value(self, depth):
        if depth > self.MAXDEPTH:
            self.unspec = True
            raise RecursionError
        self.ws()
        if self.i >= self.n:
            return False
        c = self.s[self.i]
        if c == '{':
            self.i += 1
            self.ws()
            if self.i < self.n and self.s[self.i] == '}':
                self.i += 1
                return True
            while True:
                self.ws()
                if not self.string():
                    return False
                self.ws()
                if self.i >= self.n or self.s[self.i] != ':':
                    return False
                self.i += 1
                if not self.value(depth + 1):
                    return False
                self.ws()
                if self.i < self.n and self.s[self.i] == ',':
                    self.i += 1
                    continue
                if self.i < self.n and self.s[self.i] == '}':
                    self.i += 1
                    return True
                return False
        if c == '[':
            self.i += 1
            self.ws()
            if self.i < self.n and self.s[self.i] == ']':
                self.i += 1
                return True
            while True:
                if not self.value(depth + 1):
                    return False
                self.ws()
                if self.i < self.n and self.s[self.i] == ',':
                    self.i += 1
                    continue
                if self.i < self.n and self.s[self.i] == ']':
                    self.i += 1
                    return True
                return False
        if c == '"':
            return self.string()
        if self.lit('true') or self.lit('false') or self.lit('null'):
            return True
        if self.lit('NaN') or self.lit('Infinity') or self.lit('-Infinity'):
            self.unspec = True          # accepted by many decoders, not JSON
            return True
        return self.number()

    def document(self):
        try:
            ok = self.value(0)
        except RecursionError:
            return UNSPEC
        if ok:
            self.ws()
            ok = self.i == self.n
        if not ok:
            # a decoder extension (NaN...) seen before the error does not make the text valid; digits of
            # other scripts in number position are left undecided (decoder dependent)
            for c in self.s:
                if ord(c) > 127 and c.isdecimal():
                    return UNSPEC
            return OUT
        return UNSPEC if self.unspec else IN


def json_syntax(s):
    return _J(s).document()


def json_text(kind, s):
    """verdict for a str handed to MeasurementData/UserData/LayoutData"""
    limit = JSON_LIMITS[kind]
    if len(s) > limit:
        return OUT
    v = json_syntax(s)
    if v != IN:
        return v
    if len(s.encode('utf-8', 'surrogatepass')) > limit:
        return UNSPEC
    return IN
