"""Canonical snapshots of the in-memory stores, read directly from the store
objects (no library query code involved) and keyed by GraphID / NodeID only -
internal integer ids never appear in a snapshot.
"""
import json

GRAPH_ID, NODE_ID, CLASS = 'GraphID', 'NodeID', 'Class'


def _key(a, b):
    return json.dumps(sorted([str(a), str(b)]))


def _own(v):
    if isinstance(v, (str, int, float, bool)) or v is None:
        return v
    import copy
    try:
        return copy.deepcopy(v)
    except Exception:
        return v


def canon_nx(g, drop_graph_id=True):
    """Canonical form of one networkx graph: nodes by NodeID, edges by NodeID pair."""
    nodes, dup, anon = {}, [], 0
    for n, d in g.nodes(data=True):
        nid = d.get(NODE_ID)
        if nid is None:
            anon += 1
            nid = f'<anon:{anon}>'
        # values are copied: a snapshot must not change when the store later changes a stored list / dict in place
        p = {k: _own(v) for k, v in d.items() if not (drop_graph_id and k == GRAPH_ID)}
        if nid in nodes:
            dup.append(nid)
            nodes[f'{nid}<dup:{len(dup)}>'] = p
        else:
            nodes[nid] = p
    edges = {}
    for a, b, d in g.edges(data=True):
        ka = g.nodes[a].get(NODE_ID, f'<int:{a}>')
        kb = g.nodes[b].get(NODE_ID, f'<int:{b}>')
        k = _key(ka, kb)
        if k in edges:
            k = k + '<dup>'
        edges[k] = {a_: _own(b_) for a_, b_ in d.items()}
    out = {'nodes': nodes, 'edges': edges}
    if dup:
        out['dup_node_ids'] = sorted(dup)
    if anon:
        out['anon'] = anon
    return out


def raw_storage(importer):
    st = importer.storage
    return getattr(st, 'storage_instance', st)


def store_snapshot(importer):
    """{graph_id: canon} for the whole store + structural facts.
    Works for the shared store (one nx.Graph partitioned by the GraphID attribute)
    and the disjoint one (dict graph_id -> nx.Graph)."""
    import networkx as nx
    st = raw_storage(importer)
    graphs = st.graphs
    facts = {'total_nodes': 0, 'no_graph_id': 0, 'cross_graph_edges': 0, 'mismatched_graph_id': 0}
    snap = {}
    if isinstance(graphs, nx.Graph):
        part = {}
        for n, d in graphs.nodes(data=True):
            facts['total_nodes'] += 1
            gid = d.get(GRAPH_ID)
            if gid is None:
                facts['no_graph_id'] += 1
                gid = '<none>'
            part.setdefault(gid, []).append(n)
        for gid, ns in part.items():
            snap[gid] = canon_nx(graphs.subgraph(ns))
        for a, b in graphs.edges():
            if graphs.nodes[a].get(GRAPH_ID) != graphs.nodes[b].get(GRAPH_ID):
                facts['cross_graph_edges'] += 1
        facts['internal_ids'] = sorted(graphs.nodes())
    else:
        for gid, g in list(graphs.items()):
            if len(g.nodes) == 0:
                continue
            facts['total_nodes'] += len(g.nodes)
            for n, d in g.nodes(data=True):
                if d.get(GRAPH_ID) is None:
                    facts['no_graph_id'] += 1
                elif d.get(GRAPH_ID) != gid:
                    facts['mismatched_graph_id'] += 1
            snap[gid] = canon_nx(g)
    return snap, facts


def graph_snapshot(importer, graph_id):
    return store_snapshot(importer)[0].get(graph_id)


def sem(c):
    """Coarser form: JSON-ish properties that the library treats as absent when
    '' / 'None' / missing are dropped."""
    def clean(p):
        return {k: v for k, v in p.items() if v not in ('', 'None', None)}
    return {'nodes': {k: clean(v) for k, v in c['nodes'].items()},
            'edges': {k: clean(v) for k, v in c['edges'].items()}}


def diff(a, b, limit=6):
    """Human-readable differences between two canonical graphs."""
    out = []
    if a is None or b is None:
        return [f'one side missing: {a is None} / {b is None}']
    for sec in ('nodes', 'edges'):
        for k in sorted(set(a[sec]) | set(b[sec])):
            if k not in a[sec]:
                out.append(f'{sec[:-1]} {k} only in second')
            elif k not in b[sec]:
                out.append(f'{sec[:-1]} {k} only in first')
            elif a[sec][k] != b[sec][k]:
                pa, pb = a[sec][k], b[sec][k]
                for p in sorted(set(pa) | set(pb)):
                    if pa.get(p, '<absent>') != pb.get(p, '<absent>') or type(pa.get(p)) != type(pb.get(p)):
                        out.append(f'{sec[:-1]} {k} prop {p}: {pa.get(p, "<absent>")!r} -> {pb.get(p, "<absent>")!r}')
            if len(out) >= limit:
                return out
    for extra in ('dup_node_ids', 'anon'):
        if a.get(extra) != b.get(extra):
            out.append(f'{extra}: {a.get(extra)} -> {b.get(extra)}')
    return out


def typed_equal(a, b):
    """== that also distinguishes 1 from '1', 1 from True, 1 from 1.0."""
    if type(a) != type(b):
        return False
    if isinstance(a, dict):
        return a.keys() == b.keys() and all(typed_equal(a[k], b[k]) for k in a)
    if isinstance(a, (list, tuple)):
        return len(a) == len(b) and all(typed_equal(x, y) for x, y in zip(a, b))
    return a == b
