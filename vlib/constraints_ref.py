"""C10 reference: PINNED copies of NetworkServiceSliver.ServiceConstraints and NodeSliver.NodeConstraints
(plain data, transcribed by hand from fim/slivers/network_service.py and fim/slivers/network_node.py) and an
oracle that evaluates a DESCRIBED slice (the generator's own record of what it built) against a table.

Nothing in here looks at a graph or calls the topology API; `live_tables()` is the only function that imports
fim, and only to read the two class attributes so that they can be diffed against the pin.
"""
import copy

NO_LIMIT = 0
_MIRROR = ['mirror_port', 'mirror_vlan', 'mirror_direction']


def _svc(layer, mn, mx, sites, req=(), forb=(), rit=(), inst=NO_LIMIT):
    return {'layer': layer, 'min_interfaces': mn, 'num_interfaces': mx, 'num_sites': sites, 'num_instances': inst,
            'required_properties': list(req), 'forbidden_properties': list(forb), 'required_interface_types': list(rit)}


# field `desc` (free documentation text) is deliberately not pinned
PIN_SERVICE = {
    'P4': _svc('L2', 1, NO_LIMIT, 1, forb=_MIRROR),
    'OVS': _svc('L2', 1, NO_LIMIT, 1, forb=_MIRROR),
    'VLAN': _svc('L2', 1, NO_LIMIT, 1, forb=_MIRROR + ['controller_url']),
    'MPLS': _svc('L2', 1, NO_LIMIT, 1, forb=_MIRROR + ['controller_url']),
    'L2Path': _svc('L2', 1, 2, 2, forb=_MIRROR + ['controller_url']),
    'L2STS': _svc('L2', 2, NO_LIMIT, 2, forb=_MIRROR + ['controller_url', 'ero']),
    'L2PTP': _svc('L2', 2, 2, 2, forb=_MIRROR + ['controller_url'], rit=['DedicatedPort', 'FacilityPort', 'SubInterface']),
    'L2Multisite': _svc('L2', 1, NO_LIMIT, NO_LIMIT, forb=_MIRROR + ['controller_url']),
    'L2Bridge': _svc('L2', 1, NO_LIMIT, 1, forb=_MIRROR + ['controller_url']),
    'FABNetv4': _svc('L3', 1, NO_LIMIT, 1, forb=_MIRROR + ['controller_url']),
    'FABNetv6': _svc('L3', 1, NO_LIMIT, 1, forb=_MIRROR + ['controller_url']),
    'PortMirror': _svc('L2', 1, 1, 1, req=['mirror_port', 'mirror_direction', 'site'], forb=['controller_url']),
    'L3VPN': _svc('L3', 1, NO_LIMIT, NO_LIMIT, forb=_MIRROR + ['controller_url']),
    'FABNetv4Ext': _svc('L3', 1, NO_LIMIT, 1, forb=_MIRROR + ['controller_url']),
    'FABNetv6Ext': _svc('L3', 1, NO_LIMIT, 1, forb=_MIRROR + ['controller_url']),
}
SERVICE_FIELDS = ['layer', 'min_interfaces', 'num_interfaces', 'num_sites', 'num_instances', 'required_properties',
                  'forbidden_properties', 'required_interface_types']
UNPINNED_SERVICE_FIELDS = ['desc']

_NOATT = ['attached_components_info', 'image_type', 'image_ref']
PIN_NODE = {
    'Server': {'required_properties': ['site'], 'forbidden_properties': []},
    'VM': {'required_properties': ['site'], 'forbidden_properties': []},
    'Container': {'required_properties': ['site'], 'forbidden_properties': []},
    'Switch': {'required_properties': [], 'forbidden_properties': list(_NOATT)},
    'NAS': {'required_properties': [], 'forbidden_properties': list(_NOATT)},
    'Facility': {'required_properties': [], 'forbidden_properties': _NOATT + ['management_ip']},
}
NODE_FIELDS = ['required_properties', 'forbidden_properties']

# "combinations the service type cannot support", refused at connect time (NetworkService.__service_guardrails)
PIN_GUARDRAIL = [('L2PTP', 'SharedPort')]

# what the generator's building blocks create (checked against the returned handles at build time)
COMPONENT_PORTS = {
    'SharedNIC_ConnectX_6': [('p1', 'SharedPort')],
    'SmartNIC_ConnectX_6': [('p1', 'DedicatedPort'), ('p2', 'DedicatedPort')],
    'GPU_A30': [],
}


# ----------------------------------------------------------------------------------------- live tables
def _plain(v):
    import enum
    if isinstance(v, enum.Enum):
        return v.name
    if isinstance(v, (list, tuple, set, frozenset)):
        return [_plain(x) for x in v]
    return v


def live_tables():
    """The two live tables in the pin's plain form + the live field lists + the NO_LIMIT constant."""
    from fim.slivers.network_service import NetworkServiceSliver
    from fim.slivers.network_node import NodeSliver

    def conv(tab):
        out, fields = {}, {}
        for k, rec in tab.items():
            fl = list(getattr(type(rec), '__fields__', None) or getattr(type(rec), '_fields', None) or [])
            out[_plain(k)] = {f: _plain(getattr(rec, f)) for f in fl}
            fields[_plain(k)] = fl
        return out, fields
    s, sf = conv(NetworkServiceSliver.ServiceConstraints)
    n, nf = conv(NodeSliver.NodeConstraints)
    return {'service': s, 'service_fields': sf, 'node': n, 'node_fields': nf, 'NO_LIMIT': NetworkServiceSliver.NO_LIMIT}


def diff_tables(live):
    """[(table, type, field, pinned, live)] - every cell in which the live tables differ from the pin.
    List-valued cells are compared as sets plus duplicates (order is not a constraint)."""
    out = []
    if live['NO_LIMIT'] != NO_LIMIT:
        out.append(('service', '*', 'NO_LIMIT', NO_LIMIT, live['NO_LIMIT']))

    def same(a, b):
        if isinstance(a, list) and isinstance(b, list):
            return sorted(map(str, a)) == sorted(map(str, b))
        return a == b and type(a) is type(b)
    for tname, pin, fields, unpinned in (('service', PIN_SERVICE, SERVICE_FIELDS, UNPINNED_SERVICE_FIELDS),
                                         ('node', PIN_NODE, NODE_FIELDS, [])):
        lt = live[tname]
        for t in sorted(set(pin) | set(lt)):
            if t not in lt:
                out.append((tname, t, '<type-missing-from-live-table>', pin[t], None))
                continue
            if t not in pin:
                out.append((tname, t, '<type-not-in-pin>', None, lt[t]))
                continue
            for f in sorted(set(fields) | set(lt[t])):
                if f in unpinned:
                    continue
                if f not in lt[t]:
                    out.append((tname, t, f, pin[t][f], '<field-missing>'))
                elif f not in pin[t]:
                    out.append((tname, t, f, '<field-not-in-pin>', lt[t][f]))
                elif not same(pin[t][f], lt[t][f]):
                    out.append((tname, t, f, pin[t][f], lt[t][f]))
    return out


def tables(overrides=None):
    """(service table, node table) = the pin with optional cell overrides {'service': {T: {f: v}}, 'node': {...}}."""
    if not overrides:
        return PIN_SERVICE, PIN_NODE          # callers never modify the tables
    s, n = copy.deepcopy(PIN_SERVICE), copy.deepcopy(PIN_NODE)
    for t, cells in ((overrides or {}).get('service') or {}).items():
        s[t].update(cells)
    for t, cells in ((overrides or {}).get('node') or {}).items():
        n[t].update(cells)
    return s, n


# ----------------------------------------------------------------------------------------- the oracle
def node_site(nd):
    """The site value of a described node ('set' -> its site; 'empty' -> ''; 'unset' -> None)."""
    st = nd.get('site_state', 'set')
    return nd['site'] if st == 'set' else ('' if st == 'empty' else None)


def node_props(nd):
    """Truthiness of the constrained properties of a described node."""
    return {'site': bool(node_site(nd)), 'image_type': bool(nd.get('image')), 'image_ref': bool(nd.get('image')),
            'management_ip': bool(nd.get('management_ip')), 'attached_components_info': bool(nd.get('components'))}


def implicit_services(nd):
    """Services that the building blocks used for this node create by themselves (the generator's record of them)."""
    out = []
    for c in nd.get('components') or []:
        ports = COMPONENT_PORTS[c['model_type']]
        if ports:
            out.append({'name': f"{nd['name']}-{c['name']}-l2ovs", 'nstype': 'OVS', 'implicit': True, 'declared': None, 'props': {},
                        'ifaces': [{'node': nd['name'], 'itype': t} for _, t in ports]})
    if nd.get('via') == 'add_switch':
        out.append({'name': nd['name'] + '-ns', 'nstype': 'P4', 'implicit': True, 'declared': None, 'props': {},
                    'ifaces': [{'node': nd['name'], 'itype': 'DedicatedPort'} for _ in range(nd.get('nports', 8))]})
    if nd.get('via') == 'add_facility':
        out.append({'name': nd['name'] + '-ns', 'nstype': 'VLAN', 'implicit': True, 'declared': None, 'props': {},
                    'ifaces': [{'node': nd['name'], 'itype': 'FacilityPort'} for _ in range(nd.get('fac_ports', 1))]})
    for s in nd.get('node_services') or []:
        out.append({'name': s['name'], 'nstype': s['nstype'], 'implicit': True, 'declared': s.get('declared'), 'props': s.get('props') or {},
                    'ifaces': [{'node': nd['name'], 'itype': p['itype']} for p in s.get('ports') or []]})
    return out


def truthy(v):
    """Truthiness of a described property value as validate() sees it (values are JSON: str, list, dict, None)."""
    return bool(v)


def eval_service(sv, sites_of, stab, experiment=True):
    """Clauses of one service.  Returns (failures [(clause, detail)], passed-active [clause], info)."""
    T = stab[sv['nstype']]
    fails, active = [], []
    ifs = sv.get('ifaces') or []
    n = len(ifs)
    # every service port has exactly one peer
    if sv.get('dangling') or sv.get('twopeer'):
        fails.append(('one-peer', {'dangling': sv.get('dangling'), 'twopeer': bool(sv.get('twopeer'))}))
    elif n and not sv.get('implicit'):
        active.append('one-peer')
    if experiment:
        if T['min_interfaces'] != NO_LIMIT:
            if n < T['min_interfaces']:
                fails.append(('min-interfaces', {'connected': n, 'limit': T['min_interfaces']}))
            else:
                active.append('min-interfaces')
        if T['num_interfaces'] != NO_LIMIT:
            if n > T['num_interfaces']:
                fails.append(('max-interfaces', {'connected': n, 'limit': T['num_interfaces']}))
            else:
                active.append('max-interfaces')
    sites = []
    for i in ifs:
        s = sites_of[i['node']]
        if s not in sites:
            sites.append(s)
    if T['num_sites'] != NO_LIMIT and n:
        if len(sites) > T['num_sites']:
            fails.append(('num-sites', {'sites': sites, 'limit': T['num_sites']}))
        else:
            active.append('num-sites')
    declared = sv.get('declared')
    inferred = sites[0] if len(sites) == 1 else None
    if len(sites) == 1:
        if declared and inferred:
            if declared != inferred:
                fails.append(('declared-site-mismatch', {'declared': declared, 'inferred': inferred}))
            else:
                active.append('declared-site-mismatch')
    elif len(sites) > 1:
        if declared:
            fails.append(('declared-site-on-multisite', {'declared': declared, 'sites': sites}))
        else:
            active.append('declared-site-on-multisite')
    effective_site = declared or inferred
    props = dict(sv.get('props') or {})
    for rp in T['required_properties']:
        v = effective_site if rp == 'site' else props.get(rp)
        if not truthy(v):
            fails.append(('required:' + rp, {'value': v}))
        else:
            active.append('required:' + rp)
    for fp in T['forbidden_properties']:
        v = effective_site if fp == 'site' else props.get(fp)
        if truthy(v):
            fails.append(('forbidden:' + fp, {'value': v}))
        else:
            active.append('forbidden:' + fp)
    rit = T['required_interface_types']
    if rit and n:
        bad = [i['itype'] for i in ifs if i['itype'] not in rit]
        if bad:
            fails.append(('interface-type', {'not-permitted': bad, 'permitted': rit}))
        else:
            active.append('interface-type')
    return fails, active, {'sites': sites, 'effective_site': effective_site, 'inferred': inferred}


def evaluate(desc, overrides=None):
    """Evaluate a described slice.  Returns
    {'failures': [{'clause','subject','stype','detail','implicit'}], 'active': [(stype, clause)] (user services only),
     'record_site': {service name: site that a successful validation must have recorded},
     'undetermined': reason or None}"""
    stab, ntab = tables(overrides if overrides is not None else desc.get('table'))
    experiment = desc.get('flavour', 'experiment') == 'experiment'
    failures, active, record, undet = [], [], {}, None
    sites_of = {}
    for nd in desc.get('nodes') or []:
        sites_of[nd['name']] = node_site(nd)
        p = node_props(nd)
        C = ntab[nd['ntype']]
        for rp in C['required_properties']:
            if not p.get(rp):
                failures.append({'clause': 'node-required:' + rp, 'subject': nd['name'], 'stype': nd['ntype'], 'detail': p})
        for fp in C['forbidden_properties']:
            if p.get(fp):
                failures.append({'clause': 'node-forbidden:' + fp, 'subject': nd['name'], 'stype': nd['ntype'], 'detail': p})
    services = []
    for nd in desc.get('nodes') or []:
        services += implicit_services(nd)
    services += list(desc.get('services') or [])
    per_site = {}
    for sv in services:
        fl, ac, info = eval_service(sv, sites_of, stab, experiment)
        for c, d in fl:
            failures.append({'clause': c, 'subject': sv['name'], 'stype': sv['nstype'], 'detail': d, 'implicit': bool(sv.get('implicit'))})
        if not sv.get('implicit'):
            active += [(sv['nstype'], c) for c in ac]
        T = stab[sv['nstype']]
        # a successful validation records the inferred site on single-site services
        if T['num_sites'] == 1 and info['inferred'] and not sv.get('dangling') and not sv.get('twopeer'):
            record[sv['name']] = sv.get('declared') or info['inferred']
        if T['num_instances'] != NO_LIMIT:
            if info['effective_site']:
                per_site.setdefault(sv['nstype'], {}).setdefault(info['effective_site'], []).append(sv['name'])
            elif sv.get('ifaces'):
                undet = f"service {sv['name']} of instance-limited type {sv['nstype']} has no single site"
    for t, m in per_site.items():
        for site, names in m.items():
            if len(names) > stab[t]['num_instances']:
                failures.append({'clause': 'num-instances', 'subject': ','.join(sorted(names)), 'stype': t,
                                 'detail': {'site': site, 'count': len(names), 'limit': stab[t]['num_instances']}})
            else:
                active.append((t, 'num-instances'))
    return {'failures': failures, 'active': active, 'record_site': record, 'undetermined': undet}


def guardrailed(nstype, itype):
    return (nstype, itype) in [tuple(x) for x in PIN_GUARDRAIL]


# ----------------------------------------------------------------------------------------- which (type, clause, direction) pairs exist
def required_pairs(max_count=4, max_sites=3):
    """(type, clause, 'accept'|'reject'|'reject-mixed') that the pinned table makes possible within the product space
    (interface counts 0..max_count, up to max_sites sites): 'reject' = the clause is the only failing one."""
    out = []
    for t, T in PIN_SERVICE.items():
        mx = T['num_interfaces'] if T['num_interfaces'] != NO_LIMIT else max_count
        mx = min(mx, max_count)
        out += [(t, 'one-peer', 'accept'), (t, 'one-peer', 'reject')]
        if T['min_interfaces'] != NO_LIMIT:
            out += [(t, 'min-interfaces', 'accept'), (t, 'min-interfaces', 'reject')]
        if T['num_interfaces'] != NO_LIMIT and T['num_interfaces'] < max_count:
            out += [(t, 'max-interfaces', 'accept'), (t, 'max-interfaces', 'reject')]
        if T['num_sites'] != NO_LIMIT:
            out.append((t, 'num-sites', 'accept'))
            need = T['num_sites'] + 1
            if need <= max_sites:
                out.append((t, 'num-sites', 'reject' if need <= mx else 'reject-mixed'))
        out += [(t, 'declared-site-mismatch', 'accept'), (t, 'declared-site-mismatch', 'reject')]
        can_span = (T['num_sites'] == NO_LIMIT or T['num_sites'] >= 2) and mx >= 2
        if can_span:
            out += [(t, 'declared-site-on-multisite', 'accept'), (t, 'declared-site-on-multisite', 'reject')]
        for rp in T['required_properties']:
            out.append((t, 'required:' + rp, 'accept'))
            # a missing site is always accompanied by a missing interface in experiment topologies (the site is inferred)
            out.append((t, 'required:' + rp, 'reject-mixed' if rp == 'site' else 'reject'))
        for fp in T['forbidden_properties']:
            out += [(t, 'forbidden:' + fp, 'accept'), (t, 'forbidden:' + fp, 'reject')]
        if T['required_interface_types']:
            out += [(t, 'interface-type', 'accept'), (t, 'interface-type', 'reject')]
    return out
