"""Value generators for the attribute-value codec classes of FIM (C03; also
imported by C02/C16).

Every `gen_<class>(rng)` takes a `random.Random` and returns one REAL object of
that class built through the public constructor/setters only; every
`edges_<class>()` returns a deterministic list of boundary values (zero / 0.0 /
False / '', empty lists, extreme sizes, every enum member ...).  Field lists are
discovered at run time from a fresh object (`fields_of`), so a field added to
the library is either covered (generic generator) or reported through
`ungenerated_fields()`.

Importing this module has no side effects (fim is imported lazily inside the
functions; nothing is patched, no global state besides a memo of field lists).
"""
import json
import string
from datetime import datetime, timedelta, timezone

HEX = '0123456789abcdefABCDEF'
WORD = string.ascii_letters + string.digits + '_' + '\u00e9\u00df\u0416\u4e2d\u0663'   # \w is unicode aware
FREE = string.ascii_letters + string.digits + ' _-.:/,;"\'\\{}[]<>&\t\n\u00e9\u4e2d\U0001f600\x00'
BIG_INTS = [0, 1, 2, 7, 255, 2 ** 16, 2 ** 31, 2 ** 53 + 1, 2 ** 63 - 1, 2 ** 63, 2 ** 64 + 1]


# ----------------------------------------------------------------------------------------------
# small helpers
def fields_of(cls):
    """Field names of a JSONField-like class, from a fresh object."""
    return list(cls().__dict__.keys())


def defaults_of(cls):
    return dict(cls().__dict__)


def _hex(rng, n, alphabet=HEX):
    return ''.join(rng.choice(alphabet) for _ in range(n))


def free_string(rng, maxlen=40):
    m = rng.random()
    if m < 0.08:
        return ''
    if m < 0.12:
        return rng.choice(['0', 'None', 'null', 'false', '{}', '[]', ' ', '0.0'])
    if m < 0.16:
        return ''.join(rng.choice(FREE) for _ in range(rng.choice([1000, 5000, 70000])))
    return ''.join(rng.choice(FREE) for _ in range(rng.randrange(1, maxlen)))


def word_string(rng, lo, hi, extra=''):
    n = rng.choice([lo, hi, rng.randrange(lo, hi + 1), rng.randrange(lo, min(hi, lo + 12) + 1)])
    return ''.join(rng.choice(WORD + extra) for _ in range(n))


def ipv4(rng):
    return '.'.join(str(rng.choice([0, 1, 9, 10, 99, 100, 192, 249, 250, 255, rng.randrange(256)])) for _ in range(4))


def ipv6(rng):
    m = rng.randrange(4)
    if m == 0:
        return ':'.join(_hex(rng, 4) for _ in range(8))
    if m == 1:
        return rng.choice(['::', '::1', 'fe80::1', '2001:db8::8a2e:370:7334', '::ffff:0:0'])
    if m == 2:
        return ':'.join(_hex(rng, rng.randrange(1, 5)) for _ in range(8))
    return ':'.join(_hex(rng, 4) for _ in range(rng.randrange(1, 5))) + '::' + _hex(rng, rng.randrange(1, 5))


def vlan(rng):
    return str(rng.choice([0, 1, 2, 100, 4095, 4096, rng.randrange(4097)]))


def vlan_range(rng):
    a = rng.randrange(4097)
    b = rng.randrange(a, 4097)
    return rng.choice([f'{a}-{b}', '0-0', '0-4096', '4096-4096', f'{a}-{a}'])


LABEL_FIELD_GEN = {
    'bdf': lambda r: f'{_hex(r, r.randrange(1, 5))}:{_hex(r, 2)}:{_hex(r, 2)}.{_hex(r, r.randrange(1, 4))}',
    'mac': lambda r: ':'.join(_hex(r, 2) for _ in range(6)),
    'ipv4': ipv4,
    'ipv4_range': lambda r: ipv4(r) + '-' + ipv4(r),
    'ipv4_subnet': lambda r: ipv4(r) + '/' + str(r.choice([0, 8, 24, 32, r.randrange(100)])),
    'ipv6': ipv6,
    'ipv6_range': lambda r: ipv6(r) + '-' + ipv6(r),
    'ipv6_subnet': lambda r: ipv6(r) + '/' + str(r.choice([0, 48, 64, 99, r.randrange(100)])),
    'asn': lambda r: str(r.choice([1, 2, 65535, 2 ** 32 - 1, r.randrange(1, 2 ** 32)])),
    'vlan': vlan,
    'vlan_range': vlan_range,
    'inner_vlan': vlan,
    'bgp_key': lambda r: word_string(r, 6, 150, '-+/.:'),
    'account_id': lambda r: word_string(r, 3, 100, '-/.'),
    'region': lambda r: word_string(r, 3, 100, '-.'),
    'usb_id': lambda r: _hex(r, 4, '0123456789abcdef') + ':' + _hex(r, 4, '0123456789abcdef'),
    'numa': lambda r: str(r.choice([-1, 0, 1, 7, r.randrange(-1, 8)])),
}
# free-text label fields of the present library; any other (future) field also falls back to free text
LABEL_FREE_FIELDS = ('instance', 'instance_parent', 'local_name', 'local_type', 'device_name')

_ungenerated = set()


def ungenerated_fields():
    """Fields for which no dedicated generator exists and the generic one was rejected by the constructor."""
    return sorted(_ungenerated)


def label_value(rng, field, allow_list=True):
    g = LABEL_FIELD_GEN.get(field)
    one = (lambda: g(rng)) if g else (lambda: free_string(rng))
    if allow_list and rng.random() < 0.3:
        return [one() for _ in range(rng.choice([0, 1, 1, 2, 3, 5]))]
    return one()


def _subset(rng, F):
    m = rng.random()
    if m < 0.08:
        return []
    if m < 0.35:
        return [rng.choice(F)]
    if m < 0.5:
        return list(F)
    return [f for f in F if rng.random() < 0.3]


def _build(cls, kw, exc_name):
    """Construct; a field whose generic value is refused by the constructor is remembered and dropped."""
    try:
        return cls(**kw)
    except Exception:
        ok = {}
        for k, v in kw.items():
            try:
                cls(**{k: v})
                ok[k] = v
            except Exception:
                _ungenerated.add(f'{cls.__name__}.{k}')
        return cls(**ok)


# ----------------------------------------------------------------------------------------------
# JSONField family
def gen_capacities(rng):
    from fim.slivers.capacities_labels import Capacities
    F = fields_of(Capacities)
    kw = {}
    for f in _subset(rng, F):
        kw[f] = rng.choice(BIG_INTS) if rng.random() < 0.6 else rng.randrange(0, 2 ** rng.randrange(1, 80))
    return Capacities(**kw)


def edges_capacities():
    from fim.slivers.capacities_labels import Capacities
    F = fields_of(Capacities)
    out = [Capacities(), Capacities(**{f: 0 for f in F}), Capacities(**{f: 2 ** 63 for f in F}),
           Capacities(**{f: i + 1 for i, f in enumerate(F)})]
    for f in F:
        for v in BIG_INTS:
            out.append(Capacities(**{f: v}))
    return out


def gen_capacityhints(rng):
    from fim.slivers.capacities_labels import CapacityHints
    F = fields_of(CapacityHints)
    return _build(CapacityHints, {f: free_string(rng) for f in _subset(rng, F)}, 'CapacityHints')


def edges_capacityhints():
    from fim.slivers.capacities_labels import CapacityHints
    F = fields_of(CapacityHints)
    out = [CapacityHints()]
    for f in F:
        for v in ['', '0', 'fabric.c1.m4.d10', 'x' * 70000, 'None', '\u4e2d "q" \\ \n']:
            out.append(CapacityHints(**{f: v}))
    return out


def gen_labels(rng):
    from fim.slivers.capacities_labels import Labels
    F = fields_of(Labels)
    return _build(Labels, {f: label_value(rng, f) for f in _subset(rng, F)}, 'Labels')


def edges_labels():
    import random
    from fim.slivers.capacities_labels import Labels
    F = fields_of(Labels)
    r = random.Random('edges_labels')
    out = [Labels()]
    for f in F:
        out.append(_build(Labels, {f: label_value(r, f, allow_list=False)}, 'Labels'))
        out.append(_build(Labels, {f: []}, 'Labels'))
        out.append(_build(Labels, {f: [label_value(r, f, allow_list=False)]}, 'Labels'))
        out.append(_build(Labels, {f: [label_value(r, f, allow_list=False) for _ in range(3)]}, 'Labels'))
        if f not in LABEL_FIELD_GEN:
            for v in ['', '0', 'x' * 70000, [''], ['', '']]:
                out.append(_build(Labels, {f: v}, 'Labels'))
    for f, v in (('vlan', '0'), ('inner_vlan', '0'), ('numa', '0'), ('numa', '-1'), ('vlan_range', '0-0'),
                 ('vlan', '4096'), ('asn', str(2 ** 32 - 1)), ('ipv4', '0.0.0.0'), ('ipv6', '::')):
        if f in F:
            out.append(Labels(**{f: v}))
    out.append(_build(Labels, {f: label_value(r, f, allow_list=False) for f in F}, 'Labels'))
    return out


def _str_or_list(rng):
    if rng.random() < 0.35:
        return [free_string(rng) for _ in range(rng.choice([0, 1, 2, 4]))]
    return free_string(rng)


def gen_reservationinfo(rng):
    from fim.slivers.capacities_labels import ReservationInfo
    F = fields_of(ReservationInfo)
    return _build(ReservationInfo, {f: _str_or_list(rng) for f in _subset(rng, F)}, 'ReservationInfo')


def gen_structuralinfo(rng):
    from fim.slivers.capacities_labels import StructuralInfo
    F = fields_of(StructuralInfo)
    return _build(StructuralInfo, {f: _str_or_list(rng) for f in _subset(rng, F)}, 'StructuralInfo')


def _edges_strlist(cls):
    F = fields_of(cls)
    out = [cls()]
    for f in F:
        for v in ['', '0', 'Active', 'x' * 70000, [], [''], ['a', 'b', 'a'], 'g-\u4e2d "q" \\ \n']:
            out.append(cls(**{f: v}))
    out.append(cls(**{f: 'v' + f for f in F}))
    return out


def edges_reservationinfo():
    from fim.slivers.capacities_labels import ReservationInfo
    return _edges_strlist(ReservationInfo)


def edges_structuralinfo():
    from fim.slivers.capacities_labels import StructuralInfo
    return _edges_strlist(StructuralInfo)


COORDS = [0.0, -0.0, 90.0, -90.0, 180.0, -180.0, 35.9132, -79.0558, 1e-300, 5e-324, 1.7976931348623157e308,
          0.1 + 0.2, 1.0, -1.0]


def _loc_value(rng, f):
    if f == 'postal':
        return free_string(rng)
    m = rng.random()
    if m < 0.35:
        return rng.choice(COORDS)
    if m < 0.9:
        return rng.uniform(-180.0, 180.0)
    return rng.choice(['0', '0.0', '35.9', ''])          # string form is accepted by the setter too


def gen_location(rng):
    from fim.slivers.capacities_labels import Location
    F = fields_of(Location)
    kw = {}
    for f in _subset(rng, F):
        v = _loc_value(rng, f) if f in ('postal', 'lat', 'lon') else free_string(rng)
        kw[f] = v
    return _build(Location, kw, 'Location')


def edges_location():
    from fim.slivers.capacities_labels import Location
    out = [Location(), Location(postal=''), Location(postal='100 Europa Dr., Chapel Hill, NC 27517'),
           Location(lat=0.0, lon=0.0), Location(lat=0.0, lon=-79.0558), Location(lat=35.9132, lon=0.0),
           Location(postal='Null Island', lat=0.0, lon=0.0), Location(postal='equator', lat=0.0, lon=10.5),
           Location(postal='greenwich', lat=51.4779, lon=0.0), Location(lat=-0.0, lon=1.0),
           Location(lat='0', lon='0'), Location(lat='0.0', lon='0.0')]
    for a in COORDS:
        out.append(Location(lat=a))
        out.append(Location(lon=a))
        out.append(Location(lat=a, lon=a, postal='p'))
    return out


def gen_flags(rng):
    from fim.slivers.capacities_labels import Flags
    F = fields_of(Flags)
    return Flags(**{f: rng.random() < 0.5 for f in _subset(rng, F)})


def edges_flags():
    """All 2^n flag assignments (n = 4 today) + the fresh object."""
    from fim.slivers.capacities_labels import Flags
    F = fields_of(Flags)
    out = [Flags()]
    if len(F) <= 10:
        for m in range(2 ** len(F)):
            out.append(Flags(**{f: bool(m >> i & 1) for i, f in enumerate(F)}))
    else:
        out.append(Flags(**{f: True for f in F}))
        out.append(Flags(**{f: False for f in F}))
    for f in F:
        out.append(Flags(**{f: True}))
        out.append(Flags(**{f: False}))
    return out


# ----------------------------------------------------------------------------------------------
def tag_string(rng):
    return word_string(rng, 1, 255, '-')


def gen_tags(rng):
    from fim.slivers.tags import Tags
    n = rng.choice([0, 1, 1, 2, 3, 8, 40])
    tags = [tag_string(rng) for _ in range(n)]
    if tags and rng.random() < 0.2:
        tags.append(tags[0])                      # duplicates are legal
    m = rng.randrange(3)
    if m == 0:
        return Tags(*tags)
    if m == 1:
        return Tags(tags)
    return Tags(tuple(tags))


def edges_tags():
    from fim.slivers.tags import Tags
    return [Tags(), Tags([]), Tags('a'), Tags('a' * 255), Tags('-'), Tags('0'), Tags('None'), Tags('null'),
            Tags('blue', 'soft'), Tags(['blue', 'soft'], 'hard'), Tags('x', 'x', 'x'), Tags('\u4e2d\u00e9_-9'),
            Tags(*['t%d' % i for i in range(500)])]


# ----------------------------------------------------------------------------------------------
def json_value(rng, depth=0):
    m = rng.random()
    if depth > 2 or m < 0.5:
        return rng.choice([None, True, False, 0, 0.0, -1, 2 ** 63, 1.5, 1e300, '', 'x', free_string(rng, 12)])
    if m < 0.75:
        return [json_value(rng, depth + 1) for _ in range(rng.randrange(0, 4))]
    return {free_string(rng, 8): json_value(rng, depth + 1) for _ in range(rng.randrange(0, 4))}


def blob_of_size(n, as_text):
    """A JSON object whose dumped text has exactly n characters (n >= 9)."""
    obj = {'k': 'a' * (n - len(json.dumps({'k': ''})))}
    assert len(json.dumps(obj)) == n
    return json.dumps(obj) if as_text else obj


def _jsondata_classes():
    from fim.slivers import json_data
    return [c for c in vars(json_data).values()
            if isinstance(c, type) and issubclass(c, json_data.JSONData) and c is not json_data.JSONData]


def gen_jsondata(rng, cls):
    m = rng.random()
    if m < 0.05:
        return cls(None)
    if m < 0.15:
        n = rng.choice([cls.MAX_SIZE, cls.MAX_SIZE - 1, cls.MAX_SIZE // 2])
        return cls(blob_of_size(n, rng.random() < 0.5))
    v = json_value(rng)
    while v is None or len(json.dumps(v)) > cls.MAX_SIZE:
        v = json_value(rng, 2)
        if v is None:
            v = {}
    if rng.random() < 0.5:
        # text form, sometimes with non-canonical spacing / non-ASCII characters left unescaped
        txt = json.dumps(v, ensure_ascii=rng.random() < 0.5, indent=rng.choice([None, None, 1]),
                         separators=rng.choice([None, (',', ':')]))
        if len(txt) <= cls.MAX_SIZE:
            return cls(txt)
    if isinstance(v, str):
        return cls(json.dumps(v))     # a bare str argument is always read as JSON text
    return cls(v)


def gen_measurementdata(rng):
    from fim.slivers.json_data import MeasurementData
    return gen_jsondata(rng, MeasurementData)


def gen_userdata(rng):
    from fim.slivers.json_data import UserData
    return gen_jsondata(rng, UserData)


def gen_layoutdata(rng):
    from fim.slivers.json_data import LayoutData
    return gen_jsondata(rng, LayoutData)


def edges_jsondata(cls):
    M = cls.MAX_SIZE
    out = [cls(None), cls('{}'), cls({}), cls([]), cls('[]'), cls('null'), cls('0'), cls(0), cls(0.0), cls(False),
           cls('""'), cls('false'), cls('{"a" :  1}'), cls({'a': {'b': [1, 2.5, None, True, '\u4e2d']}}),
           cls('{"\u4e2d": "\u00e9"}'), cls({'k': 2 ** 63}), cls({'k': 1e300}), cls({'': ''}),
           cls(blob_of_size(M, True)), cls(blob_of_size(M, False)),
           cls(blob_of_size(M - 1, True)), cls(blob_of_size(M - 1, False)),
           cls(' ' * (M - 2) + '{}')]
    return out


# ----------------------------------------------------------------------------------------------
def gen_gateway(rng):
    from fim.slivers.capacities_labels import Labels
    from fim.slivers.gateway import Gateway
    m = rng.random()
    if m < 0.04:
        return Gateway(None)
    kw = {}
    v4 = m < 0.5
    both = rng.random() < 0.1
    if v4 or both:
        kw['ipv4'] = ipv4(rng)
        kw['ipv4_subnet'] = LABEL_FIELD_GEN['ipv4_subnet'](rng)
    if not v4 or both:
        kw['ipv6'] = ipv6(rng)
        kw['ipv6_subnet'] = LABEL_FIELD_GEN['ipv6_subnet'](rng)
    if rng.random() < 0.5:
        kw['mac'] = LABEL_FIELD_GEN['mac'](rng)
    if rng.random() < 0.2:
        kw['local_name'] = free_string(rng, 10)      # ignored by Gateway by design
    if rng.random() < 0.08:
        kw = {k: [v] for k, v in kw.items()}          # list form is legal for Labels
    return Gateway(Labels(**kw))


def edges_gateway():
    from fim.slivers.capacities_labels import Labels
    from fim.slivers.gateway import Gateway
    return [Gateway(None),
            Gateway(Labels(ipv4='192.168.1.1', ipv4_subnet='192.168.1.0/24')),
            Gateway(Labels(ipv4='192.168.1.1', ipv4_subnet='192.168.1.0/24', mac='00:11:22:33:44:55')),
            Gateway(Labels(ipv4='0.0.0.0', ipv4_subnet='0.0.0.0/0')),
            Gateway(Labels(ipv6='::', ipv6_subnet='::/0')),
            Gateway(Labels(ipv6='2001:db8::1', ipv6_subnet='2001:db8::/64', mac='aa:BB:cc:DD:ee:FF')),
            Gateway(Labels(ipv4='10.0.0.1', ipv4_subnet='10.0.0.0/8', ipv6='fe80::1', ipv6_subnet='fe80::/10'))]


# ----------------------------------------------------------------------------------------------
def hop(rng):
    m = rng.random()
    if m < 0.7:
        return rng.choice(['a', 'b', 'c', 'RENC', 'UKY', 'node-1', '', '\u4e2d', 'x' * 300, free_string(rng, 10)])
    if m < 0.85:
        return ipv4(rng)
    return rng.choice([0, 17, 'strict', 'loose', 'True', 'false'])


def gen_path(rng):
    from fim.slivers.path_info import Path
    p = Path()
    m = rng.random()
    hops = [hop(rng) for _ in range(rng.choice([0, 1, 2, 3, 5, 30]))]
    if m < 0.5:
        p.set_symmetric(hops)
    elif m < 0.85:
        p.set(a2z=hops, z2a=[hop(rng) for _ in range(rng.choice([0, 1, 3]))])
    elif m < 0.92:
        p.set(a2z=hops)                 # z2a stays None
    elif m < 0.96:
        p.set(z2a=hops)
    else:
        p.set()
    return p


def _fill(rng, obj, ptype):
    from fim.slivers.path_info import PathRepresentationType
    if ptype == PathRepresentationType.Path:
        obj.set(gen_path(rng))
    else:
        obj.set(rng.choice(['', 'graph-1', 'dead-beef-0000', free_string(rng, 30)]))
    return obj


def gen_pathinfo(rng):
    from fim.slivers.path_info import PathInfo, PathRepresentationType
    ptype = rng.choice(list(PathRepresentationType))
    return _fill(rng, PathInfo() if (ptype == PathRepresentationType.Path and rng.random() < 0.5) else PathInfo(ptype),
                 ptype)


def gen_ero(rng):
    from fim.slivers.path_info import ERO, PathRepresentationType
    ptype = rng.choice(list(PathRepresentationType))
    m = rng.randrange(3)
    if m == 0:
        e = ERO(ptype)                       # default: loose
    elif m == 1:
        e = ERO(ptype, strict=True)
    else:
        e = ERO(ptype, strict=False)
    return _fill(rng, e, ptype)


def edges_pathinfo():
    import random
    from fim.slivers.path_info import PathInfo, ERO, Path, PathRepresentationType
    r = random.Random('edges_pathinfo')
    out = []
    for t in PathRepresentationType:
        for mk in (lambda: PathInfo(t), lambda: ERO(t), lambda: ERO(t, True), lambda: ERO(t, strict=False)):
            if t == PathRepresentationType.Path:
                for hops in ([], ['a'], ['a', 'b', 'c'], ['', ''], ['x' * 5000]):
                    p = Path()
                    p.set_symmetric(list(hops))
                    o = mk()
                    o.set(payload=p)
                    out.append(o)
                    p = Path()
                    p.set(a2z=list(hops), z2a=['z'])
                    o = mk()
                    o.set(p)
                    out.append(o)
                o = mk()
                o.set(Path())                # both directions None
                out.append(o)
            else:
                for g in ('', 'g1', free_string(r, 50)):
                    o = mk()
                    o.set(g)
                    out.append(o)
    return out


# ----------------------------------------------------------------------------------------------
DATES = [datetime(1970, 1, 1), datetime(2024, 2, 29, 23, 59, 59, 999999), datetime(2026, 10, 1, 12, 0),
         datetime(1, 1, 1), datetime(9999, 12, 31, 23, 59, 59),
         datetime(2024, 6, 1, 8, 30, tzinfo=timezone.utc),
         datetime(2024, 6, 1, 8, 30, 15, 250, tzinfo=timezone(timedelta(hours=5, minutes=30))),
         datetime(2024, 11, 3, 1, 30, tzinfo=timezone(timedelta(hours=-4)))]


def gen_date(rng):
    m = rng.random()
    if m < 0.4:
        return rng.choice(DATES)
    d = datetime(2000, 1, 1) + timedelta(seconds=rng.randrange(0, 2 * 10 ** 9), microseconds=rng.choice([0, 0, 1, 999999, rng.randrange(10 ** 6)]))
    if rng.random() < 0.3:
        d = d.replace(tzinfo=timezone(timedelta(minutes=rng.choice([0, 60, -300, 330, 765]))))
    return d


def gen_maintenanceentry(rng):
    from fim.slivers.maintenance_mode import MaintenanceEntry, MaintenanceState
    st = rng.choice(list(MaintenanceState))
    st = st if rng.random() < 0.7 else st.name        # the constructor also takes the state by name
    kw = {}
    m = rng.random()
    if m < 0.35:
        pass
    elif m < 0.6:
        kw['deadline'] = gen_date(rng)
    elif m < 0.7:
        kw['expected_end'] = gen_date(rng)
    else:
        kw['deadline'] = gen_date(rng)
        kw['expected_end'] = gen_date(rng)
    if rng.random() < 0.2:
        kw = {k: v.isoformat() for k, v in kw.items()}  # ISO text is accepted as well
    return MaintenanceEntry(st, **kw)


NODE_NAMES = ['node1', 'node111', 'renc-w1.fabric-testbed.net', 'ALL', '', '0', 'None', 'n\u4e2d "q" \\', 'x' * 3000]


def gen_maintenanceinfo(rng, finalize=False):
    """An UNFINALIZED MaintenanceInfo (pass finalize=True to get it locked)."""
    from fim.slivers.maintenance_mode import MaintenanceInfo
    mi = MaintenanceInfo()
    for _ in range(rng.choice([0, 1, 1, 2, 3, 6, 20])):
        name = rng.choice(NODE_NAMES) if rng.random() < 0.5 else free_string(rng, 20)
        mi.add(name, gen_maintenanceentry(rng))
    if finalize:
        mi.finalize()
    return mi


def edges_maintenanceinfo():
    from fim.slivers.maintenance_mode import MaintenanceInfo, MaintenanceEntry, MaintenanceState
    out = [MaintenanceInfo()]
    for st in MaintenanceState:
        for dl in (None, DATES[0], DATES[5]):
            for ee in (None, DATES[1], DATES[6]):
                mi = MaintenanceInfo()
                mi.add('n', MaintenanceEntry(st, deadline=dl, expected_end=ee))
                mi.add('by-name', MaintenanceEntry(st.name, deadline=dl.isoformat() if dl else None,
                                                   expected_end=ee.isoformat() if ee else None))
                out.append(mi)
    mi = MaintenanceInfo()
    for i, n in enumerate(NODE_NAMES):
        mi.add(n, MaintenanceEntry(list(MaintenanceState)[i % len(MaintenanceState)], deadline=DATES[i % len(DATES)]))
    out.append(mi)
    return out


# ----------------------------------------------------------------------------------------------
def typed_tuple_classes():
    """{class: [type names]} for every concrete TypedTuple subclass, discovered at run time."""
    from fim.graph import typed_tuples as tt
    res = {}
    for cls in tt.TypedTuple.__subclasses__():
        o = cls.__new__(cls)
        try:
            cls.__init__(o, atype='\x00no-such-type', aval='')
        except Exception:
            pass
        cat, tf = getattr(o, 'category', None), getattr(o, 'types_file', None)
        if cat is None:
            continue
        res[cls] = list(tt.TypeValidator(cat, tf).get_types(cat))
    return res


TT_VALUES = ['', '0', 'something', 'something else', '00:00:12:12:12:12', ' 71.2345, 85.231', '  lead', 'in  ner',
             ':', '::', 'a:b:c', '\u4e2d\u00e9', 'line1\nline2', 'x' * 5000, 0, 2, 1000, 2 ** 63, 1.5, True,
             # excluded by design (fromstring strips): trailing blanks / all blank
             'trail ', 'trail\n', ' ', '\t', 'nbsp\u00a0']


def gen_typedtuple(rng, classes=None):
    classes = classes or typed_tuple_classes()
    cls = rng.choice(sorted(classes, key=lambda c: c.__name__))
    atype = rng.choice(classes[cls])
    val = rng.choice(TT_VALUES) if rng.random() < 0.6 else free_string(rng, 30)
    return cls(atype=atype, aval=val)


GENERATORS = {
    'Capacities': gen_capacities, 'CapacityHints': gen_capacityhints, 'Labels': gen_labels,
    'ReservationInfo': gen_reservationinfo, 'StructuralInfo': gen_structuralinfo, 'Location': gen_location,
    'Flags': gen_flags,
}
EDGES = {
    'Capacities': edges_capacities, 'CapacityHints': edges_capacityhints, 'Labels': edges_labels,
    'ReservationInfo': edges_reservationinfo, 'StructuralInfo': edges_structuralinfo, 'Location': edges_location,
    'Flags': edges_flags,
}
