"""sys.monitoring based tools: (a) a cooperative scheduler that makes every LINE
event in the chosen source files a yield point and runs exactly one managed
thread at a time (so interleavings can be enumerated and replayed), and
(b) source-free failpoints (raise at line k of a chosen code object)."""
import sys
import threading

from .lockmon import SchedAbort

mon = sys.monitoring
TOOL = mon.DEBUGGER_ID   # 0; any free id works

_state = {'files': (), 'cb': None, 'active': False}


def _line_cb(code, line):
    if code.co_filename not in _state['files']:
        return mon.DISABLE
    cb = _state['cb']
    if cb is not None:
        return cb(code, line)


def activate(files, cb):
    if _state['active']:
        deactivate()
    _state['files'] = tuple(files)
    _state['cb'] = cb
    mon.use_tool_id(TOOL, 'verif')
    mon.register_callback(TOOL, mon.events.LINE, _line_cb)
    mon.set_events(TOOL, mon.events.LINE)
    mon.restart_events()
    _state['active'] = True


def deactivate():
    if not _state['active']:
        return
    mon.set_events(TOOL, 0)
    mon.register_callback(TOOL, mon.events.LINE, None)
    mon.free_tool_id(TOOL)
    _state['active'] = False
    _state['cb'] = None


# ---------------------------------------------------------------------- failpoints
class Injected(Exception):
    """The exception a failpoint raises."""


class Failpoint:
    """Raise Injected the first time (code name, line) is reached in `filename`."""
    def __init__(self, filename, qualname, line):
        self.filename, self.qualname, self.line = filename, qualname, line
        self.fired = 0

    def __call__(self, code, line):
        if line == self.line and code.co_qualname == self.qualname and not self.fired:
            self.fired += 1
            raise Injected(f'failpoint at {self.qualname}:{line}')


class LineRecorder:
    """Records which (qualname, line) pairs execute (to know which lines a call reaches)."""
    def __init__(self):
        self.seen = []

    def __call__(self, code, line):
        self.seen.append((code.co_qualname, line))


# ---------------------------------------------------------------------- cooperative scheduler
class Scheduler:
    """plan: {yield index: thread tag to switch to}.  Without an entry the running
    thread continues (no pre-emption); when it blocks or finishes the lowest runnable tag runs."""

    def __init__(self, plan=None, chooser=None, max_steps=200000):
        self.plan = dict(plan or {})
        self.chooser = chooser           # optional: fn(step, current, runnable) -> tag or None
        self.cv = threading.Condition()
        self.state = {}                  # tag -> ready | blocked | done
        self.by_ident = {}
        self.current = None
        self.step = 0
        self.switches = []               # (step, from, to) actual pre-emptions
        self.choice_points = []          # (step, current, tuple(other runnable))
        self.waiting = {}                # lock -> [tags]
        self.deadlock = False
        self.abort = False
        self.max_steps = max_steps
        self.errors = {}

    def tid(self):
        return self.by_ident.get(threading.get_ident())

    # -- called from the LINE callback (in a managed thread)
    def on_line(self, code, line):
        t = self.tid()
        if t is None:
            return
        self.yield_point(t)

    def yield_point(self, t):
        with self.cv:
            if self.abort:
                raise SchedAbort()
            self.step += 1
            if self.step > self.max_steps:
                self.abort = True
                self.cv.notify_all()
                raise SchedAbort()
            runnable = [x for x in sorted(self.state) if self.state[x] == 'ready' and x != t]
            if runnable:
                self.choice_points.append((self.step, t, tuple(runnable)))
            want = self.plan.get(self.step)
            if want is None and self.chooser is not None:
                want = self.chooser(self.step, t, runnable)
            if want is not None and want in runnable:
                self.switches.append((self.step, t, want))
                self._handoff(t, want)

    def _handoff(self, t, to):
        # caller holds cv
        self.current = to
        self.cv.notify_all()
        while self.current != t and not self.abort:
            self.cv.wait()
        if self.abort:
            raise SchedAbort()

    def _next_runnable(self):
        r = [x for x in sorted(self.state) if self.state[x] == 'ready']
        return r[0] if r else None

    def block_on(self, lock):
        t = self.tid()
        with self.cv:
            self.state[t] = 'blocked'
            self.waiting.setdefault(id(lock), []).append(t)
            nxt = self._next_runnable()
            if nxt is None:
                self.deadlock = True
                self.abort = True
                self.cv.notify_all()
                raise SchedAbort()
            self._handoff(t, nxt)

    def lock_released(self, lock):
        with self.cv:
            for t in self.waiting.pop(id(lock), []):
                if self.state.get(t) == 'blocked':
                    self.state[t] = 'ready'

    # -- thread management
    def run(self, bodies):
        """bodies: {tag: callable}.  Runs them to completion under the schedule."""
        threads = []
        arrived = []

        def wrap(tag, fn):
            def body():
                self.by_ident[threading.get_ident()] = tag
                with self.cv:
                    self.state[tag] = 'ready'
                    arrived.append(tag)
                    self.cv.notify_all()
                    while self.current != tag and not self.abort:
                        self.cv.wait()
                try:
                    if not self.abort:
                        fn()
                except SchedAbort:
                    pass
                except BaseException as e:
                    self.errors[tag] = f'{type(e).__name__}: {str(e)[:200]}'
                finally:
                    with self.cv:
                        self.state[tag] = 'done'
                        if not self.abort:
                            nxt = self._next_runnable()
                            if nxt is None and any(s == 'blocked' for s in self.state.values()):
                                self.deadlock = True
                                self.abort = True
                            self.current = nxt
                        self.cv.notify_all()
            return body
        for tag, fn in bodies.items():
            th = threading.Thread(target=wrap(tag, fn), name=f'verif-{tag}', daemon=True)
            threads.append(th)
            th.start()
        with self.cv:
            while len(arrived) < len(bodies):
                self.cv.wait()
            first = self.plan.get(0)
            self.current = first if first in self.state else sorted(self.state)[0]
            self.cv.notify_all()
        hung = False
        for th in threads:
            th.join(timeout=60)      # watchdog only: firing is inconclusive, never a verdict
            if th.is_alive():
                hung = True
        if hung:
            with self.cv:
                self.abort = True
                self.cv.notify_all()
            for th in threads:
                th.join(timeout=5)
        return not hung
