"""Stand-in for `neo4j.GraphDatabase` used by check C19 (there is no Neo4j server in the sandbox).

* `FakeGraphDatabase(hub).driver(url, auth=...)` -> FakeDriver -> FakeSession -> FakeResult/FakeRecord.
  Every statement that reaches `session.run` / `tx.run` / `driver.execute_query` is RECORDED as
  (text, params, innermost monitored operation) in `hub.log` (or in the current dry-run capture) and answered by
  `hub.responder` (the harness: answers computed from the Shadow below), falling back to an answer shaped from the
  RETURN clause.  The answers only steer the control flow of the calling code; no verdict is derived from them.
* `Shadow`: a small in-memory model of the shared store (nodes with labels+properties, typed edges with properties,
  graphs distinguished by the GraphID property like in Neo4j) with per-operation answer / mirror functions.
"""
import re
from collections import OrderedDict


# ----------------------------------------------------------------------
class FakeRecord:
    def __init__(self, row):
        self._row = OrderedDict(row)

    def data(self, *keys):
        if keys:
            return {k: self._row.get(k) for k in keys}
        return dict(self._row)

    def keys(self):
        return list(self._row.keys())

    def values(self, *keys):
        if keys:
            return [self[k] for k in keys]
        return list(self._row.values())

    def items(self, *keys):
        return [(k, v) for k, v in self._row.items() if not keys or k in keys]

    def value(self, key=0, default=None):
        try:
            return self[key]
        except (KeyError, IndexError):
            return default

    def get(self, key, default=None):
        return self._row.get(key, default)

    def index(self, key):
        return list(self._row.keys()).index(key)

    def __getitem__(self, key):
        if isinstance(key, int):
            return list(self._row.values())[key]
        return self._row[key]

    def __iter__(self):
        return iter(self._row.values())

    def __len__(self):
        return len(self._row)

    def __contains__(self, v):
        return v in self._row.values()

    def __eq__(self, other):
        return isinstance(other, FakeRecord) and other._row == self._row

    def __repr__(self):
        return f'<FakeRecord {dict(self._row)!r}>'


class FakeSummary:
    counters = None
    notifications = []
    query = None

    def __init__(self, text=None, params=None):
        self.query, self.parameters = text, params


class FakeResult:
    def __init__(self, rows, keys, text=None, params=None):
        self._records = [FakeRecord(r) for r in rows]
        self._keys = list(keys) if keys is not None else (list(rows[0].keys()) if rows else [])
        self._pos = 0
        self._summary = FakeSummary(text, params)

    def keys(self):
        return tuple(self._keys)

    def __iter__(self):
        while self._pos < len(self._records):
            r = self._records[self._pos]
            self._pos += 1
            yield r

    def __next__(self):
        if self._pos >= len(self._records):
            raise StopIteration
        r = self._records[self._pos]
        self._pos += 1
        return r

    def single(self, strict=False):
        rest = self._records[self._pos:]
        self._pos = len(self._records)
        if not rest:
            if strict:
                raise RuntimeError('no records')
            return None
        return rest[0]

    def peek(self):
        return self._records[self._pos] if self._pos < len(self._records) else None

    def fetch(self, n):
        out = self._records[self._pos:self._pos + n]
        self._pos += len(out)
        return out

    def value(self, key=0, default=None):
        return [r.value(key, default) for r in self]

    def values(self, *keys):
        return [r.values(*keys) for r in self]

    def data(self, *keys):
        return [r.data(*keys) for r in self]

    def consume(self):
        self._pos = len(self._records)
        return self._summary

    def graph(self):
        return None

    def closed(self):
        return False

    def to_eager_result(self):
        return list(self), self._summary, self.keys()


class FakeTransaction:
    def __init__(self, session):
        self._s = session

    def run(self, query, parameters=None, **kw):
        return self._s.run(query, parameters, **kw)

    def commit(self):
        pass

    def rollback(self):
        pass

    def close(self):
        pass

    def closed(self):
        return False

    def __enter__(self):
        return self

    def __exit__(self, *a):
        return False


class FakeSession:
    def __init__(self, hub, **config):
        self._hub = hub
        self.config = config

    def run(self, query, parameters=None, **kw):
        params = dict(parameters or {})
        params.update(kw)
        text = getattr(query, 'text', query)
        return self._hub.statement(text, params)

    def begin_transaction(self, *a, **kw):
        return FakeTransaction(self)

    def execute_write(self, fn, *a, **kw):
        return fn(FakeTransaction(self), *a, **kw)

    execute_read = read_transaction = write_transaction = execute_write

    def close(self):
        pass

    def last_bookmarks(self):
        return []

    def __enter__(self):
        return self

    def __exit__(self, *a):
        return False


class FakeDriver:
    def __init__(self, hub, url, auth):
        self._hub, self.url, self.auth = hub, url, auth
        self.closed = False

    def verify_connectivity(self, **kw):
        self._hub.connectivity_checks += 1

    def verify_authentication(self, **kw):
        return True

    def session(self, **config):
        return FakeSession(self._hub, **config)

    def execute_query(self, query_, parameters_=None, **kw):
        params = dict(parameters_ or {})
        params.update({k: v for k, v in kw.items() if not k.endswith('_')})
        return self._hub.statement(getattr(query_, 'text', query_), params).to_eager_result()

    def close(self):
        self.closed = True

    def __enter__(self):
        return self

    def __exit__(self, *a):
        return False


class FakeGraphDatabase:
    """Takes the place of the name `GraphDatabase` inside fim.graph.neo4j_property_graph."""

    def __init__(self, hub):
        self._hub = hub

    def driver(self, url, auth=None, **kw):
        self._hub.drivers += 1
        return FakeDriver(self._hub, url, auth)


# ----------------------------------------------------------------------
_RET = re.compile(r'\breturn\b', re.I)


def return_keys(text):
    """Column names of the (last) RETURN clause, textual (only used to shape fall-back answers)."""
    if not isinstance(text, str):
        return []
    m = list(_RET.finditer(text))
    if not m:
        return []
    tail = text[m[-1].end():]
    tail = re.split(r'\b(?:order\s+by|skip|limit|union)\b', tail, flags=re.I)[0]
    items, depth, cur, q = [], 0, '', None
    for ch in tail:
        if q:
            cur += ch
            if ch == q:
                q = None
            continue
        if ch in '\'"':
            q = ch
        elif ch in '([{':
            depth += 1
        elif ch in ')]}':
            depth -= 1
        if ch == ',' and depth == 0:
            items.append(cur)
            cur = ''
        else:
            cur += ch
    if cur.strip():
        items.append(cur)
    keys = []
    for it in items:
        it = it.strip().rstrip(';').strip()
        mm = re.search(r'\s+as\s+(`[^`]+`|\w+)\s*$', it, re.I)
        keys.append(mm.group(1).strip('`') if mm else it)
    return keys


def shaped_answer(text):
    """One plausible record for a statement nobody modelled."""
    keys = return_keys(text)
    if not keys or keys == ['*']:
        return [], keys
    row = OrderedDict()
    for k in keys:
        kl = k.lower()
        if kl.startswith('properties('):
            row[k] = {}
        elif kl.startswith('labels('):
            row[k] = ['GraphNode']
        elif kl.startswith('collect(') or kl.endswith('ids') or kl.endswith('sites') or kl.endswith('fps'):
            row[k] = []
        elif kl.startswith('count('):
            row[k] = 0
        else:
            row[k] = True
    return [row], keys


class InjectedDriverError(Exception):
    """Raised by the stand-in driver when a fault twin asks the k-th statement of an operation to fail."""


class Hub:
    """Shared state of the stand-in: capture log, operation stack, responder."""

    def __init__(self):
        self.log = []                 # primary statements: dict(text, params, op, public, n)
        self.stack = []               # innermost monitored primitive on top: (opname, frame dict)
        self.public = None            # (class name, method) the harness is currently driving
        self.responder = None         # fn(op_frame, text, params, ordinal) -> rows or None
        self.dry = None               # dict(answers=[...], idx=0, captured=[...]) while a differential twin runs
        self.drivers = 0
        self.connectivity_checks = 0
        self.outside = 0              # statements issued outside any monitored primitive
        self.on_statement = None      # fn(entry) called for every primary statement

    def statement(self, text, params):
        top = self.stack[-1] if self.stack else None
        opname = top[0] if top else None
        if self.dry is not None:
            d = self.dry
            ordinal = top[1].get('dry_n', 0) if top else 0
            if top:
                top[1]['dry_n'] = ordinal + 1
            d['captured'].append({'text': text, 'params': params, 'op': opname, 'ordinal': ordinal, 'idx': d['idx']})
            i = d['idx']
            d['idx'] += 1
            if d.get('fail_at') is not None and i == d['fail_at']:
                # fault injection at the driver boundary: this statement fails (transient server error)
                raise InjectedDriverError(f'injected failure of statement {i}')
            if i < len(d['answers']):
                rows, keys = d['answers'][i]
            else:
                rows, keys = shaped_answer(text)
            return FakeResult([OrderedDict(r) for r in rows], keys, text, params)
        ordinal = 0
        if top:
            ordinal = top[1].setdefault('n', 0)
            top[1]['n'] = ordinal + 1
        else:
            self.outside += 1
        rows = None
        if self.responder is not None and top is not None:
            try:
                rows = self.responder(top, text, params, ordinal)
            except Exception as e:     # an answer model must never break the run
                rows = None
                top[1].setdefault('responder_errors', []).append(repr(e))
        if rows is None:
            rows, keys = shaped_answer(text)
        else:
            keys = list(rows[0].keys()) if rows else return_keys(text)
        entry = {'text': text, 'params': params, 'op': opname, 'ordinal': ordinal, 'public': self.public}
        self.log.append(entry)
        for _, fr in self.stack:
            fr.setdefault('answers', []).append((rows, keys))
            fr.setdefault('entries', []).append(entry)
        if self.on_statement is not None:
            self.on_statement(entry)
        return FakeResult([OrderedDict(r) for r in rows], keys, text, params)


# ----------------------------------------------------------------------
class Shadow:
    """In-memory model of the shared store.  node = {'labels': [...], 'props': {...}}; edge = [a, b, kind, props]."""

    G, N = 'GraphID', 'NodeID'

    def __init__(self):
        self.nodes = []
        self.edges = []

    # ---- basic access -------------------------------------------------
    def clear(self):
        self.nodes, self.edges = [], []

    def graph_nodes(self, gid, label=None):
        return [n for n in self.nodes if n['props'].get(self.G) == gid and (label is None or label in n['labels'])]

    def node(self, gid, nid, label=None):
        for n in self.nodes:
            p = n['props']
            if p.get(self.N) == nid and p.get(self.G) == gid and (label is None or label in n['labels']):
                return n
        return None

    def ids(self, gid, label=None):
        return [n['props'].get(self.N) for n in self.graph_nodes(gid, label)]

    def graph_ids(self):
        out = []
        for n in self.nodes:
            g = n['props'].get(self.G)
            if g not in out:
                out.append(g)
        return out

    def edges_of(self, n, kind=None):
        out = []
        for e in self.edges:
            if kind is not None and e[2] != kind:
                continue
            if e[0] is n:
                out.append((e, e[1]))
            elif e[1] is n:
                out.append((e, e[0]))
        return out

    def neighbors(self, gid, nid, rel, label):
        n = self.node(gid, nid)
        if n is None:
            return []
        return [m for _, m in self.edges_of(n, rel) if label in m['labels'] and m['props'].get(self.G) == gid]

    def edge_between(self, gid, a, b, kind=None):
        na, nb = self.node(gid, a), self.node(gid, b)
        if na is None or nb is None:
            return None
        for e, m in self.edges_of(na, kind):
            if m is nb:
                return e
        return None

    def add_node(self, gid, nid, label, props=None):
        p = {'Class': str(label), self.G: str(gid), self.N: str(nid)}
        for k, v in (props or {}).items():
            p[k] = str(v)
        n = {'labels': ['GraphNode', str(label)], 'props': p}
        self.nodes.append(n)
        return n

    def add_edge(self, gid, a, b, kind, props=None):
        na, nb = self.node(gid, a), self.node(gid, b)
        if na is None or nb is None:
            return None
        p = {'Class': str(kind)}
        for k, v in (props or {}).items():
            p[k] = str(v)
        e = [na, nb, str(kind), p]
        self.edges.append(e)
        return e

    def remove_node(self, n):
        self.nodes = [m for m in self.nodes if m is not n]
        self.edges = [e for e in self.edges if e[0] is not n and e[1] is not n]

    def delete_graph(self, gid):
        for n in self.graph_nodes(gid):
            self.remove_node(n)

    def has_relationship(self, gid):
        for e in self.edges:
            if e[0]['props'].get(self.G) == gid or e[1]['props'].get(self.G) == gid:
                return True
        return False

    def shortest_path(self, gid, a, z, rel=None):
        from collections import deque
        na, nz = self.node(gid, a), self.node(gid, z)
        if na is None or nz is None or na is nz:
            return None
        prev = {id(na): None}
        objs = {id(na): na}
        dq = deque([na])
        while dq:
            cur = dq.popleft()
            if cur is nz:
                path = []
                while cur is not None:
                    path.append(cur['props'].get(self.N))
                    cur = objs.get(prev[id(cur)]) if prev[id(cur)] is not None else None
                return path[::-1]
            for _, m in self.edges_of(cur, rel):
                if id(m) not in prev:
                    prev[id(m)] = id(cur)
                    objs[id(m)] = m
                    dq.append(m)
        return None

    # ---- GraphML (APOC-like export, import of what _prep_graph wrote) --
    def to_graphml(self, gid):
        import networkx as nx
        g = nx.DiGraph()
        idx = {}
        for i, n in enumerate(self.graph_nodes(gid)):
            idx[id(n)] = f'n{i}'
            attrs = {k: v for k, v in n['props'].items()}
            attrs['labels'] = ':' + ':'.join(n['labels'])
            g.add_node(f'n{i}', **attrs)
        for e in self.edges:
            if id(e[0]) in idx and id(e[1]) in idx:
                attrs = dict(e[3])
                attrs['label'] = e[2]
                g.add_edge(idx[id(e[0])], idx[id(e[1])], **attrs)
        return '\n'.join(nx.generate_graphml(g))

    def load_graphml_file(self, path, gid=None):
        """Load what the importer wrote for the server (host path == mapped path in the harness)."""
        import networkx as nx
        g = nx.read_graphml(path)
        made = {}
        for n, d in g.nodes(data=True):
            props = {k: (v if isinstance(v, str) else str(v)) for k, v in d.items() if k not in ('labels', 'label')}
            if gid is not None:
                props[self.G] = gid
            cls = props.get('Class')
            labels = ['GraphNode'] + ([cls] if cls else [])
            node = {'labels': labels, 'props': props}
            self.nodes.append(node)
            made[n] = node
        for a, b, d in g.edges(data=True):
            props = {k: (v if isinstance(v, str) else str(v)) for k, v in d.items() if k not in ('label',)}
            kind = d.get('label') or props.get('Class')
            self.edges.append([made[a], made[b], kind, props])
        return len(made)


# ----------------------------------------------------------------------
def _row(**kw):
    return OrderedDict(kw)


class ShadowOps:
    """Per-operation answer (read side) and mirror (write side) functions over a Shadow.

    answer(op, gid, kw, ordinal) -> list of rows (OrderedDict column -> value) or None (= shape from RETURN clause)
    mirror(op, gid, kw)          -> applies the intended effect of a completed write operation to the shadow
    `op` is the name of the monitored primitive ('importer.x' for importer methods), `gid` the graph id of the object
    it was called on, `kw` its bound arguments.
    """

    def __init__(self, shadow):
        self.s = shadow

    # ------------------------------------------------------------------
    def answer(self, op, gid, kw, ordinal):
        f = getattr(self, 'a_' + op.replace('.', '_'), None)
        if f is None:
            return None
        return f(gid, kw, ordinal)

    def _ids(self, gid, label=None, pred=None):
        return [n['props'].get('NodeID') for n in self.s.graph_nodes(gid, label) if pred is None or pred(n)]

    def a_get_all_nodes_by_class(self, gid, kw, o):
        return [_row(nodeids=self._ids(gid, kw['label']))]

    def a_get_all_nodes_by_class_and_type(self, gid, kw, o):
        return [_row(nodeids=self._ids(gid, kw['label'], lambda n: n['props'].get('Type') == kw['ntype']))]

    def a_list_all_node_ids(self, gid, kw, o):
        return [_row(nodeids=self._ids(gid))]

    def a_get_node_properties(self, gid, kw, o):
        n = self.s.node(gid, kw['node_id'])
        if n is None:
            return []
        return [OrderedDict([('labels(n)', list(n['labels'])), ('properties(n)', dict(n['props']))])]

    def a_get_link_properties(self, gid, kw, o):
        e = self.s.edge_between(gid, kw['node_a'], kw['node_b'])
        if e is None:
            return []
        return [OrderedDict([('type(r)', e[2]), ('properties(r)', dict(e[3]))])]

    def _node_row(self, gid, nid, col):
        n = self.s.node(gid, nid)
        return [] if n is None else [OrderedDict([(col, dict(n['props']))])]

    def a_update_node_property(self, gid, kw, o):
        return self._node_row(gid, kw['node_id'], 'properties(s)')

    def a_update_node_properties(self, gid, kw, o):
        return self._node_row(gid, kw['node_id'], 'properties(s)')

    def a_unset_node_property(self, gid, kw, o):
        n = self.s.node(gid, kw['node_id'])
        return [] if n is None else [OrderedDict([('n.NodeID', kw['node_id'])])]

    def a_update_nodes_property(self, gid, kw, o):
        return [OrderedDict([('properties(s)', dict(n['props']))]) for n in self.s.graph_nodes(gid)]

    def _link_row(self, gid, kw, col):
        e = self.s.edge_between(gid, kw['node_a'], kw['node_b'], kw.get('kind'))
        return [] if e is None else [OrderedDict([(col, dict(e[3]))])]

    def a_update_link_property(self, gid, kw, o):
        return self._link_row(gid, kw, 'properties(r)')

    def a_unset_link_property(self, gid, kw, o):
        return self._link_row(gid, kw, 'r')

    def a_update_link_properties(self, gid, kw, o):
        return self._link_row(gid, kw, 'properties(s)')

    def a_serialize_graph(self, gid, kw, o):
        nodes = self.s.graph_nodes(gid)
        if o == 0:
            return [OrderedDict([('n', dict(n['props'])), ('r', None), ('m', None)]) for n in nodes]
        cols = ['file', 'source', 'format', 'nodes', 'relationships', 'properties', 'time', 'rows', 'batchSize',
                'batches', 'done', 'data']
        r = OrderedDict((c, None) for c in cols)
        r.update(format='graphml', nodes=len(nodes), done=True, data=self.s.to_graphml(gid))
        return [r]

    def a_graph_exists(self, gid, kw, o):
        if self.s.has_relationship(gid):
            return [OrderedDict([('n', {}), ('r', {}), ('m', {})])]
        return []

    def a_get_nodes_on_shortest_path(self, gid, kw, o):
        p = self.s.shortest_path(gid, kw['node_a'], kw['node_z'], kw.get('rel'))
        return [] if p is None else [_row(nodeids=p)]

    def a_get_nodes_on_path_with_hops(self, gid, kw, o):
        p = self.s.shortest_path(gid, kw['node_a'], kw['node_z'])
        return [] if p is None else [_row(nodeids=p)]

    def a_get_first_neighbor(self, gid, kw, o):
        return [OrderedDict([('b.NodeID', m['props'].get('NodeID'))])
                for m in self.s.neighbors(gid, kw['node_id'], kw['rel'], kw['node_label'])]

    def a_get_first_and_second_neighbor(self, gid, kw, o):
        out = []
        for b in self.s.neighbors(gid, kw['node_id'], kw['rel1'], kw['node1_label']):
            for c in self.s.neighbors(gid, b['props'].get('NodeID'), kw['rel2'], kw['node2_label']):
                if c['props'].get('NodeID') != kw['node_id']:
                    out.append(OrderedDict([('b.NodeID', b['props'].get('NodeID')),
                                            ('c.NodeID', c['props'].get('NodeID'))]))
        return out

    def a_delete_node(self, gid, kw, o):
        return []

    def a_delete_graph(self, gid, kw, o):
        return []

    def a_node_exists(self, gid, kw, o):
        return [_row(nodeids=self._ids(gid, kw['label'], lambda n: n['props'].get('NodeID') == kw['node_id']))]

    def a_add_node(self, gid, kw, o):
        return []

    def a_add_link(self, gid, kw, o):
        # as the database would: no row when one of the two end nodes does not exist in this graph
        if self.s.node(gid, kw.get('node_a')) is None or self.s.node(gid, kw.get('node_b')) is None:
            return []
        return [_row(rel={})]

    def a_find_matching_nodes(self, gid, kw, o):
        other = set(self._ids(kw['other_graph'].graph_id))
        return [_row(common_ids=[i for i in self._ids(gid) if i in other])]

    def a_merge_nodes(self, gid, kw, o):
        n = self.s.node(gid, kw['node_id'])
        return [] if n is None else [_row(node=dict(n['props']))]

    def a_get_stitch_nodes(self, gid, kw, o):
        return [_row(nodeids=self._ids(gid, None, lambda n: n['props'].get('StitchNode') == 'true'))]

    def a_check_node_unique(self, gid, kw, o):
        return [_row(nodeids=self._ids(gid, kw['label'], lambda n: n['props'].get('Name') == kw['name']))]

    def a_check_node_name(self, gid, kw, o):
        return [_row(nodeids=self._ids(gid, kw['label'], lambda n: n['props'].get('Name') == kw['name'] and
                                       n['props'].get('NodeID') == kw['node_id']))]

    def a_find_node_by_name(self, gid, kw, o):
        return [_row(nodeids=self._ids(gid, kw['label'], lambda n: n['props'].get('Name') == kw['node_name']))]

    def a_get_graph_diff(self, gid, kw, o):
        a = self.s.graph_nodes(gid, kw['label'])
        b = self.s.graph_nodes(kw['other_graph'].graph_id, kw['label'])
        if not a or not b:
            return []          # the cartesian MATCH ... WITH ... has no rows
        an = {n['props'].get('NodeID') for n in a}
        bn = {n['props'].get('NodeID') for n in b}
        return [_row(AnotB=[dict(n['props']) for n in a if n['props'].get('NodeID') not in bn],
                     BnotA=[dict(n['props']) for n in b if n['props'].get('NodeID') not in an])]

    def a_get_graph_property_diff(self, gid, kw, o):
        a = {n['props'].get('NodeID'): n for n in self.s.graph_nodes(gid, kw['label'])}
        b = {n['props'].get('NodeID'): n for n in self.s.graph_nodes(kw['other_graph'].graph_id, kw['label'])}
        n0, n1 = [], []
        for k in a:
            if k in b and any(a[k]['props'].get(p) != b[k]['props'].get(p) for p in ('Labels', 'Capacities', 'UserData')):
                n0.append(dict(a[k]['props']))
                n1.append(dict(b[k]['props']))
        return [_row(nodes=n0, nodes1=n1)]

    def a_get_matching_nodes_with_components(self, gid, kw, o):
        props = kw['props']
        return [_row(candidate_ids=self._ids(gid, kw['label'],
                                             lambda n: all(n['props'].get(k) == v for k, v in props.items())))]

    def _switches(self, gid):
        return [n for n in self.s.graph_nodes(gid, 'NetworkNode') if n['props'].get('Type') == 'Switch']

    def a_get_sites(self, gid, kw, o):
        return [_row(allSites=sorted({n['props'].get('Site') for n in self._switches(gid) if n['props'].get('Site')}))]

    def a_get_connected_sites(self, gid, kw, o):
        return [_row(connectedSites=sorted({n['props'].get('Site') for n in self._switches(gid)
                                            if n['props'].get('Site')})[:1])]

    def a_get_disconnected_sites(self, gid, kw, o):
        return [_row(disconnectedSites=sorted({n['props'].get('Site') for n in self._switches(gid)
                                               if n['props'].get('Site')})[1:])]

    def a_get_facility_ports(self, gid, kw, o):
        return [_row(allFPs=sorted({n['props'].get('Name') for n in self.s.graph_nodes(gid, 'NetworkNode')
                                    if n['props'].get('Type') == 'Facility' and n['props'].get('Name')}))]

    def a_get_intersite_links(self, gid, kw, o):
        sw = self._switches(gid)
        out = []
        for l in self.s.graph_nodes(gid, 'Link')[:2]:
            if len(sw) >= 2:
                out.append(OrderedDict([('source', sw[0]['props'].get('NodeID')), ('link', l['props'].get('NodeID')),
                                        ('sink', sw[1]['props'].get('NodeID')),
                                        ('source_site', sw[0]['props'].get('Site')),
                                        ('sink_site', sw[1]['props'].get('Site')), ('source_cp', 'cp1'),
                                        ('sink_cp', 'cp2')]))
        return out

    def a_importer__import_graph(self, gid, kw, o):
        if o == 0:
            return [OrderedDict([('file', kw.get('graphml_file')), ('nodes', 0), ('done', True)])]
        return []

    def a_importer_delete_graph(self, gid, kw, o):
        return []

    def a_importer_delete_all_graphs(self, gid, kw, o):
        return []

    def a_importer__add_indexes(self, gid, kw, o):
        return []

    # ------------------------------------------------------------------
    def mirror(self, op, gid, kw):
        f = getattr(self, 'm_' + op.replace('.', '_'), None)
        if f is not None:
            f(gid, kw)
            return True
        return False

    def m_add_node(self, gid, kw):
        self.s.add_node(gid, kw['node_id'], kw['label'], kw.get('props'))

    def m_add_link(self, gid, kw):
        self.s.add_edge(gid, kw['node_a'], kw['node_b'], kw['rel'], kw.get('props'))

    def m_delete_node(self, gid, kw):
        n = self.s.node(gid, kw['node_id'])
        if n is not None:
            self.s.remove_node(n)

    def m_delete_graph(self, gid, kw):
        self.s.delete_graph(gid)

    def m_importer_delete_graph(self, gid, kw):
        self.s.delete_graph(kw['graph_id'])

    def m_importer_delete_all_graphs(self, gid, kw):
        self.s.clear()

    def m_update_node_property(self, gid, kw):
        n = self.s.node(gid, kw['node_id'])
        if n is not None:
            n['props'][kw['prop_name']] = kw['prop_val']

    def m_unset_node_property(self, gid, kw):
        n = self.s.node(gid, kw['node_id'])
        if n is not None:
            n['props'].pop(kw['prop_name'], None)

    def m_update_nodes_property(self, gid, kw):
        for n in self.s.graph_nodes(gid):
            n['props'][kw['prop_name']] = kw['prop_val']

    def m_update_node_properties(self, gid, kw):
        n = self.s.node(gid, kw['node_id'])
        if n is not None:
            for k, v in kw['props'].items():
                n['props'][k] = str(v)

    def m_update_link_property(self, gid, kw):
        e = self.s.edge_between(gid, kw['node_a'], kw['node_b'], kw['kind'])
        if e is not None:
            e[3][kw['prop_name']] = kw['prop_val']

    def m_unset_link_property(self, gid, kw):
        e = self.s.edge_between(gid, kw['node_a'], kw['node_b'], kw['kind'])
        if e is not None:
            e[3].pop(kw['prop_name'], None)

    def m_update_link_properties(self, gid, kw):
        e = self.s.edge_between(gid, kw['node_a'], kw['node_b'], kw['kind'])
        if e is not None:
            for k, v in kw['props'].items():
                e[3][k] = str(v)

    def m_merge_nodes(self, gid, kw):
        """apoc.refactor.mergeNodes([n, m], {properties:'discard', mergeRels:true}): m's edges move to n, m goes."""
        n = self.s.node(gid, kw['node_id'])
        m = self.s.node(kw['other_graph'].graph_id, kw['node_id'])
        if n is None or m is None or n is m:
            return
        pol = kw.get('merge_properties') or {}
        for k, v in m['props'].items():
            if k not in n['props'] or pol.get(k) == 'overwrite':
                n['props'][k] = v
        for lab in m['labels']:
            if lab not in n['labels']:
                n['labels'].append(lab)
        for e in self.s.edges:
            if e[0] is m:
                e[0] = n
            if e[1] is m:
                e[1] = n
        # drop duplicate relationships and loops created by the merge
        seen, keep = set(), []
        for e in self.s.edges:
            key = (frozenset((id(e[0]), id(e[1]))), e[2])
            if e[0] is e[1] or key in seen:
                continue
            seen.add(key)
            keep.append(e)
        self.s.edges = keep
        self.s.nodes = [x for x in self.s.nodes if x is not m]

    def m_importer__import_graph(self, gid, kw):
        self.s.load_graphml_file(kw['graphml_file'])
