#!/venv/bin/python
"""Single entry point:  check.py <ID> <quick|thorough> [--seed N] [--replay PATH]

exit 0  held on everything observed (KNOWN-FINDING lines possible)
exit 1  VIOLATION property=<id> replay=<path>
exit 2  INCONCLUSIVE (a deciding monitor never ran, a worker died or timed out)
"""
import argparse
import os
import sys

sys.path.insert(0, os.path.dirname(os.path.abspath(__file__)))
sys.dont_write_bytecode = True

from vlib import core  # noqa: E402


def main():
    ap = argparse.ArgumentParser()
    ap.add_argument('prop')
    ap.add_argument('tier', nargs='?', default=os.environ.get('VERIF_TIER', 'quick'), choices=['quick', 'thorough'])
    ap.add_argument('--seed', type=int, default=int(os.environ.get('VERIF_SEED', '0') or 0))
    ap.add_argument('--replay')
    ap.add_argument('--worker')
    ap.add_argument('--out')
    ap.add_argument('--shard', type=int)
    a = ap.parse_args()
    prop = a.prop.upper()
    if a.worker:
        i, n = map(int, a.worker.split('/'))
        case = None
        if a.replay:
            import json
            with open(a.replay) as f:
                case = json.load(f)
        core.worker_main(prop, a.tier, a.seed, i, n, a.out, case)
        return 0
    return core.master_main(prop, a.tier, a.seed, a.replay, a.shard)


if __name__ == '__main__':
    sys.exit(main())
