#!/venv/bin/python
"""Sensitivity test of the checks: apply one property-breaking edit from
mutants/<id>.json to a scratch copy of the repository's `fim` package (outside
/repo and /verif), run the check against it (VERIF_REPO=<scratch>) and expect
exit 1 with a VIOLATION line.  The scratch copy is removed immediately.

usage: tools/mutate.py C15 [name-substring] [--tier quick] [--tests] [-j N]
"""
import argparse
import json
import os
import shutil
import subprocess
import sys
import tempfile
from concurrent.futures import ThreadPoolExecutor

VERIF = os.path.dirname(os.path.dirname(os.path.abspath(__file__)))
REPO = '/repo'


def apply(mut, root):
    path = os.path.join(root, mut['file'])
    with open(path) as f:
        src = f.read()
    n = src.count(mut['find'])
    want = mut.get('occurrences', 1)
    if n != want:
        raise RuntimeError(f"{mut['name']}: pattern occurs {n}x in {mut['file']}, expected {want}")
    if 'nth' in mut:
        parts = src.split(mut['find'])
        k = mut['nth']
        src = mut['find'].join(parts[:k + 1]) + mut['replace'] + mut['find'].join(parts[k + 1:])
    else:
        src = src.replace(mut['find'], mut['replace'])
    with open(path, 'w') as f:
        f.write(src)


def run_one(prop, mut, tier, tests):
    scratch = tempfile.mkdtemp(prefix='vmut-')
    try:
        shutil.copytree(os.path.join(REPO, 'fim'), os.path.join(scratch, 'fim'),
                        ignore=shutil.ignore_patterns('__pycache__'))
        for fn in os.listdir(REPO):
            if fn.endswith('.graphml'):
                shutil.copy(os.path.join(REPO, fn), scratch)
        shutil.copytree(os.path.join(REPO, 'test'), os.path.join(scratch, 'test'),
                        ignore=shutil.ignore_patterns('__pycache__'))
        for m in ([mut] + mut.get('also', [])):
            apply(m, scratch)
        env = dict(os.environ, VERIF_REPO=scratch, PYTHONDONTWRITEBYTECODE='1', VERIF_NO_EVIDENCE='1', VERIF_REPLAY_DIR=os.path.join(scratch, 'replay'))
        r = subprocess.run(['/venv/bin/python', '-c', 'import fim.user, fim.graph.networkx_property_graph_disjoint, '
                            'fim.graph.resources.neo4j_cbm, fim.authz.attribute_collector, fim.logging.log_collector'],
                           env=dict(env, PYTHONPATH=scratch), capture_output=True, text=True)
        if r.returncode != 0:
            return mut['name'], 'DOES-NOT-IMPORT', r.stderr[-300:]
        test_res = ''
        if tests:
            t = subprocess.run(['/venv/bin/python', '-m', 'pytest', '-q', '-p', 'no:cacheprovider', '-x', '-n', '8',
                                '--deselect', 'test/zz_neo4j_pg_test.py', '--deselect', 'test/slice_topology_test.py',
                                '--deselect', 'test/modify_test.py', '--deselect',
                                'test/sliver_test.py::TestSlivers::testLocation', 'test'],
                               cwd=scratch, env=dict(env, PYTHONPATH=scratch), capture_output=True, text=True)
            test_res = ' tests:' + t.stdout.strip().splitlines()[-1] if t.stdout.strip() else ' tests:?'
        r = subprocess.run(['/venv/bin/python', os.path.join(VERIF, 'check.py'), prop, tier], env=env,
                           capture_output=True, text=True, cwd=VERIF)
        vio = [l for l in r.stdout.splitlines() if l.startswith('VIOLATION')]
        keys = [l.strip() for l in r.stdout.splitlines() if l.strip().startswith('key=')]
        inc = [l for l in r.stdout.splitlines() if l.startswith('INCONCLUSIVE')]
        if r.returncode == 1 and vio:
            return mut['name'], 'CAUGHT' + test_res, '; '.join(keys[:3])
        if r.returncode == 2:
            return mut['name'], 'INCONCLUSIVE' + test_res, '; '.join(inc[:2])[:400]
        return mut['name'], f'MISSED(rc={r.returncode})' + test_res, r.stdout[-300:]
    except Exception as e:
        return mut['name'], 'ERROR', str(e)
    finally:
        shutil.rmtree(scratch, ignore_errors=True)


def main():
    ap = argparse.ArgumentParser()
    ap.add_argument('prop')
    ap.add_argument('name', nargs='?')
    ap.add_argument('--tier', default='quick')
    ap.add_argument('--tests', action='store_true')
    ap.add_argument('-j', type=int, default=4)
    a = ap.parse_args()
    prop = a.prop.upper()
    with open(os.path.join(VERIF, 'mutants', f'{prop.lower()}.json')) as f:
        muts = json.load(f)
    if a.name:
        muts = [m for m in muts if a.name in m['name']]
    bad = 0
    with ThreadPoolExecutor(a.j) as ex:
        for name, verdict, detail in ex.map(lambda m: run_one(prop, m, a.tier, a.tests), muts):
            print(f'{prop} {name:45s} {verdict:12s} {detail}')
            if not verdict.startswith('CAUGHT'):
                bad += 1
    return 1 if bad else 0


if __name__ == '__main__':
    sys.exit(main())
