#!/usr/bin/env python3
"""mkseedprompts.py <round> : writes /tmp/seedprompt<round>-CNN.txt for every property - the text given to a fresh seeding
sub-agent (property text + what earlier seeded changes of that property did + one style to prefer).  Nothing of /verif's checks
goes into the prompt; the list of earlier changes is taken from seeded/*/meta.json (which the agents themselves wrote)."""
import glob
import json
import os
import random
import re
import sys

R = int(sys.argv[1])
V = os.path.dirname(os.path.dirname(os.path.abspath(__file__)))
STYLES = [
    'Prefer a bug on an ERROR / EXCEPTION / ROLLBACK path (something goes wrong first, and the cleanup or the state left behind is what is broken).',
    'Prefer a bug that depends on STATE PERSISTING ACROSS CALLS (a cache, a class-level or module-level variable, a handle\'s cached field, a counter) so that the first use is fine and a later one is not.',
    'Prefer a bug that shows only at a BOUNDARY or for an unusual-but-legal VALUE (empty container, zero, maximum length, a value equal to a default, a name that is a prefix of another).',
    'Prefer a bug that depends on ORDER (iteration order of a dict/set/list, order of creation, order of arguments, which of two equal candidates is met first).',
    'Prefer a bug through ALIASING or SHARED MUTABLE STATE (a returned object that is shared, an argument that is modified, a default argument, a shallow copy where a deep one is needed).',
    'Prefer a bug in the INTERACTION OF TWO FEATURES that are each fine alone (e.g. two element kinds, two backends/stores, an operation applied after another specific operation).',
    'Prefer a bug in a RARELY USED ENTRY POINT or OPTIONAL PARAMETER of the functionality (an alternative constructor, a keyword argument with a non-default value, a convenience wrapper).',
    'Prefer a bug where a CHECK IS DONE AGAINST THE WRONG THING (the handle\'s cached copy instead of the model, the wrong scope, one side of a pair, the first element only).',
    'Prefer a bug of TYPE / REPRESENTATION CONFUSION (str vs int, bool vs int, tuple vs list, scalar vs one-element list, two spellings of one value, equal-but-not-identical objects, text vs parsed form).',
    'Prefer a bug that shows only when the object is REACHED IN A DIFFERENT WAY than usual (a handle looked up later instead of the one returned by the creating call, an object reloaded from its serialized form, a copy, a second handle to the same element, a view obtained before a change).',
    'Prefer a bug of PARTIAL EFFECT in an operation over SEVERAL elements (the k-th of n is treated differently, a loop stops early or skips after a removal, only the first / last match is handled).',
]
props = {}
for l in open(os.path.join(V, 'properties.jsonl')):
    d = json.loads(l)
    props[d['id']] = d
rng = random.Random(1000 + R)
for pid, d in sorted(props.items()):
    earlier = []
    for m in sorted(glob.glob(os.path.join(V, 'seeded', pid + '-*', 'meta.json'))):
        j = json.load(open(m))
        earlier.append(' - clause: "%s"; files: %s; needed: "%s"' % (str(j.get('clause'))[:150], j.get('files'), str(j.get('needs'))[:150]))
    used = set()
    for r in (R - 1, R - 2, R - 3):
        f = '/tmp/seedprompt%d-%s.txt' % (r, pid)
        if os.path.exists(f):
            mm = re.search(r'Prefer a bug[^\n]*', open(f).read())
            if mm:
                used.add(mm.group(0)[:40])
    cand = [s for s in STYLES if s[:40] not in used] or STYLES
    style = rng.choice(cand)
    wt, out = '/tmp/seed-' + pid, '/tmp/seed-' + pid + '-out'
    txt = f"""You are a careful software engineer asked to plant ONE subtle, realistic bug in a Python library, for the purpose of evaluating a verification tool that you know nothing about. Work ONLY inside the git worktree {wt} (a checkout of the library fabric-testbed/InformationModel, package directory `fim/`). Do NOT read or write anything under /verif or /repo, and do not use any other directory except {wt} (and {out} for your deliverables). There is no network. Python is /venv/bin/python; run commands with cwd={wt} so that `import fim` resolves to {wt}/fim (verify once with `/venv/bin/python -c "import fim; print(fim.__file__)"`).

The library is supposed to satisfy this property:

{pid}: {d['title']}

STATEMENT: {d['statement']}

FOR ALL: {d['quantifier']['text']}


Your task: make a SMALL source change (typically 1-10 lines in one or two files under fim/) that BREAKS this property, such that
 (1) the package still imports and the library's existing test suite still gives the same result as before your change: run `cd {wt} && /venv/bin/python -m pytest -q -p no:cacheprovider -n 8 test 2>&1 | tail -3` BEFORE and AFTER; the baseline is "36 failed, 77 passed" (the 36 failures need a Neo4j server/network and are expected) - after your change it must still be exactly 77 passed with the same failures;
 (2) the breakage needs something SPECIFIC to manifest - a particular multi-step sequence of operations, an unusual but legal input, a particular interleaving or fault at a particular point, or two cooperating sites that each look fine alone - NOT something that ordinary simple use would expose at once (a change that breaks every call is worthless);
 (3) it looks like a plausible programming mistake or an innocent-looking "refactoring/optimisation", not sabotage with magic constants.
Study the relevant code first (find where the property is implemented), think about which clause of the property you attack, then implement.

Deliverables, all in the directory {out} (create it):
 - patch.diff : output of `git -C {wt} diff` (your change only; do not commit);
 - demo.py : a self-contained script (uses only fim and the standard library/networkx) that exits 0 and prints PASS on the UNCHANGED code and exits 1 (prints FAIL plus what went wrong) WITH your change; it must demonstrate a violation of the property as stated, through the public API. Verify both directions yourself WITHOUT git stash (the stash is shared between worktrees): `cd {wt} && git diff > {out}/patch.diff && git apply -R {out}/patch.diff && /venv/bin/python {out}/demo.py; git apply {out}/patch.diff && /venv/bin/python {out}/demo.py`; demo.py must put os.getcwd() first on sys.path so that it imports the worktree copy of fim (run with cwd={wt});
 - meta.json : {{"property": "{pid}", "clause": "<which part of the statement is broken>", "files": [...], "needs": "<what exactly is needed for the bug to manifest>", "why_tests_pass": "<why the existing tests do not notice>", "test_result_before": "...", "test_result_after": "..."}}.
Leave the worktree WITH your change applied (uncommitted). In your final message summarise the change, what it needs to manifest, and the verification you ran (test results before/after, demo before/after).


ADDITIONAL CONSTRAINT: earlier engineers already planted these bugs for this property:
{chr(10).join(earlier)}
Your change must be of a DIFFERENT kind: a different clause of the statement where one is left, otherwise a different function/mechanism and a different triggering condition. Do not reproduce the ideas above. {style}
Note: the test `test/sliver_json_test.py::TupleTests::testNodeAndServiceSlivers` is flaky under `-n 8` on the unchanged code (37 failed/76 passed now and then); rerun if you see that.
If, while studying the code, you notice behaviour of the UNCHANGED code that already violates the property as stated, list it briefly (with a two-line reproduction each) at the end of your final message; do not use it for your planted bug.
"""
    open('/tmp/seedprompt%d-%s.txt' % (R, pid), 'w').write(txt)
    print(pid, len(earlier), style[:60])
