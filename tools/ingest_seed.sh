#!/bin/sh
# tools/ingest_seed.sh C06 agent3 [checks]  - copy a sub-agent's deliverables into seeded/ and evaluate them
id=$1; tag=$2; shift 2
d=/verif/seeded/$id-$tag
mkdir -p $d && cp /tmp/seed-$id-out/patch.diff /tmp/seed-$id-out/meta.json $d/ && cp /tmp/seed-$id-out/demo*.py $d/
cd /verif && /venv/bin/python tools/seeded.py $id-$tag --demo --tests "$@"
