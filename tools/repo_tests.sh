#!/bin/sh
# the repository's stable baseline (77 tests), run in parallel; prints failing tests that are NOT in the always-fail set
cd /repo && /venv/bin/python -m pytest -q -p no:cacheprovider --timeout=900 --continue-on-collection-errors -n 8 test 2>&1 | grep -E "^FAILED test|^ERROR test| passed" | grep -v "zz_neo4j\|slice_topology\|modify_test\|testLocation"
