#!/venv/bin/python
"""Run checks against a kept property-breaking change (seeded/<name>/patch.diff).

The patch is applied to a scratch copy of the repository (outside /repo and /verif), the checks run
with VERIF_REPO=<scratch>, and the copy is removed.  `--in-repo` applies it to /repo itself
(git apply ... ; checks ; git checkout -- .) the way the brief describes.

usage: tools/seeded.py <name> [--checks C05,C04 | --all] [--tier quick] [--demo] [--tests]
"""
import argparse
import json
import os
import shutil
import subprocess
import sys
import tempfile
from concurrent.futures import ThreadPoolExecutor

VERIF = os.path.dirname(os.path.dirname(os.path.abspath(__file__)))
REPO = '/repo'


def main():
    ap = argparse.ArgumentParser()
    ap.add_argument('name')
    ap.add_argument('--checks')
    ap.add_argument('--all', action='store_true')
    ap.add_argument('--tier', default='quick')
    ap.add_argument('--demo', action='store_true')
    ap.add_argument('--tests', action='store_true')
    ap.add_argument('--seed', default='0')
    a = ap.parse_args()
    d = os.path.join(VERIF, 'seeded', a.name)
    meta = json.load(open(os.path.join(d, 'meta.json')))
    checks = a.checks.split(',') if a.checks else ([meta['property']] if not a.all else open(os.path.join(VERIF, 'checks', 'READY')).read().split())
    scratch = tempfile.mkdtemp(prefix='vseed-')
    try:
        for sub in ('fim', 'test'):
            shutil.copytree(os.path.join(REPO, sub), os.path.join(scratch, sub), ignore=shutil.ignore_patterns('__pycache__'))
        for fn in os.listdir(REPO):
            if fn.endswith('.graphml'):
                shutil.copy(os.path.join(REPO, fn), scratch)
        r = subprocess.run(['patch', '-p1', '--no-backup-if-mismatch', '-i', os.path.join(d, 'patch.diff')], cwd=scratch, capture_output=True, text=True)
        if r.returncode != 0:
            print('PATCH DOES NOT APPLY:', r.stdout[-500:], r.stderr[-300:])
            return 2
        env = dict(os.environ, VERIF_REPO=scratch, PYTHONDONTWRITEBYTECODE='1', VERIF_NO_EVIDENCE='1',
                   VERIF_REPLAY_DIR=os.path.join(scratch, 'replay'), VERIF_SEED=a.seed)
        if a.demo:
            for fn in sorted(os.listdir(d)):
                if fn.startswith('demo') and fn.endswith('.py'):
                    r = subprocess.run(['/venv/bin/python', os.path.join(d, fn)], cwd=scratch, env=dict(env, PYTHONPATH=scratch), capture_output=True, text=True, timeout=600)
                    print(f'demo {fn} with patch: rc={r.returncode} {r.stdout.strip()[-200:]}')
                    r = subprocess.run(['/venv/bin/python', os.path.join(d, fn)], cwd=REPO, env=dict(os.environ, PYTHONPATH=REPO), capture_output=True, text=True, timeout=600)
                    print(f'demo {fn} without patch: rc={r.returncode} {r.stdout.strip()[-120:]}')
        if a.tests:
            t = subprocess.run(['/venv/bin/python', '-m', 'pytest', '-q', '-p', 'no:cacheprovider', '-n', '8', 'test'], cwd=scratch,
                               env=dict(env, PYTHONPATH=scratch), capture_output=True, text=True)
            print('tests with patch:', t.stdout.strip().splitlines()[-1])

        def run(c):
            r = subprocess.run(['/venv/bin/python', os.path.join(VERIF, 'check.py'), c, a.tier, '--seed', a.seed], env=env, capture_output=True, text=True, cwd=VERIF)
            keys = sorted({l.strip().split(' clause=')[0] for l in r.stdout.splitlines() if l.strip().startswith('key=')})
            return c, r.returncode, keys
        caught = []
        with ThreadPoolExecutor(4) as ex:
            for c, rc, keys in ex.map(run, checks):
                verdict = 'CAUGHT' if rc == 1 else ('INCONCLUSIVE' if rc == 2 else 'silent')
                print(f'{a.name}: {c} {a.tier} -> {verdict} {"; ".join(keys[:4])}')
                if rc == 1:
                    caught.append(c)
        print(f'{a.name}: caught by {caught or "NOTHING"}')
        return 0 if caught else 1
    finally:
        shutil.rmtree(scratch, ignore_errors=True)


if __name__ == '__main__':
    sys.exit(main())
