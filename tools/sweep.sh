#!/bin/sh
# sweep.sh <tier> [ids...] : every READY check (or the given ones) x seeds 0 1 2 3 7, 3 at a time; prints one line per run that is not a clean exit 0
tier=${1:-quick}; shift
ids="$@"; [ -z "$ids" ] && ids=$(cat /verif/checks/READY)
cd /verif
for id in $ids; do for s in 0 1 2 3 7; do echo "$id $s"; done; done | xargs -P 3 -L 1 sh -c '
  out=$(VERIF_NO_EVIDENCE=1 VERIF_REPLAY_DIR=/verif/.work/sweep-replay /venv/bin/python check.py $0 '"$tier"' --seed $1 2>&1); rc=$?
  line=$(echo "$out" | grep "^$0 " | head -1)
  if [ $rc -ne 0 ]; then echo "RC=$rc $line"; echo "$out" | grep "key=\|INCONCLUSIVE" | cut -c1-220 | sort -u | head -8; else echo "ok   $line" | cut -c1-140; fi'
