#!/venv/bin/python
"""Regenerates /verif/MANIFEST.json from the check modules (LEVEL, LEVEL_TEXT, LEVEL_NOTE, TECHNIQUE)."""
import importlib
import json
import os
import subprocess
import sys

VERIF = os.path.dirname(os.path.dirname(os.path.abspath(__file__)))
sys.path.insert(0, VERIF)
from vlib import boot  # noqa
boot.setup()

props = [json.loads(l) for l in open(os.path.join(VERIF, 'properties.jsonl'))]
checks, na = [], []
for p in props:
    pid = p['id']
    path = os.path.join(VERIF, 'checks', pid.lower() + '.py')
    ready = open(os.path.join(VERIF, 'checks', 'READY')).read().split()
    if not os.path.exists(path) or pid not in ready:
        na.append({'property_id': pid, 'reason': 'check not built yet (planned in DESIGN.md section 4); nothing is claimed for it'})
        continue
    m = importlib.import_module('checks.' + pid.lower())
    if getattr(m, 'NOT_CLAIMED', None):
        na.append({'property_id': pid, 'reason': m.NOT_CLAIMED})
        continue
    c = {
        'property_id': pid,
        'quick_cmd': f'/venv/bin/python check.py {pid} quick',
        'thorough_cmd': f'/venv/bin/python check.py {pid} thorough',
        'evidence_file': f'/verif/evidence/{pid}.json',
        'replay_cmd_template': f'/venv/bin/python check.py {pid} quick --replay {{path}}',
        'engine': 'fim-runtime-monitors',
        'level_claimed': {'category': m.LEVEL, 'text': m.LEVEL_TEXT, 'design_ref': f'DESIGN.md section 4, {pid}'},
        'level_note': m.LEVEL_NOTE,
        'technique': m.TECHNIQUE,
    }
    checks.append(c)

try:
    src = subprocess.run(['git', '-C', '/repo', 'log', '--format=%h %s'], capture_output=True, text=True).stdout.splitlines()
    hook_commits = [l.split()[0] for l in src if l.split(' ', 1)[1].startswith('verif-hook:')]
except Exception:
    hook_commits = []

man = {
    'version': 1,
    'setup_cmd': '/venv/bin/python -c "import sys; sys.path.insert(0, \'/verif\'); from vlib import boot; sys.exit(0 if boot.ensure_deps(True) else 1)"',
    'hooks': {
        'guard': 'FIM_VERIF',
        'enable': 'no source hooks exist: every monitor is attached from the harness (icontract wrappers on the '
                  'repository classes, substituted lock objects, sys.monitoring line callbacks, stand-in Neo4j driver); '
                  'FIM_VERIF is reserved and currently read nowhere in /repo',
        'baseline_off_cmd': 'cd /repo && /venv/bin/python -m pytest -ra -q -p no:cacheprovider --timeout=900 '
                            '--continue-on-collection-errors',
        'source_commits': hook_commits,
        'add_only': True,
    },
    'engines': [{
        'name': 'fim-runtime-monitors', 'path': '/verif/check.py',
        'serves_properties': [c['property_id'] for c in checks],
        'kind_free_text': 'runtime monitoring: seeded hostile workloads against the real library under contract '
                          'monitors (icontract), lock-step reference models, invariant hooks at quiescent points, '
                          'boundary capture, sys.monitoring failpoints and a cooperative scheduler; three-valued '
                          'verdicts (0 held / 1 VIOLATION / 2 INCONCLUSIVE)',
    }],
    'checks': checks,
    'not_applicable': na,
    'notes': 'exit 2 + "INCONCLUSIVE property=..." means a deciding monitor was never reached or a worker timed out; '
             'it is neither held nor violated. known_findings.json lists genuine defects recorded rather than repaired '
             '(keyed by mechanism) and fixed ones. VERIF_SEED selects the workload seed.',
}
with open(os.path.join(VERIF, 'MANIFEST.json'), 'w') as f:
    json.dump(man, f, indent=1)
try:
    import jsonschema
    jsonschema.validate(man, json.load(open('/root/.vp/MANIFEST.schema.json')))
    print('MANIFEST.json valid;', len(checks), 'checks,', len(na), 'not claimed')
except ImportError:
    print('written (jsonschema unavailable)')
