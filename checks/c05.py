"""C05 — in-memory backends agree with each other and with the documented semantics.

Lock-step, three-way: the shared-store backend, the one-graph-per-store backend and
vlib.pgmodel.Model are advanced by the same operation; after every step return value /
raising and the whole-store snapshot (read from the store objects) are compared.
"""
import itertools

from vlib import pgmodel
from vlib.pgmodel import Model, execute, store_global_snapshot

PROPERTY = 'C05'
LEVEL = 'exploration'
SHARDS = {'quick': 4, 'thorough': 16}
RULE = ('operation histories over 2 graph ids, 3 node ids, 2 classes, 2 relations, property names '
        '{p,Name,Type,Class,NodeID,GraphID,q}: exhaustively all histories of depth 2 (quick) / 3 (thorough, sharded) over '
        'the concrete alphabet from two start states (empty; a seeded two-graph state), plus random histories of '
        'length 10-30; one evaluation = one history; distinct by the op list; non-trivial when at least one state-changing '
        'operation succeeded')
REQUIRED = ['step:spec', 'step:unspec', 'cmp:model-outcome', 'cmp:model-state', 'cmp:backends', 'op:merge_nodes',
            'op:add_node', 'op:add_link', 'op:unset_node_property', 'op:update_nodes_property', 'merge:applied',
            'disjoint-merge-refused', 'hist:exhaustive', 'hist:random']
ASSUMPTIONS = ['where the interface is silent (unset of an absent property, re-adding an existing link, self loops, listings '
               'of an empty graph, rewriting NodeID/GraphID through update, policies naming a key the other node lacks) only '
               'backend-vs-backend agreement is demanded and the model adopts the backends\' state',
               'the model (vlib/pgmodel.py) is the harness\'s reading of the ABCPropertyGraph docstrings and of the C05 statement']

MUTATING = {'add_node', 'delete_node', 'add_link', 'update_node_property', 'unset_node_property', 'update_nodes_property',
            'update_node_properties', 'update_link_property', 'unset_link_property', 'update_link_properties',
            'delete_graph', 'merge_nodes'}

OVERLAP_STATE = [
    {'op': 'add_node', 'g': 'A', 'nid': 'x', 'label': 'NetworkNode', 'props': {'Name': 'v1', 'Type': 'v1', 'p': 'v1'}},
    {'op': 'add_node', 'g': 'A', 'nid': 'y', 'label': 'Component', 'props': {'Name': 'v2', 'p': 'v1'}},
    {'op': 'add_node', 'g': 'A', 'nid': 'z', 'label': 'Component', 'props': {'Name': 'v1'}},
    {'op': 'add_link', 'g': 'A', 'a': 'x', 'rel': 'has', 'b': 'y', 'props': {'p': 'v1'}},
    {'op': 'add_link', 'g': 'A', 'a': 'y', 'rel': 'connects', 'b': 'z', 'props': None},
    {'op': 'add_node', 'g': 'B', 'nid': 'x', 'label': 'NetworkNode', 'props': {'Name': 'v2', 'Type': 'v2', 'p': 'v2'}},
    {'op': 'add_node', 'g': 'B', 'nid': 'y', 'label': 'Component', 'props': {'Name': 'v2', 'p': 'v2', 'q': 'v1'}},
    {'op': 'add_node', 'g': 'B', 'nid': 'z', 'label': 'Component', 'props': {'Name': 'v1', 'p': 'v1'}},
    {'op': 'add_link', 'g': 'B', 'a': 'x', 'rel': 'has', 'b': 'y', 'props': {'p': 'v2'}},
    {'op': 'add_link', 'g': 'B', 'a': 'x', 'rel': 'connects', 'b': 'z', 'props': {'q': 'v2'}},
]

SEED_STATE = [
    {'op': 'add_node', 'g': 'A', 'nid': 'x', 'label': 'NetworkNode', 'props': {'Name': 'v1', 'Type': 'v1', 'p': 'v1'}},
    {'op': 'add_node', 'g': 'A', 'nid': 'y', 'label': 'Component', 'props': {'Name': 'v2', 'p': 'v1'}},
    {'op': 'add_link', 'g': 'A', 'a': 'x', 'rel': 'has', 'b': 'y', 'props': {'p': 'v1'}},
    {'op': 'add_node', 'g': 'B', 'nid': 'x', 'label': 'NetworkNode', 'props': {'Name': 'v2', 'Type': 'v2', 'p': 'v2'}},
    {'op': 'add_node', 'g': 'B', 'nid': 'z', 'label': 'Component', 'props': {'Name': 'v1'}},
    {'op': 'add_link', 'g': 'B', 'a': 'x', 'rel': 'connects', 'b': 'z', 'props': None},
]


class Env:
    def __init__(self):
        from vlib import rawgraph
        self.imps = rawgraph.importers()

    def fresh(self):
        out = {}
        for name, (imp, cls) in self.imps.items():
            imp.delete_all_graphs()
            # every handle comes with an importer object of its own (callers create importers freely): they all denote the one store
            out[name] = {g: cls(graph_id=g, importer=type(imp)()) for g in pgmodel.GIDS}
        return out


def state_diff(a, b, limit=5):
    out = []
    for sec in ('nodes', 'edges'):
        for k in sorted(set(a[sec]) | set(b[sec])):
            pa, pb = a[sec].get(k), b[sec].get(k)
            if pa is None or pb is None:
                out.append((sec, k, 'only in ' + ('second' if pa is None else 'first')))
            else:
                for p in sorted(set(pa) | set(pb)):
                    if pa.get(p, '<absent>') != pb.get(p, '<absent>'):
                        out.append((sec, k, p, pa.get(p, '<absent>'), pb.get(p, '<absent>')))
            if len(out) >= limit:
                return out
    return out


def run_history(ctx, env, hist, kind):
    """Returns True if the history ran to its end without a violation."""
    graphs = env.fresh()
    pgmodel.reset_args()
    model = Model()
    use_disjoint = True
    changed = False
    trace = []
    prev_snap = {'nodes': {}, 'edges': {}}
    for step, op in enumerate(hist):
        name = op['op']
        ctx.count('op:' + name)
        mo, tag = model.apply(op)
        del pgmodel.ARG_CHANGED[:]
        rs = execute(graphs['shared'], op)
        ctx.count('clause:dictionary-arguments-come-back-unchanged')
        if pgmodel.ARG_CHANGED:
            ctx.violation(f'C05/{name}-changes-its-argument', 'the operation leaves the dictionary the caller passed as it was (a caller that '
                          'uses it again for the next call must get what the reference model says)',
                          dict(pgmodel.ARG_CHANGED[0], kind=kind, history=hist[:step + 1]))
            return False
        snap_s, prob_s = store_global_snapshot(env.imps['shared'][0])
        trace.append({'op': op, 'shared': rs})
        w = {'history': hist[:step + 1], 'step': step, 'op': op, 'shared_result': rs, 'model_result': mo, 'kind': kind}
        if prob_s and not (name == 'add_node' and mo == pgmodel.RAISE):
            ctx.violation(f'C05/{name}-duplicate-identity', 'no two stored nodes share (graph id, node id)', dict(w, problems=prob_s))
            return False
        if name == 'add_node' and mo == pgmodel.RAISE and rs[0] == 'ok':
            ctx.violation('C05/add-node-duplicate-id-other-class', 'a node id is unique within its graph whatever the '
                          'node\'s class: adding an existing id must raise', w)
            return False
        # ---- backend vs backend
        if name == 'merge_nodes':
            if use_disjoint:
                rd = execute(graphs['disjoint'], op)
                ctx.count('disjoint-merge-refused')
                if not (rd[0] == 'exc' and rd[1] == 'RuntimeError'):
                    ctx.violation('C05/disjoint-merge-not-refused', 'the one-graph-per-store backend documents merge_nodes as '
                                  'unsupported (RuntimeError)', dict(w, disjoint_result=rd))
                    return False
            if rs[0] == 'ok':
                use_disjoint = False     # from here on the two backends legitimately differ
            elif snap_s != prev_snap:
                ctx.violation('C05/merge_nodes-refused-but-changed-the-store', 'a merge that is refused (e.g. its policy names a property '
                              'the other node does not have) leaves both graphs as they were', dict(w, diff=state_diff(prev_snap, snap_s)))
                return False
        elif use_disjoint:
            rd = execute(graphs['disjoint'], op)
            snap_d, prob_d = store_global_snapshot(env.imps['disjoint'][0])
            ctx.count('cmp:backends')
            same = (rs[0] == rd[0]) and (rs[1] == rd[1])
            if not same:
                key = f'C05/{name}-backends-differ-result'
                if name == 'find_matching_nodes' and not model.g_nodes(op['other']) and model.g_nodes(op['g']):
                    key = 'C05/find-matching-nodes-empty-other-graph'
                ctx.violation(key, 'both backends return the same result / raise the same '
                              'exception class', dict(w, disjoint_result=rd))
                return False
            if snap_s != snap_d or prob_d:
                ctx.violation(f'C05/{name}-backends-differ-state', 'both backends hold the same graph afterwards',
                              dict(w, diff=state_diff(snap_s, snap_d), problems=prob_d))
                return False
        prev_snap = snap_s
        # ---- backend vs model
        if tag == 'unspec' or mo is None:
            ctx.count('step:unspec')
            model.adopt(snap_s)
            if rs[0] == 'ok' and name in MUTATING:
                changed = True
            continue
        ctx.count('step:spec')
        ctx.count('cmp:model-outcome')
        if mo == pgmodel.RAISE:
            if rs[0] != 'exc':
                key = f'C05/{name}-accepted-but-documented-to-raise'
                if name == 'add_node':
                    key = 'C05/add-node-duplicate-id-other-class'
                ctx.violation(key, 'the call raises exactly when the documented interface says so', w)
                return False
        else:
            if rs[0] != 'ok':
                ctx.violation(f'C05/{name}-raises-unexpectedly', 'the call succeeds when the documented interface says so', w)
                return False
            if rs[1] != mo[1]:
                ctx.violation(f'C05/{name}-wrong-result', 'return value equals the reference model\'s', w)
                return False
            if name in MUTATING:
                changed = True
        ctx.count('cmp:model-state')
        ms = model.snapshot()
        if name == 'merge_nodes' and rs[0] == 'ok':
            ctx.count('merge:applied')
            # an edge both nodes had: either side's properties are acceptable (undocumented)
            for k, alt in getattr(model, 'ambiguous_edges', {}).items():
                ks = '|'.join(sorted(__import__('json').dumps(list(x)) for x in k))
                if snap_s['edges'].get(ks) == alt:
                    ms['edges'][ks] = dict(alt)
                    model.edges[k] = dict(alt)
                ctx.count('merge:common-edge')
        if ms != snap_s:
            d = state_diff(ms, snap_s)
            key = f'C05/{name}-wrong-state'
            if name == 'merge_nodes' and d and all(x[0] == 'edges' and len(x) == 5 and x[2] == 'contraction' for x in d):
                key = 'C05/merge-leaves-contraction-attribute'
            ctx.violation(key, 'the stored graph equals the reference model\'s after the call', dict(w, diff=d))
            return False
    ctx.seen(hist, changed)
    return True


def exhaustive(ctx, env, depth):
    alpha = pgmodel.alphabet()
    ctx.info['alphabet_size'] = len(alpha)
    n = 0
    idx = 0
    for start_name, start in (('empty', []), ('seeded', SEED_STATE)):
        for combo in itertools.product(range(len(alpha)), repeat=depth):
            idx += 1
            if idx % ctx.nshards != ctx.shard:
                continue
            # quick tier: depth-2 over the full alphabet is ~2*10^5; take a deterministic stride
            if ctx.quick and (idx // ctx.nshards) % ctx.info.setdefault('quick_stride', 8) != 0:
                continue
            hist = list(start) + [alpha[i] for i in combo]
            run_history(ctx, env, hist, 'exhaustive/' + start_name)
            ctx.count('hist:exhaustive')
            n += 1
            if ctx.out_of_time():
                ctx.info['exhaustive_cut_short_by_time_budget'] = 1
                return n
    return n


def run(ctx):
    env = Env()
    rng = ctx.rng
    # random histories first (cheap, diverse), then the enumeration
    nrand = ctx.pick(400, 6000)
    for i in range(nrand):
        L = rng.randrange(10, 31)
        r = rng.random()
        if r < 0.3:
            # merge-heavy histories on two graphs that share node ids (what the combined-model code does)
            hist = list(OVERLAP_STATE)
            # one policy for the whole loop of merges (the usual calling idiom) in half of these histories
            one_pol = {p: rng.choice(['overwrite', 'combine']) for p in rng.sample(['p', 'Name'], rng.randrange(1, 3))} \
                if rng.random() < 0.5 else None
            for _ in range(L):
                if rng.random() < 0.35:
                    g = rng.choice(pgmodel.GIDS)
                    pol = one_pol or (None if rng.random() < 0.4 else {p: rng.choice(['discard', 'overwrite', 'combine'])
                                                                       for p in rng.sample(['p', 'Name'], rng.randrange(1, 3))})
                    if one_pol:
                        ctx.count('merge:policy-object-reused')
                    hist.append({'op': 'merge_nodes', 'g': g, 'nid': rng.choice(pgmodel.NIDS),
                                 'other': [x for x in pgmodel.GIDS if x != g][0], 'policy': pol})
                else:
                    hist.append(pgmodel.random_op(rng))
        else:
            hist = (list(SEED_STATE) if r < 0.65 else []) + [pgmodel.random_op(rng) for _ in range(L)]
        ok = run_history(ctx, env, hist, 'random')
        ctx.count('hist:random')
        if i < 1:
            ctx.sample({'history': hist})
        if ctx.out_of_time():
            break
    # all single operations from both start states: always complete
    alpha = pgmodel.alphabet()
    for k, op in enumerate(alpha):
        if k % ctx.nshards == ctx.shard:
            for start in ([], SEED_STATE):
                run_history(ctx, env, list(start) + [op], 'exhaustive/depth1')
                ctx.count('hist:exhaustive')
    exhaustive(ctx, env, 2)
    if not ctx.quick:
        ctx.info['quick_stride'] = 0
        # depth 3: a deterministic stride through the alphabet^3 space from the seeded state, as far as the time budget allows
        n = len(alpha)
        stride = 997          # prime, so all residues of the three positions are visited
        idx = ctx.shard
        total = n ** 3
        while idx < total and not ctx.out_of_time():
            combo = (idx // (n * n), (idx // n) % n, idx % n)
            run_history(ctx, env, list(SEED_STATE) + [alpha[i] for i in combo], 'exhaustive/depth3-stride')
            ctx.count('hist:depth3')
            idx += stride * ctx.nshards


def replay(ctx, case):
    env = Env()
    run_history(ctx, env, case['witness']['history'], 'replay')


TIME_BUDGET = {'quick': 55, 'thorough': 1500}

LEVEL_TEXT = ('Runtime monitoring against an executable reference model in lock-step: the same operation history is applied to '
              'the shared-store backend, the one-graph-per-store backend and the model; after every step the outcome '
              '(value / raising) and the whole-store snapshot read from the store objects are compared (model for documented '
              'behaviour, backend-vs-backend everywhere). All depth-1 histories, a stride of the depth-2 histories (quick) / all '
              'depth-2 (thorough) from two start states, plus random histories of length 10-30. Held on what was observed.')
LEVEL_NOTE = ('Trusted: the reference model as the reading of the documented interface, networkx containers. Where the '
              'interface is silent only backend agreement is checked. The Neo4j backend is not compared (no server).')
TECHNIQUE = 'lock-step reference-model monitor + differential comparison of the two in-memory backends'
