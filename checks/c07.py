"""C07 — every model the topology API builds satisfies the published graph rules.

Invariant hook after every public call of generated histories: the rules of
graph_validation_rules.json + the containment/naming clauses of the statement are
evaluated on the canonical snapshot of the extracted model, and the read-only views
are compared with class listings and probed for write-through.
"""
from vlib import canon, rawgraph, topogen, toporules

PROPERTY = 'C07'
LEVEL = 'exploration'
SHARDS = {'quick': 4, 'thorough': 16}
TIME_BUDGET = {'quick': 70, 'thorough': 1300}
RULE = ('random histories (length 15-60) of the documented building calls on an ExperimentTopology or SubstrateTopology '
        '(add/remove node of every NodeType, component of every catalogue model + storage, facility, switch, service of every '
        'ServiceType with 0-4 interfaces, port-mirror service, node-level service and its interfaces, link, connect/disconnect, '
        'peer/unpeer, sub-interface, rename, set/unset property; library-generated and caller-supplied ids); arguments come from '
        'the current model with p=0.8 and are stale/invalid otherwise. One evaluation = one call followed by the rule + view '
        'check; distinct by (history prefix hash); non-trivial when the call changed the model')
REQUIRED = ['calls', 'calls:changed-model', 'rules-evaluated', 'views-evaluated', 'view-mutation-probes', 'flavour:experiment',
            'flavour:substrate', 'store:shared', 'store:disjoint', 'op-ok:add_node', 'op-ok:add_component',
            'op-ok:add_network_service', 'op-ok:connect_interface', 'op-ok:disconnect_interface', 'op-ok:add_child_interface',
            'op-ok:peer', 'op-ok:add_link', 'op-ok:rename', 'op-ok:add_facility', 'op-ok:add_switch', 'op-ok:remove_node',
            'op-ok:remove_component', 'op-ok:remove_network_service', 'op-ok:add_port_mirror_service',
            'op-ok:service_add_interface', 'op-ok:set_property']
ASSUMPTIONS = ['arguments are well-typed (Interface objects where interfaces are expected); ServicePort interfaces are only created by '
               'connect_interface/peer, never by a direct add_interface(itype=ServicePort) of the harness',
               'rules 11/12 (exact interface counts of point-to-point / mirror services) are completion rules judged by validate(), '
               'not per call',
               'a view keyed by name is compared only on names that are unique among the listed class (names may legitimately repeat '
               'across scopes, e.g. two nodes each with a service "ns")']


def classify(suffix, op, detail, tm):
    """Mechanism key for a rule violation, from the failed clause and the call that produced it."""
    o = op['op']
    if suffix.startswith('type-not-in-published-rule:NetworkService:L2Multisite'):
        return 'C07/service-type-L2Multisite-missing-from-published-rule'
    if suffix.startswith('duplicate-name') and o == 'rename':
        return 'C07/rename-to-existing-name'
    if suffix == 'service-port-peer-count' and o == 'remove_link':
        return 'C07/remove-link-leaves-service-port-without-peer'
    if suffix == 'service-port-peer-count' and o in ('remove_node', 'remove_component', 'remove_facility', 'remove_switch'):
        return f'C07/{o}-leaves-service-port-of-connected-sub-interface'
    return f'C07/{suffix.split(":")[0]}-after-{o}'


def run_one(ctx, imp, store, flavour, seed_tag, length, voc):
    rng = ctx.subrng('hist', seed_tag)
    topogen.seed_uuid(f'{ctx.seed}/{ctx.shard}/{seed_tag}')
    imp.delete_all_graphs()
    topo = topogen.new_topology(imp, flavour)
    gid = topo.graph_model.graph_id
    state = {'prev': canon.graph_snapshot(imp, gid), 'hist': [], 'bad': False, 'n': 0}
    ctx.count('flavour:' + flavour)
    ctx.count('store:' + store)

    def hook(op, res, exc):
        state['hist'].append(op)
        state['n'] += 1
        ctx.count('calls')
        ctx.count(('op-ok:' if res == 'ok' else 'op-raise:') + op['op'])
        snap = canon.graph_snapshot(imp, gid)
        changed = snap != state['prev']
        if changed:
            ctx.count('calls:changed-model')
        state['prev'] = snap
        tm = topogen.TM(snap)
        w = {'store': store, 'flavour': flavour, 'history': list(state['hist']), 'op': op, 'outcome': res,
             'exception': None if exc is None else str(exc)[:200]}
        ctx.seen([store, flavour, len(state['hist']), str(state['hist'][-1]), seed_tag], changed)
        ctx.count('rules-evaluated')
        probs = toporules.check_rules(tm, voc)
        for suffix, clause, detail in probs[:3]:
            ctx.violation(classify(suffix, op, detail, tm), clause, dict(w, detail=detail))
        # views (cheaper: every call, mutation probe every 4th)
        ctx.count('views-evaluated')
        probe = state['n'] % 4 == 0
        if probe:
            ctx.count('view-mutation-probes')
        vp = []
        if not probs:        # a broken model makes the views meaningless
            try:
                vp = toporules.check_views(topo, tm, probe_mutation=probe)
            except Exception as e:
                vp = [('view-check-raised', 'views can be evaluated', {'error': f'{type(e).__name__}: {str(e)[:300]}'})]
        for suffix, clause, detail in vp[:2]:
            ctx.violation(f'C07/{suffix}', clause, dict(w, detail=detail))
        if probs or vp:
            state['bad'] = True
            return False
        return None
    topogen.run_history(rng, topo, length, flavour, hook, ambiguous_names_ok=True)
    return state


def run(ctx):
    imps = rawgraph.importers()
    voc, h, nrules = toporules.load_vocab()
    ctx.info['rules_file_sha1'] = h
    ctx.info['rules_in_file'] = nrules
    ctx.info['vocabulary'] = {k: v for k, v in voc.items()}
    n = ctx.pick(32, 700)
    for i in range(n):
        store = 'shared' if i % 3 != 2 else 'disjoint'
        flavour = 'experiment' if i % 2 == 0 else 'substrate'
        imp = imps[store][0]
        st = run_one(ctx, imp, store, flavour, i, ctx.rng.randrange(15, 61), voc)
        if i == 0:
            ctx.sample({'flavour': flavour, 'history': st['hist'][:8]})
        if ctx.out_of_time():
            break
    for imp, _ in imps.values():
        imp.delete_all_graphs()


def replay(ctx, case):
    imps = rawgraph.importers()
    voc, h, nrules = toporules.load_vocab()
    w = case['witness']
    imp = imps[w['store']][0]
    imp.delete_all_graphs()
    topogen.seed_uuid('replay')
    topo = topogen.new_topology(imp, w['flavour'])
    gid = topo.graph_model.graph_id
    for op in w['history']:
        try:
            topogen.execute(topo, op)
        except Exception:
            pass
        tm = topogen.TM(canon.graph_snapshot(imp, gid))
        for suffix, clause, detail in toporules.check_rules(tm, voc):
            ctx.violation(classify(suffix, op, detail, tm), clause, {'op': op, 'detail': detail})
            return


LEVEL_TEXT = ('Runtime monitoring with an invariant hook at every quiescent point: after each call of a generated topology-building '
              'history the extracted model is canonicalised and the published validation rules (vocabularies read from the rule file) '
              'plus ownership / peer / name-scope clauses are evaluated in Python; the read-only views are compared with class '
              'listings of the snapshot and probed for write-through. Both topology flavours, both stores. Held on the calls '
              'observed.')
LEVEL_NOTE = ('Trusted: the transliteration of the rules (vlib/toporules.py), networkx containers. Not covered: the Neo4j-side '
              'evaluation of the same rules, ill-typed arguments.')
TECHNIQUE = 'invariant hook after every API call of random building histories (rules + views evaluated on the live model)'
