"""C01 — model serialization round trip is lossless and re-importable.

Boundary capture + snapshot comparison: the text handed out by serialize_graph is
parsed independently of the library (lxml for GraphML, json for node-link) and the
re-imported copy's canonical snapshot (read straight from the store object) is
compared with the source's.
"""
import json
import os
import shutil
import tempfile

from vlib import canon, rawgraph

PROPERTY = 'C01'
LEVEL = 'exploration'
SHARDS = {'quick': 4, 'thorough': 16}
RULE = ('raw property graphs (1-12 nodes, random edges, 0-6 properties per node/edge, values from an adversarial '
        'alphabet: quotes, markup, CDATA terminators, non-ASCII incl. astral, leading/trailing blanks, empty string, '
        'newline/tab, numeric-looking strings, negative and >2^32 ints) built through add_node/add_link or '
        'storage.add_graph with colliding own keys, plus models built through the topology API (generated slices '
        'and substrate models, their ARMs/ADMs) and the GraphML model files shipped in the repository; each is '
        'serialized in both formats and imported through every entry point on both stores. One evaluation = one '
        '(model, format, entry point) round trip; a case is distinct by (content hash, format, entry point, store) '
        'and non-trivial if the model has >=1 edge and >=1 property value with a character outside [A-Za-z0-9]')
REQUIRED_ALL = ['scenario:interleaved', 'scenario:stitched', 'rt:GRAPHML', 'rt:JSON_NODELINK', 'ep:from_string_newid', 'ep:from_string_noid', 'ep:from_string_direct',
            'ep:from_file_newid', 'ep:from_file_direct', 'ep:topology_load_string', 'ep:topology_load_file',
            'ep:topology_load_string_newid', 'ep:topology_load_twice', 'store:shared', 'store:disjoint', 'markup-checked', 'second-generation',
            'src:raw-api', 'src:raw-storage', 'src:repo-file', 'src:topology', 'validated-copy']
ASSUMPTIONS = ['values are XML-1.0-legal text; carriage return (normalised by every conforming XML parser) and C0 '
               'controls other than tab/newline are outside the claimed domain',
               'the store snapshot is read directly from the storage object (networkx data structures are trusted)',
               'Neo4j export/import itself is not reachable without a server; Cytoscape export has no importer']

ENTRY_POINTS = ['from_string_newid', 'from_string_noid', 'from_string_direct', 'from_file_newid', 'from_file_direct',
                'topology_load_string', 'topology_load_file', 'topology_load_string_newid', 'topology_load_twice']

_counter = [0]


_filenames = __import__('itertools').count(1)


def fresh_id(tag='g'):
    """Graph ids are arbitrary strings: mostly plain words, now and then URN / URL style (with slashes), very long, or with
    blanks, quotes and non-ASCII letters."""
    _counter[0] += 1
    k = _counter[0]
    if k % 5 == 3:
        return f'urn:fabric:{tag}/{os.getpid()}/{k}'
    if k % 11 == 7:
        return f'{tag}-{os.getpid()}-{k}-' + 'x' * 280
    if k % 13 == 5:
        return f'{tag} {os.getpid()} "{k}" \u00e9\\'
    return f'{tag}-{os.getpid()}-{k}'


# --------------------------------------------------------------------------- independent parsers
def parse_graphml(text):
    """Independent GraphML reader (lxml only).  Returns (canon-like dict with GraphID kept, markup problems)."""
    from lxml import etree
    ns = '{http://graphml.graphdrawing.org/xmlns}'
    root = etree.fromstring(text.encode('utf-8'))
    keys = {}
    for k in root.findall(ns + 'key'):
        keys[k.get('id')] = (k.get('for'), k.get('attr.name'), k.get('attr.type'))

    def conv(t, txt):
        if t in ('int', 'long'):
            return int(txt)
        if t in ('float', 'double'):
            return float(txt)
        if t == 'boolean':
            return txt.strip().lower() in ('true', '1')
        return '' if txt is None else txt

    problems = []
    nodes, byxml = {}, {}
    g = root.find(ns + 'graph')
    for n in g.findall(ns + 'node'):
        props = {}
        for d in n.findall(ns + 'data'):
            f, name, t = keys[d.get('key')]
            props[name] = conv(t, d.text)
        nid = props.get('NodeID', f'<xml:{n.get("id")}>')
        byxml[n.get('id')] = nid
        if n.get('labels') != ':GraphNode:' + str(props.get('Class')):
            problems.append(f'node {nid}: labels={n.get("labels")!r} Class={props.get("Class")!r}')
        if nid in nodes:
            problems.append(f'duplicate NodeID {nid} in text')
        nodes[nid] = props
    edges = {}
    for e in g.findall(ns + 'edge'):
        props = {}
        for d in e.findall(ns + 'data'):
            f, name, t = keys[d.get('key')]
            props[name] = conv(t, d.text)
        a, b = byxml.get(e.get('source')), byxml.get(e.get('target'))
        if e.get('label') != props.get('Class') or e.get('label') is None:
            problems.append(f'edge {a}-{b}: label={e.get("label")!r} Class={props.get("Class")!r}')
        edges[canon._key(a, b)] = props
    return {'nodes': nodes, 'edges': edges}, problems


def parse_nodelink(text):
    d = json.loads(text)
    nodes, byid = {}, {}
    for n in d['nodes']:
        p = {k: v for k, v in n.items() if k != 'id'}
        nid = p.get('NodeID', f'<id:{n["id"]}>')
        byid[n['id']] = nid
        nodes[nid] = p
    edges = {}
    for e in d.get('links', d.get('edges', [])):
        p = {k: v for k, v in e.items() if k not in ('source', 'target')}
        edges[canon._key(byid.get(e['source']), byid.get(e['target']))] = p
    return {'nodes': nodes, 'edges': edges}, []


def strip_gid(c):
    return {'nodes': {k: {p: v for p, v in d.items() if p != 'GraphID'} for k, d in c['nodes'].items()},
            'edges': c['edges']}


def gids_of(c):
    return {d.get('GraphID') for d in c['nodes'].values()}


# --------------------------------------------------------------------------- the round trip
class Env:
    def __init__(self, ctx):
        self.ctx = ctx
        self.tmp = tempfile.mkdtemp(prefix='vc01-')
        self.imps = rawgraph.importers()

    def close(self):
        shutil.rmtree(self.tmp, ignore_errors=True)


def do_import(env, store, ep, text, src_gid):
    """Returns (property graph object, expected graph id or None if library-chosen)."""
    from fim.user.topology import ExperimentTopology
    imp, _ = env.imps[store]
    if ep == 'from_string_newid':
        gid = fresh_id('imp')
        return imp.import_graph_from_string(graph_string=text, graph_id=gid), gid
    if ep == 'from_string_noid':
        return imp.import_graph_from_string(graph_string=text), None
    if ep == 'from_string_direct':
        return imp.import_graph_from_string_direct(graph_string=text), src_gid
    # half of the file imports go through ONE path that is overwritten each time (a user saving to 'slice.graphml' again)
    reuse = env.ctx.rng.random() < 0.5
    path = os.path.join(env.tmp, 'model.txt' if reuse else 'f-%d.txt' % next(_filenames))
    if reuse and ep in ('from_file_newid', 'from_file_direct', 'topology_load_file'):
        env.ctx.count('file-import-through-reused-path')
    if ep in ('from_file_newid', 'from_file_direct', 'topology_load_file'):
        with open(path, 'w', encoding='utf-8') as f:
            f.write(text)
    try:
        if ep == 'from_file_newid':
            gid = fresh_id('imp')
            return imp.import_graph_from_file(graph_file=path, graph_id=gid), gid
        if ep == 'from_file_direct':
            return imp.import_graph_from_file_direct(graph_file=path), src_gid
        t = ExperimentTopology(importer=imp)
        if ep == 'topology_load_string':
            t.load(graph_string=text)
            return t.graph_model, src_gid
        if ep == 'topology_load_file':
            t.load(file_name=path)
            return t.graph_model, src_gid
        if ep == 'topology_load_twice':
            # the same text loaded twice into ONE topology object (a user reloading a slice in place): the second load replaces
            # the model the object holds under the very id it is importing
            t.load(graph_string=text)
            t.load(graph_string=text)
            return t.graph_model, src_gid
        if ep == 'topology_load_string_newid':
            gid = fresh_id('imp')
            t.load(graph_string=text, new_graph_id=gid)
            return t.graph_model, gid
    finally:
        if os.path.exists(path):
            os.unlink(path)
    raise AssertionError(ep)


def round_trip(env, store, graph, src_desc, fmts=None, eps=None):
    """graph: a property graph object living in env.imps[store]; judged on every format x entry point."""
    from fim.graph.abc_property_graph import GraphFormat
    ctx = env.ctx
    imp, _ = env.imps[store]
    gid = graph.graph_id
    base = canon.graph_snapshot(imp, gid)
    if base is None:
        # a generated model that ended up empty (e.g. every element was removed again): nothing to serialize
        ctx.count('source-model-empty-skipped')
        return
    chash = __import__('vlib.core', fromlist=['digest']).digest(base)
    try:
        graph.validate_graph()
        valid = True
    except Exception:
        valid = False
    nontriv = src_desc.get('nontrivial', True)
    for fmt in (fmts or [GraphFormat.GRAPHML, GraphFormat.JSON_NODELINK]):
        w = {'store': store, 'format': fmt.name, 'source': src_desc.get('source'), 'case': src_desc.get('case')}
        try:
            text = graph.serialize_graph(format=fmt)
        except Exception as e:
            ctx.violation(f'C01/serialize-raises-{fmt.name}', f'serialize_graph raised {type(e).__name__}: {e}',
                          dict(w, graph=base))
            continue
        ctx.count('rt:' + fmt.name)
        parser = parse_graphml if fmt == GraphFormat.GRAPHML else parse_nodelink
        try:
            parsed, problems = parser(text)
        except Exception as e:
            ctx.violation(f'C01/text-unparsable-{fmt.name}', f'serialized text cannot be parsed independently: {e}',
                          dict(w, text=text[:2000]))
            continue
        if fmt == GraphFormat.GRAPHML:
            ctx.count('markup-checked')
            if problems:
                ctx.violation('C01/neo4j-label-markup', 'every node carries labels=":GraphNode:<Class>" and every edge '
                              'label="<Class>"', dict(w, problems=problems[:5]))
        # the text itself carries the content
        if not canon.typed_equal(strip_gid(parsed), base):
            ctx.violation(f'C01/text-content-{fmt.name}', 'serialized text carries exactly the model content',
                          dict(w, diff=canon.diff(base, strip_gid(parsed)), graph=base))
            continue
        for ep in (eps or ENTRY_POINTS):
            ww = dict(w, entry_point=ep)
            ctx.count('ep:' + ep)
            ctx.count('store:' + store)
            ctx.seen([chash, fmt.name, ep, store], nontriv)
            before_all, _ = canon.store_snapshot(imp)
            try:
                g2, want_gid = do_import(env, store, ep, text, gid)
            except Exception as e:
                ctx.violation(f'C01/import-raises-{ep}', f'import of library-produced text raised {type(e).__name__}: {e}',
                              dict(ww, graph=base))
                continue
            try:
                if g2 is None:
                    ctx.violation(f'C01/import-returns-none-{ep}', 'import returned no graph', ww)
                    continue
                if want_gid is not None and g2.graph_id != want_gid:
                    ctx.violation(f'C01/graph-id-{ep}', 'graph id is the requested one (or the original for _direct)',
                                  dict(ww, want=want_gid, got=g2.graph_id))
                after_all, _ = canon.store_snapshot(imp)
                copy = after_all.get(g2.graph_id)
                if copy is None or not canon.typed_equal(copy, base):
                    ctx.violation(f'C01/copy-differs-{fmt.name}', 'imported copy has the same node ids, classes, '
                                  'property values (typed), edges and edge classes',
                                  dict(ww, diff=canon.diff(base, copy), graph=base))
                    continue
                # GraphID attribute on every node of the copy
                rs = canon.raw_storage(imp)
                # second generation: serialize the copy again, same content
                ctx.count('second-generation')
                text2 = g2.serialize_graph(format=fmt)
                parsed2, problems2 = parser(text2)
                if gids_of(parsed2) != {g2.graph_id}:
                    ctx.violation(f'C01/graph-id-attr-{ep}', 'every node of the copy carries the copy\'s graph id',
                                  dict(ww, ids=sorted(map(str, gids_of(parsed2)))))
                if not canon.typed_equal(strip_gid(parsed2), strip_gid(parsed)) or problems2:
                    ctx.violation(f'C01/second-generation-{fmt.name}', 'serializing the copy again gives the same content',
                                  dict(ww, diff=canon.diff(strip_gid(parsed), strip_gid(parsed2)), problems=problems2[:3]))
                if valid:
                    ctx.count('validated-copy')
                    try:
                        g2.validate_graph()
                    except Exception as e:
                        ctx.violation('C01/copy-fails-validation', f'validate_graph() on the imported copy raised {e}', ww)
                # public getters agree with the snapshot (observe_at: get_node_properties / list_all_node_ids)
                ids = sorted(g2.list_all_node_ids())
                if ids != sorted(base['nodes']):
                    ctx.violation('C01/list-node-ids', 'list_all_node_ids of the copy', dict(ww, got=ids))
            finally:
                if g2 is not None and g2.graph_id != gid:
                    imp.delete_graph(graph_id=g2.graph_id)


def scenario_interleaved(env, store, graph, src_desc):
    """Programs of several imports: a copy of the model stays in the store, the source grows by one node, and is then
    serialized and imported again KEEPING its graph id (direct import).  Both the re-imported model and the retained
    copy must hold exactly what they held, and the copy must still re-serialize to its own content."""
    from fim.graph.abc_property_graph import GraphFormat
    ctx = env.ctx
    imp, cls = env.imps[store]
    gid = graph.graph_id
    rng = ctx.rng
    fmt = rng.choice([GraphFormat.GRAPHML, GraphFormat.JSON_NODELINK])
    parser = parse_graphml if fmt == GraphFormat.GRAPHML else parse_nodelink
    w = {'store': store, 'format': fmt.name, 'source': src_desc.get('source'), 'case': src_desc.get('case'), 'scenario': 'interleaved'}
    if canon.graph_snapshot(imp, gid) is None:
        # a generated model that ended up empty (every element was removed again): nothing to serialize, as in round_trip
        ctx.count('source-model-empty-skipped')
        return
    try:
        text1 = graph.serialize_graph(format=fmt)
        copy_id = fresh_id('keep')
        imp.import_graph_from_string(graph_string=text1, graph_id=copy_id)
        copy_before = canon.graph_snapshot(imp, copy_id)
        graph.add_node(node_id=fresh_id('late-node'), label='NetworkNode', props={'Name': 'late', 'Type': 'VM'})
        want = canon.graph_snapshot(imp, gid)
        text2 = graph.serialize_graph(format=fmt)
        ep = rng.choice(['from_string_direct', 'from_file_direct', 'topology_load_string', 'topology_load_file'])
        g2, _ = do_import(env, store, ep, text2, gid)
        ctx.count('scenario:interleaved')
        ctx.seen(['interleaved', __import__('vlib.core', fromlist=['digest']).digest(want), fmt.name, ep, store], src_desc.get('nontrivial', True))
        got = canon.graph_snapshot(imp, gid)
        if not canon.typed_equal(got, want):
            ctx.violation('C01/reimport-keeping-id-differs', 're-importing a model under its own graph id while another model lives in the '
                          'store yields exactly the same content', dict(w, entry_point=ep, diff=canon.diff(want, got)))
        copy_after = canon.graph_snapshot(imp, copy_id)
        if not canon.typed_equal(copy_after, copy_before):
            ctx.violation('C01/reimport-damages-retained-copy', 'a copy imported earlier keeps its content when the source is imported again',
                          dict(w, entry_point=ep, diff=canon.diff(copy_before, copy_after)))
        else:
            c2 = cls(graph_id=copy_id, importer=imp)
            parsed, _ = parser(c2.serialize_graph(format=fmt))
            if not canon.typed_equal(strip_gid(parsed), copy_before):
                ctx.violation('C01/retained-copy-reserializes-differently', 'serializing the copy again gives the same content',
                              dict(w, diff=canon.diff(copy_before, strip_gid(parsed))))
    except Exception as e:
        ctx.violation('C01/interleaved-scenario-raises', f'{type(e).__name__}: {str(e)[:200]}', w)


def scenario_stitched(env, store, graph, src_desc):
    """The model is stitched to another model of the same store the public way (merge_nodes on a shared NodeID: the other
    model's edges are re-pointed onto this model's node, so edges now cross between two graphs - the state a combined model
    is in between merging and re-homing).  Serializing THIS model must still give exactly this model."""
    from fim.graph.abc_property_graph import GraphFormat
    ctx = env.ctx
    imp, cls = env.imps[store]
    if store != 'shared':
        return
    gid = graph.graph_id
    base = canon.graph_snapshot(imp, gid)
    if base is None or not base['nodes']:
        return
    w = {'store': store, 'source': src_desc.get('source'), 'case': src_desc.get('case'), 'scenario': 'stitched'}
    other_id = fresh_id('other')
    try:
        imp.import_graph_from_string(graph_string=graph.serialize_graph(format=GraphFormat.GRAPHML), graph_id=other_id)
        other = cls(graph_id=other_id, importer=imp)
        # a node with neighbours, so that edges really cross afterwards
        cands = set()
        for k in base['edges']:
            try:
                cands.update(json.loads(k.replace('<dup>', '')))
            except ValueError:
                pass
        cands = sorted(c for c in cands if c in base['nodes'])
        if not cands:
            return
        x = ctx.rng.choice(cands)
        graph.merge_nodes(node_id=x, other_graph=other)
    except Exception as e:
        ctx.count('scenario:stitched-setup-refused')
        imp.delete_graph(graph_id=other_id)
        return
    _, facts = canon.store_snapshot(imp)
    if not facts.get('cross_graph_edges'):
        ctx.count('scenario:stitched-without-crossing-edges')
    else:
        ctx.count('scenario:stitched')
        fmt = ctx.rng.choice([GraphFormat.GRAPHML, GraphFormat.JSON_NODELINK])
        round_trip(env, store, graph, dict(src_desc, case=[src_desc.get('case'), 'stitched-at', x]), fmts=[fmt],
                   eps=ctx.rng.sample(ENTRY_POINTS, 2))
    imp.delete_graph(graph_id=other_id)


# --------------------------------------------------------------------------- sources
def src_raw(env, rng, i):
    store = 'shared' if i % 2 == 0 else 'disjoint'
    imp, cls = env.imps[store]
    desc = rawgraph.gen_graph(rng, selfloops=rng.choice([0.0, 0.0, 0.15]))
    gid = fresh_id('raw')
    route = rng.randrange(3)
    if route == 0:
        g = cls(graph_id=gid, importer=imp)
        rawgraph.build_via_api(g, desc)
        env.ctx.count('src:raw-api')
    else:
        # a second graph with colliding own keys is put in first, so that relabelling matters
        other = rawgraph.gen_graph(rng, 1, 4)
        imp.storage.add_graph(fresh_id('other'), rawgraph.to_nx(other, key_style=route - 1))
        imp.storage.add_graph(gid, rawgraph.to_nx(desc, key_style=route - 1))
        g = cls(graph_id=gid, importer=imp)
        env.ctx.count('src:raw-storage')
    exp = rawgraph.expected_canon(desc)
    got = canon.graph_snapshot(imp, gid)
    if not canon.typed_equal(got, exp):
        env.ctx.violation('C01/build-differs', 'graph built through the API equals its description',
                          {'store': store, 'route': route, 'diff': canon.diff(exp, got), 'desc': desc})
    return store, g, {'source': f'raw/route{route}', 'case': desc, 'nontrivial': rawgraph.nontrivial(desc)}


def repo_files():
    from vlib import boot
    out = []
    for d in (boot.REPO, os.path.join(boot.REPO, 'test', 'models')):
        if os.path.isdir(d):
            for fn in sorted(os.listdir(d)):
                if fn.endswith('.graphml'):
                    out.append(os.path.join(d, fn))
    return out


def src_file(env, path, store):
    imp, cls = env.imps[store]
    gid = fresh_id('file')
    g = imp.import_graph_from_file(graph_file=path, graph_id=gid)
    env.ctx.count('src:repo-file')
    return store, g, {'source': 'file:' + os.path.basename(path), 'case': os.path.basename(path), 'nontrivial': True}


def src_topology(env, rng, i):
    """Models reachable through the topology-building API (shared with C07/C13 generators)."""
    from vlib import topogen
    store = 'shared' if i % 2 == 0 else 'disjoint'
    imp, cls = env.imps[store]
    kind = rng.choice(['slice', 'slice', 'substrate', 'arm', 'adm'])
    if store == 'disjoint' and kind in ('arm', 'adm'):
        kind = 'substrate'
    g, script = topogen.make_model(rng, imp, kind)
    env.ctx.count('src:topology')
    env.ctx.count('src:topology-' + kind)
    return store, g, {'source': 'topology/' + kind, 'case': script, 'nontrivial': True}


def run(ctx):
    env = Env(ctx)
    try:
        rng = ctx.rng
        for imp, _ in env.imps.values():
            imp.delete_all_graphs()
        n_raw = ctx.pick(60, 1200)
        n_topo = ctx.pick(10, 120)
        files = repo_files()
        ctx.info['repo_model_files'] = [os.path.basename(f) for f in files]
        # repo files: spread over shards
        for k, path in enumerate(files):
            if k % ctx.nshards != ctx.shard:
                continue
            if ctx.quick and os.path.getsize(path) > 300000:
                ctx.count('repo-file-skipped-in-quick(large)')
                continue
            for store in ('shared', 'disjoint'):
                try:
                    s, g, d = src_file(env, path, store)
                except Exception as e:
                    ctx.count('repo-file-not-importable')
                    continue
                round_trip(env, s, g, d, eps=None if not ctx.quick else ENTRY_POINTS[:5])
                env.imps[s][0].delete_all_graphs()
        for i in range(n_raw):
            s, g, d = src_raw(env, rng, i)
            if i < 2:
                ctx.sample({'store': s, 'desc': d['case']})
            round_trip(env, s, g, d)
            if i % 3 == 0:
                scenario_interleaved(env, s, g, d)
            if i % 3 == 1:
                scenario_stitched(env, s, g, d)
            env.imps[s][0].delete_all_graphs()
            if ctx.out_of_time():
                break
        for i in range(n_topo):
            try:
                s, g, d = src_topology(env, rng, i)
            except ImportError:
                break
            round_trip(env, s, g, d)
            scenario_interleaved(env, s, g, d)
            env.imps[s][0].delete_all_graphs()
            if ctx.out_of_time():
                break
    finally:
        env.close()


def replay(ctx, case):
    env = Env(ctx)
    try:
        w = case['witness']
        desc = w.get('case') or w.get('desc')
        src = str(w.get('source') or '')
        if isinstance(desc, list) and desc and isinstance(desc[-1], str) and isinstance(desc[0], list):
            desc = desc[0]                                   # [[script], 'stitched-at', node] of the stitched scenario
        if isinstance(desc, list) and src in ('topology/slice', 'topology/substrate') and all(isinstance(o, dict) and 'op' in o for o in desc):
            # a model built through the topology API: run its build script again, then every scenario
            from vlib import topogen
            store = w.get('store', 'shared')
            imp, cls = env.imps[store]
            imp.delete_all_graphs()
            topogen.seed_uuid('replay')
            topo = topogen.new_topology(imp, 'substrate' if src.endswith('substrate') else 'experiment')
            for op in desc:
                try:
                    topogen.execute(topo, op)
                except Exception:
                    pass
            d = {'source': src, 'case': desc, 'nontrivial': True}
            round_trip(env, store, topo.graph_model, d)
            scenario_interleaved(env, store, topo.graph_model, d)
            scenario_stitched(env, store, topo.graph_model, d)
            return
        if not isinstance(desc, dict) or 'nodes' not in desc:
            ctx.mark_inconclusive('replay supports raw-graph and topology-script witnesses only; re-run the tier with the recorded seed')
            return
        store = w.get('store', 'shared')
        imp, cls = env.imps[store]
        imp.delete_all_graphs()
        g = cls(graph_id=fresh_id('replay'), importer=imp)
        rawgraph.build_via_api(g, desc)
        round_trip(env, store, g, {'source': 'replay', 'case': desc})
    finally:
        env.close()


LEVEL_TEXT = ('Runtime monitoring by boundary capture and snapshot comparison: every serialized text is parsed '
              'independently (lxml / json) and must carry exactly the model content and the Neo4j label markup; every '
              'import entry point (string/file, new id / library id / direct, Topology.load x3) on both in-memory '
              'stores must reproduce the canonical snapshot (typed values), carry the right graph id, re-serialize to '
              'the same content and pass validate_graph when the source did. Held on the executions observed.')
LEVEL_NOTE = ('Trusted: lxml, json, networkx containers, the harness generators. Not covered: Neo4j-side import, '
              'Cytoscape export, carriage returns and other characters XML itself normalises or forbids.')
TECHNIQUE = 'boundary capture + canonical-snapshot comparison over seeded adversarial graphs and API-built models'

try:
    from vlib import topogen as _tg  # noqa
    REQUIRED = REQUIRED_ALL
except ImportError:
    REQUIRED = [r for r in REQUIRED_ALL if r != 'src:topology']
