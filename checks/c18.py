"""C18 - instance sizing is sufficient and minimal; components match the catalogue.

Part A (instance sizing).  The real InstanceCatalog.map_capacities_to_instance /
get_instance_capacities / list_instances are driven with every (core, ram, disk)
request of a grid derived from the catalogue values; every answer is judged by a
brute-force Pareto oracle over the catalogue that is read here, independently,
from fim/slivers/data/instance_sizes.json (json.load with object_pairs_hook, no
library loader).

Part B (component catalogue).  ComponentCatalog.generate_component is driven for
every catalogue entry (and every alias in "AlsoModels") x naming mode x id /
label / service-id / parent-name argument combination; the generated sliver tree
is compared clause by clause with an expectation computed from
fim/slivers/data/component_catalog.json read independently.  ComponentModelType
members are compared 1:1 with the catalogue entries.
"""
import json
import os
import re

from vlib import boot

PROPERTY = 'C18'
LEVEL = 'exploration'
SHARDS = {'quick': 4, 'thorough': 16}
EXHAUSTIVE = {'quick': True, 'thorough': True}
RULE = ('A: every (core, ram, disk) request of a grid: quick = per dimension the distinct catalogue values, their +-1 '
        'neighbours, 0 and 2^31 (exhaustive product, sharded by index); thorough = per dimension the dense range '
        '0..max+2 when max+2 <= 300, otherwise the quick values (exhaustive product); a deterministic subset of the '
        'requests (every 5th quick, every 3rd thorough) is repeated with extra non-zero fields (all Capacities fields '
        'other than core/ram/disk, discovered at run time). A request is distinct by its field dictionary and '
        'non-trivial when at least one of core/ram/disk is > 0. '
        'B: every catalogue entry x {by ComponentModelType, by ctype+Model, by ctype+each AlsoModels alias} x '
        '{no ids, ids} x {no labels, mac only, scalar bdf+mac, list bdf+mac/vlan lists of k VFs, list bdf only} x '
        '{no service id, service id} x {no parent name, parent name} x component names, plus 2 (quick) / 6 (thorough) '
        'seeded random label shapes per entry (1..130 VFs, list/scalar mac, vlan lists, ipv4); distinct by the full argument description; all are non-trivial')
REQUIRED = ['map:request', 'map:fits', 'map:nothing-fits', 'map:zero-dimension', 'map:extra-fields',
            'clause:sufficient', 'clause:minimal', 'clause:largest-otherwise', 'clause:extra-fields-ignored',
            'catalog:name-capacities', 'catalog:get-instance-capacities', 'catalog:list-instances',
            'comp:generated', 'comp:by-model-type', 'comp:by-ctype-model', 'comp:with-ids', 'comp:without-ids',
            'comp:labels-list-bdf', 'comp:labels-scalar-bdf', 'comp:labels-mac-only', 'comp:no-labels',
            'comp:with-interfaces', 'comp:without-interfaces', 'comp:uncatalogued-raises',
            'enum:bijection']
ASSUMPTIONS = ['the catalogue files fim/slivers/data/instance_sizes.json and component_catalog.json of the tree under '
               'test are the specification; the oracle parses them itself (json + object_pairs_hook)',
               '"largest size" = the last catalogue entry as the code documents; the oracle verifies at run time '
               'that this entry dominates every other entry, otherwise that clause is reported as unspecified',
               'interface names are <component name>-<port> (what the code and the substrate tests do; the docstring '
               'of generate_component says "_")',
               'interface kind: SmartNIC/FPGA -> DedicatedPort, SharedNIC -> SharedPort; other component types with '
               'interfaces are unspecified (none in the present catalogue)',
               'unit count of an interface = number of bdf labels supplied for it when bdf is a list, 1 otherwise',
               'held on the executions observed, not a proof']

DIMS = ('core', 'ram', 'disk')
BIG = 2 ** 31
NAME_RE = re.compile(r'^fabric\.c(\d+)\.m(\d+)\.d(\d+)$')
KNOWN_COMPONENT_KEYS = {'Model', 'AlsoModels', 'Type', 'Details', 'Interfaces', 'Capacity'}
# interface kind by component type (from the property statement / DESIGN, not computed from the code)
KIND = {'SmartNIC': 'DedicatedPort', 'FPGA': 'DedicatedPort', 'SharedNIC': 'SharedPort'}


# ----------------------------------------------------------------------
# independent readers
def data_path(fn):
    return os.path.join(boot.REPO, 'fim', 'slivers', 'data', fn)


def read_sizes():
    """-> (entries [(name, core, ram, disk)], problems [str], extra_keys set)."""
    with open(data_path('instance_sizes.json')) as f:
        pairs = json.load(f, object_pairs_hook=lambda p: p)
    ents, problems, extra = [], [], set()
    seen = set()
    for name, val in pairs:
        d = dict(val)
        if len(d) != len(val):
            problems.append(f'duplicate field in {name}')
        if name in seen:
            problems.append(f'duplicate name {name}')
        seen.add(name)
        extra |= set(d) - set(DIMS)
        ents.append((name, d.get('core', 0), d.get('ram', 0), d.get('disk', 0)))
    return ents, problems, extra


def read_components():
    with open(data_path('component_catalog.json')) as f:
        raw = json.load(f, object_pairs_hook=lambda p: p)
    out = []
    for pairs in raw:
        e = {}
        for k, v in pairs:
            if k == 'Interfaces':
                v = list(v)          # ordered (port, speed-string) pairs
            e[k] = v
        out.append(e)
    return out


def massage(s):
    """Python-friendly member name: blanks and dashes become underscores."""
    return ''.join('_' if ch in ' -' else ch for ch in s)


# ----------------------------------------------------------------------
# Part A
class SizeOracle:
    def __init__(self):
        self.ents, self.problems, self.extra_keys = read_sizes()
        self.by_name = {}
        for e in self.ents:
            self.by_name.setdefault(e[0], e[1:])
        last = self.ents[-1]
        self.last = last
        self.largest_defined = all(o[1] <= last[1] and o[2] <= last[2] and o[3] <= last[3] for o in self.ents)

    def values(self, i):
        return sorted({e[1 + i] for e in self.ents})

    def satisfying(self, c, r, d):
        return [e for e in self.ents if e[1] >= c and e[2] >= r and e[3] >= d]


def grid_axes(orc, quick):
    axes = []
    for i in range(3):
        vals = orc.values(i)
        s = {0, BIG}
        for v in vals:
            s |= {v - 1, v, v + 1}
        if not quick and max(vals) + 2 <= 300:
            s |= set(range(0, max(vals) + 3))
        axes.append(sorted(x for x in s if x >= 0))
    return axes


def extra_fields():
    from fim.slivers.capacities_labels import Capacities
    return [f for f in Capacities().__dict__ if f not in DIMS]


def judge_map(ctx, orc, cat, req, extra=None, plain_answer=None):
    """One request through the real mapper, judged against the brute-force oracle."""
    from fim.slivers.capacities_labels import Capacities
    c, r, d = req
    kw = {'core': c, 'ram': r, 'disk': d}
    if extra:
        kw.update(extra)
    w = {'part': 'map', 'request': kw}
    ctx.count('map:request')
    ctx.seen(kw, c > 0 or r > 0 or d > 0)
    if 0 in req:
        ctx.count('map:zero-dimension')
    if extra:
        ctx.count('map:extra-fields')
    try:
        cap = Capacities(**kw)
        name = cat.map_capacities_to_instance(cap=cap)
    except Exception as e:
        ctx.violation('C18/map-raises', f'map_capacities_to_instance raised {type(e).__name__}: {e}', w)
        return None
    w['answer'] = name
    if name not in orc.by_name:
        ctx.violation('C18/map-unknown-name', 'the answer is the name of a catalogue size', w)
        return name
    a = orc.by_name[name]
    w['answer_capacities'] = dict(zip(DIMS, a))
    sat = orc.satisfying(c, r, d)
    if sat:
        ctx.count('map:fits')
        ctx.count('clause:sufficient')
        if not (a[0] >= c and a[1] >= r and a[2] >= d):
            ctx.violation('C18/map-insufficient',
                          'the returned size satisfies the request whenever some size does',
                          dict(w, a_satisfying_size=sat[0][0], satisfying_sizes=len(sat)))
        else:
            ctx.count('clause:minimal')
            dom = [e for e in sat if e[1] <= a[0] and e[2] <= a[1] and e[3] <= a[2] and e[1:] != a]
            if dom:
                ctx.violation('C18/map-not-minimal',
                              'no other satisfying size is <= the answer in core, ram and disk',
                              dict(w, smaller_satisfying_size=dom[0][0],
                                   smaller_capacities=dict(zip(DIMS, dom[0][1:])), n_smaller=len(dom)))
    else:
        ctx.count('map:nothing-fits')
        if orc.largest_defined:
            ctx.count('clause:largest-otherwise')
            if a != orc.last[1:]:
                ctx.violation('C18/map-not-largest-when-nothing-fits',
                              'when no size satisfies the request the largest size is returned',
                              dict(w, largest=orc.last[0]))
        else:
            ctx.count('clause:largest-unspecified')
    if extra is not None and plain_answer is not None:
        ctx.count('clause:extra-fields-ignored')
        if name != plain_answer:
            ctx.violation('C18/map-depends-on-extra-field',
                          'fields other than core/ram/disk of the request do not change the answer',
                          dict(w, answer_without_extra_fields=plain_answer))
    return name


def static_sizes(ctx, orc, cat):
    """name <-> capacities for every catalogue entry, through the JSON and through the library."""
    from fim.slivers.capacities_labels import Capacities
    fields = list(Capacities().__dict__)
    for p in orc.problems:
        ctx.violation('C18/catalog-duplicate-name', 'every size name occurs once in instance_sizes.json',
                      {'part': 'sizes', 'problem': p})
    if orc.extra_keys:
        ctx.mark_inconclusive(f'instance_sizes.json has fields beyond core/ram/disk: {sorted(orc.extra_keys)}; '
                              'minimality "in every dimension" is not defined for them by this check')
    ctx.info['sizes'] = len(orc.ents)
    ctx.info['size_values_per_dimension'] = {DIMS[i]: len(orc.values(i)) for i in range(3)}
    ctx.info['largest_well_defined'] = [bool(orc.largest_defined)]
    if not orc.largest_defined:
        ctx.info['largest_note'] = ['the last catalogue entry does not dominate every other entry: the clause '
                                    '"largest size otherwise" is unspecified and was not judged']
    try:
        listed = cat.list_instances()
        listed_names = list(listed.keys())
    except Exception as e:
        ctx.violation('C18/list-instances-raises', f'list_instances raised {type(e).__name__}: {e}', {'part': 'sizes'})
        listed, listed_names = {}, []
    ctx.count('catalog:list-instances')
    jnames = [e[0] for e in orc.ents]
    if sorted(listed_names) != sorted(set(jnames)):
        ctx.violation('C18/list-instances-differs', 'list_instances lists exactly the catalogue names',
                      {'part': 'sizes', 'missing': [n for n in jnames if n not in listed_names][:5],
                       'unexpected': [n for n in listed_names if n not in orc.by_name][:5],
                       'first_listed': listed_names[:3], 'first_in_file': jnames[:3],
                       'last_listed': listed_names[-1:], 'last_in_file': jnames[-1:]})
    for name, c, r, d in orc.ents:
        ctx.count('catalog:name-capacities')
        w = {'part': 'sizes', 'name': name, 'json': {'core': c, 'ram': r, 'disk': d}}
        m = NAME_RE.match(name)
        if not m or tuple(int(x) for x in m.groups()) != (c, r, d):
            ctx.violation('C18/catalog-name-capacities-disagree',
                          'the name fabric.c<core>.m<ram>.d<disk> states the capacities of the catalogue entry', w)
        exp = {f: 0 for f in fields}
        exp.update(core=c, ram=r, disk=d)
        for how, getter in (('get_instance_capacities', lambda: cat.get_instance_capacities(instance_type=name)),
                            ('list_instances', lambda: listed.get(name))):
            if how == 'get_instance_capacities':
                ctx.count('catalog:get-instance-capacities')
            try:
                got = getter()
            except Exception as e:
                ctx.violation('C18/get-instance-capacities-raises', f'{how} raised {type(e).__name__}: {e}', w)
                continue
            gd = dict(got.__dict__) if isinstance(got, Capacities) else None
            if gd != exp:
                ctx.violation('C18/library-capacities-differ-from-catalog',
                              f'{how}(name) returns the capacities the catalogue file gives for that name',
                              dict(w, via=how, observed=gd, expected=exp))
    # names that are not in the catalogue -> None (documented "or None")
    for bogus in ('fabric.c3.m3.d3', 'fabric.c4.m4.d11', '', 'fabric.c64.m256.d1000 '):
        if bogus in orc.by_name:
            continue
        ctx.count('catalog:unknown-name')
        try:
            got = cat.get_instance_capacities(instance_type=bogus)
        except Exception as e:
            ctx.violation('C18/get-instance-capacities-raises',
                          f'get_instance_capacities raised {type(e).__name__}: {e}', {'part': 'sizes', 'name': bogus})
            continue
        if got is not None:
            ctx.violation('C18/unknown-name-not-none', 'get_instance_capacities of an uncatalogued name is None',
                          {'part': 'sizes', 'name': bogus, 'observed': repr(got)})


def run_sizes(ctx):
    from fim.slivers.instance_catalog import InstanceCatalog
    orc = SizeOracle()
    cat = InstanceCatalog()
    if ctx.shard == 0:
        static_sizes(ctx, orc, cat)
    axes = grid_axes(orc, ctx.quick)
    total = len(axes[0]) * len(axes[1]) * len(axes[2])
    if ctx.shard == 0:
        ctx.info['grid'] = {'core_values': len(axes[0]), 'ram_values': len(axes[1]), 'disk_values': len(axes[2]),
                            'requests': total}
    xf = extra_fields()
    ctx.info['extra_fields'] = xf
    every = ctx.pick(5, 3)
    answers = set()
    n1, n2 = len(axes[1]), len(axes[2])
    done = 0
    for idx in range(ctx.shard, total, ctx.nshards):
        c = axes[0][idx // (n1 * n2)]
        r = axes[1][(idx // n2) % n1]
        d = axes[2][idx % n2]
        name = judge_map(ctx, orc, cat, (c, r, d))
        done += 1
        if name is not None:
            answers.add(name)
        if done <= 1:
            ctx.sample({'request': {'core': c, 'ram': r, 'disk': d}, 'answer': name})
        if xf and (idx // ctx.nshards) % every == 0:
            # extra non-zero fields: one field alone (rotating) or all of them
            k = (idx // ctx.nshards) // every
            if k % (len(xf) + 1) == len(xf):
                extra = {f: 1 + (k + j) % 7 for j, f in enumerate(xf)}
            else:
                extra = {xf[k % (len(xf) + 1)]: (1, 100, BIG)[k % 3]}
            judge_map(ctx, orc, cat, (c, r, d), extra=extra, plain_answer=name)
        if ctx.out_of_time():
            ctx.mark_inconclusive(f'time budget reached after {done} of the requests of shard {ctx.shard}: '
                                  'the grid was not swept exhaustively')
            break
    ctx.info['distinct_answers_seen'] = sorted(answers)
    ctx.info['requests_evaluated'] = done


# ----------------------------------------------------------------------
# Part B
def label_specs(ctx, nports):
    """Label argument shapes: name -> list (one per port) of Labels kwargs (JSON-able)."""
    def mac(p, i):
        return '0c:42:a1:%02x:%02x:%02x' % (p + 1, i // 256, i % 256)

    def bdf(p, i):
        return '0000:%02x:00.%x' % (0x40 + p, i)

    specs = {
        'none': None,
        'mac-only': [{'mac': mac(p, 0), 'vlan_range': '1-4096'} for p in range(nports)],
        'scalar-bdf': [{'bdf': bdf(p, 0), 'mac': mac(p, 0)} for p in range(nports)],
        'list-bdf-1': [{'bdf': [bdf(p, 2)], 'mac': [mac(p, 2)], 'vlan': ['1001']} for p in range(nports)],
        # a different number of VFs behind every port, so that a count taken from the wrong port is visible
        'list-bdf-k': [{'bdf': [bdf(p, 2 + i) for i in range(3 + p)], 'mac': [mac(p, 2 + i) for i in range(3 + p)],
                        'vlan': [str(1001 + i) for i in range(3 + p)]} for p in range(nports)],
        'list-bdf-only': [{'bdf': [bdf(p, 1 + i) for i in range(2 + 2 * p)]} for p in range(nports)],
        # what every port has in common, passed as ONE Labels object for all of them
        'one-object-for-all-ports': [{'vlan_range': '1-4096'} for p in range(nports)],
    }
    if nports:
        rng = ctx.rng
        for j in range(ctx.pick(2, 6)):
            lst = []
            for p in range(nports):
                k = rng.choice([1, 2, 4, 7, 16, 64, 130])
                kw = {'bdf': ['%04x:%02x:%02x.%x' % (rng.randrange(4), rng.randrange(256), rng.randrange(32), i)
                              for i in range(k)]}
                if rng.random() < 0.7:
                    kw['mac'] = [mac(p, rng.randrange(65536)) for _ in range(k)] if rng.random() < 0.8 \
                        else mac(p, rng.randrange(65536))
                if rng.random() < 0.5:
                    kw['vlan'] = [str(rng.randrange(1, 4096)) for _ in range(k)]
                if rng.random() < 0.3:
                    kw['ipv4'] = '10.%d.%d.1' % (rng.randrange(256), rng.randrange(256))
                lst.append(kw)
            specs['random-%d' % j] = lst
    return specs


def expected_tree(entry, args):
    """What the catalogue entry + the arguments determine (None = not determined)."""
    name = args['name']
    exp = {'type': entry['Type'], 'model': entry['Model'], 'details': entry['Details'], 'name': name}
    if 'Interfaces' not in entry:
        exp['service'] = None
        return exp
    fpga = entry['Type'] == 'FPGA'
    suffix = '-l2p4' if fpga else '-l2ovs'
    svc = {'type': 'P4' if fpga else 'OVS',
           'name': (args['parent'] + '-' if args.get('parent') else '') + name + suffix,
           'node_id': args.get('ns_id'), 'interfaces': []}
    for i, (port, speed) in enumerate(entry['Interfaces']):
        lab = args['labels'][i] if args.get('labels') is not None else None
        bdfv = lab.get('bdf') if lab else None
        units = len(bdfv) if isinstance(bdfv, list) else 1
        svc['interfaces'].append({
            'name': name + '-' + port,
            'kind': KIND.get(entry['Type']),
            'bw': 0 if entry['Type'] == 'SharedNIC' else int(speed),
            'unit': units,
            'node_id': args['ids'][i] if args.get('ids') is not None else None,
            'labels': dict(lab) if lab else {},
            'local_name': [port] * len(bdfv) if isinstance(bdfv, list) else port,
            'scalar_bdf': isinstance(bdfv, str),
        })
    exp['service'] = svc
    return exp


def observed_tree(cs):
    from fim.slivers.capacities_labels import Labels
    obs = {'type': str(cs.get_type()) if cs.get_type() is not None else None, 'model': cs.get_model(),
           'details': cs.get_details(), 'name': cs.get_name()}
    nsi = cs.network_service_info
    if nsi is None:
        obs['services'] = []
        return obs
    obs['services'] = []
    for key, ns in nsi.network_services.items():
        s = {'key': key, 'type': str(ns.get_type()) if ns.get_type() is not None else None, 'name': ns.get_name(),
             'node_id': ns.node_id, 'interfaces': []}
        ii = ns.interface_info
        for ikey, isl in (ii.interfaces.items() if ii is not None else []):
            cap = isl.get_capacities()
            lab = isl.get_labels()
            ld = {k: v for k, v in lab.__dict__.items() if v is not None} if isinstance(lab, Labels) else None
            s['interfaces'].append({'key': ikey, 'name': isl.get_name(),
                                    'kind': str(isl.get_type()) if isl.get_type() is not None else None,
                                    'bw': cap.bw if cap is not None else None,
                                    'unit': cap.unit if cap is not None else None,
                                    'node_id': isl.node_id, 'labels': ld})
        obs['services'].append(s)
    return obs


def judge_component(ctx, entries, args, catalog=None):
    """args: JSON-able description of one generate_component call (also the replay witness)."""
    from fim.slivers import component_catalog as cc
    from fim.slivers.attached_components import ComponentType
    from fim.slivers.capacities_labels import Labels
    entry = entries[args['entry']]
    ctx.seen(args, True)
    w = {'part': 'component', 'args': args, 'catalog_entry': {k: v for k, v in entry.items()}}
    kw = {'name': args['name']}
    naming = args['naming']
    if naming == 'model_type':
        ctx.count('comp:by-model-type')
        member = getattr(cc.ComponentModelType, args['member'], None)
        if member is None:
            return   # reported by the enumeration clause
        kw['model_type'] = member
    else:
        ctx.count('comp:by-alias' if naming == 'alias' else 'comp:by-ctype-model')
        ct = getattr(ComponentType, entry['Type'], None)
        if ct is None:
            ctx.violation('C18/component-type-unknown', 'the Type of a catalogue entry is a ComponentType', w)
            return
        kw['ctype'], kw['model'] = ct, args['model']
    if args.get('ids') is not None:
        kw['interface_node_ids'] = list(args['ids'])
    if args.get('labels') is not None:
        kw['interface_labels'] = [Labels(**l) for l in args['labels']]
        if args['labels_shape'] == 'one-object-for-all-ports' and args['labels']:
            kw['interface_labels'] = [kw['interface_labels'][0]] * len(args['labels'])
            ctx.count('comp:one-labels-object-for-all-ports')
    if args.get('ns_id') is not None:
        kw['ns_node_id'] = args['ns_id']
    if args.get('parent') is not None:
        kw['parent_name'] = args['parent']
    has_if = 'Interfaces' in entry
    ctx.count('comp:with-interfaces' if has_if else 'comp:without-interfaces')
    if has_if:
        ctx.count('comp:with-ids' if args.get('ids') is not None else 'comp:without-ids')
        ctx.count({'none': 'comp:no-labels', 'mac-only': 'comp:labels-mac-only',
                   'scalar-bdf': 'comp:labels-scalar-bdf'}.get(args['labels_shape'], 'comp:labels-list-bdf'))
    keep = {k: list(kw[k]) for k in ('interface_node_ids', 'interface_labels') if k in kw}
    labels_before = [l.to_json() for l in kw.get('interface_labels', [])]
    try:
        cs = (catalog or cc.ComponentCatalog()).generate_component(**kw)
    except Exception as e:
        w['raised'] = f'{type(e).__name__}: {e}'
        if has_if and args.get('ids') is not None and args.get('labels') is None:
            ctx.violation('C18/component-ids-without-labels-raises',
                          'caller-supplied interface ids (without labels) land on the interfaces', w)
        else:
            ctx.violation('C18/component-raises', 'a component is generated for every catalogued model', w)
        return
    ctx.count('comp:generated')
    exp = expected_tree(entry, args)
    obs = observed_tree(cs)
    w['observed'] = obs
    # the caller's argument lists are the caller's: still what was passed, and good for the same call again
    for k, was in keep.items():
        ctx.count('clause:argument-lists-untouched')
        if len(kw[k]) != len(was) or any(a is not b for a, b in zip(kw[k], was)):
            ctx.violation(f'C18/component-argument-list-changed:{k}', f'generate_component leaves the list passed as {k} as it was',
                          dict(w, before=len(was), after=len(kw[k])))
            return
    if [l.to_json() for l in kw.get('interface_labels', [])] != labels_before:
        ctx.violation('C18/component-argument-labels-changed', 'generate_component leaves the Labels objects it was given as they were',
                      dict(w, before=labels_before, after=[l.to_json() for l in kw['interface_labels']]))
        keep = {}
    if keep:
        ctx.count('clause:same-arguments-again')
        try:
            obs2 = observed_tree((catalog or cc.ComponentCatalog()).generate_component(**kw))
        except Exception as e:
            ctx.violation('C18/component-same-arguments-again-raises', 'the same call made again with the same argument objects '
                          f'gives the same component, not {type(e).__name__}: {e}', w)
            return
        def _mask(o):
            # ids the caller did not supply are drawn afresh by every call
            o = json.loads(json.dumps(o))
            for sv in o['services']:
                if args.get('ns_id') is None:
                    sv['node_id'] = None
                for i in sv['interfaces']:
                    if args.get('ids') is None:
                        i['node_id'] = None
            return o
        if _mask(obs2) != _mask(obs):
            ctx.violation('C18/component-same-arguments-again-differs', 'the same call made again with the same argument objects '
                          'gives the same component', dict(w, second=obs2))
            return
    for f in ('type', 'model', 'details', 'name'):
        ctx.count('clause:component-' + f)
        if obs[f] != exp[f]:
            ctx.violation(f'C18/component-{f}', f'the component has the {f} of its catalogue entry'
                          if f != 'name' else 'the component has the requested name', dict(w, expected=exp[f]))
    es = exp['service']
    if es is None:
        ctx.count('clause:component-no-service')
        if obs['services']:
            ctx.violation('C18/component-unexpected-interfaces',
                          'a model without catalogued interfaces gets no network service / interfaces', w)
        return
    if len(obs['services']) != 1:
        ctx.violation('C18/component-service-count',
                      'a model with catalogued interfaces gets exactly one network service holding them', w)
        return
    s = obs['services'][0]
    ctx.count('clause:service-type-name')
    if s['type'] != es['type']:
        ctx.violation('C18/component-service-type', 'service type is P4 for FPGA and OVS otherwise',
                      dict(w, expected=es['type']))
    if s['name'] != es['name'] or s['key'] != es['name']:
        ctx.violation('C18/component-service-name',
                      'service name is [<parent>-]<component name><suffix> (-l2p4 for FPGA, -l2ovs otherwise)',
                      dict(w, expected=es['name']))
    if es['node_id'] is not None:
        ctx.count('clause:service-node-id')
        if s['node_id'] != es['node_id']:
            ctx.violation('C18/component-service-node-id', 'the caller-supplied service node id lands on the service',
                          dict(w, expected=es['node_id']))
    ctx.count('clause:interface-set')
    if [i['name'] for i in s['interfaces']] != [i['name'] for i in es['interfaces']] or \
            any(i['key'] != i['name'] for i in s['interfaces']):
        ctx.violation('C18/component-interface-names',
                      'exactly the catalogued interfaces, named <component name>-<port>, in catalogue order',
                      dict(w, expected=[i['name'] for i in es['interfaces']]))
        return
    for oi, ei in zip(s['interfaces'], es['interfaces']):
        wi = dict(w, interface=ei['name'])
        if ei['kind'] is None:
            ctx.count('clause:interface-kind-unspecified')
        else:
            ctx.count('clause:interface-kind')
            if oi['kind'] != ei['kind']:
                ctx.violation('C18/component-interface-kind',
                              'SmartNIC/FPGA interfaces are DedicatedPort, SharedNIC interfaces SharedPort',
                              dict(wi, expected=ei['kind']))
        ctx.count('clause:interface-bw')
        if oi['bw'] != ei['bw']:
            ctx.violation('C18/component-interface-bw',
                          'interface bw is the catalogued speed of that port (0 for SharedNIC)',
                          dict(wi, expected=ei['bw']))
        ctx.count('clause:interface-unit')
        if oi['unit'] != ei['unit']:
            if ei['scalar_bdf']:
                ctx.violation('C18/component-unit-scalar-bdf',
                              'an interface labelled with ONE (scalar) bdf has unit count 1',
                              dict(wi, expected=ei['unit']))
            else:
                ctx.violation('C18/component-interface-unit',
                              'interface unit count = number of bdf labels supplied for that port (1 if none)',
                              dict(wi, expected=ei['unit']))
        if ei['node_id'] is not None:
            ctx.count('clause:interface-id')
            if oi['node_id'] != ei['node_id']:
                ctx.violation('C18/component-interface-id',
                              'caller-supplied interface node ids land on the interfaces in catalogue order',
                              dict(wi, expected=ei['node_id']))
        ctx.count('clause:interface-labels')
        ol = dict(oi['labels'] or {})
        oln = ol.pop('local_name', None)
        if ol != ei['labels']:
            ctx.violation('C18/component-interface-labels',
                          'caller-supplied labels land unchanged on the interface of the same position',
                          dict(wi, expected=ei['labels']))
        ctx.count('clause:interface-local-name')
        if oln != ei['local_name']:
            ctx.violation('C18/component-interface-local-name',
                          'labels.local_name is the catalogue port name (a list of it, one per bdf, for list bdf)',
                          dict(wi, expected=ei['local_name']))


def enumeration(ctx, entries):
    """ComponentModelType members <-> catalogue entries, 1:1."""
    from fim.slivers import component_catalog as cc
    import fim.user
    ctx.count('enum:bijection')
    want = [massage(e['Type']) + '_' + massage(e['Model']) for e in entries]
    w = {'part': 'enumeration', 'catalogue_names': want}
    cmt = cc.ComponentModelType
    if cmt is None:
        ctx.violation('C18/enum-missing', 'ComponentModelType is populated on import', w)
        return want
    got = [m.name for m in cmt]
    w['members'] = got
    if len(set(want)) != len(want):
        ctx.violation('C18/enum-not-bijective', 'distinct catalogue entries have distinct type_model names', w)
    if sorted(got) != sorted(set(want)) or len(cmt.__members__) != len(got):
        ctx.violation('C18/enum-differs-from-catalog',
                      'ComponentModelType lists exactly the catalogue entries (Type_Model, blanks/dashes -> _)',
                      dict(w, missing=[n for n in want if n not in got], unexpected=[n for n in got if n not in want]))
    if fim.user.ComponentModelType is not cmt:
        ctx.violation('C18/enum-user-alias', 'fim.user.ComponentModelType is the populated enumeration', w)
    # the map behind the members (what generate_component consults) names the same entry
    for n, e in zip(want, entries):
        m = getattr(cmt, n, None)
        if m is None:
            continue
        ctx.count('enum:member-entry')
        d = cc.ComponentModelTypeMap.get(m)
        if not isinstance(d, dict) or d.get('Type') != e['Type'] or d.get('Model') != e['Model']:
            ctx.violation('C18/enum-member-wrong-entry', 'each member stands for the entry it is named after',
                          dict(w, member=n, expected={'Type': e['Type'], 'Model': e['Model']},
                               observed={'Type': d.get('Type'), 'Model': d.get('Model')} if isinstance(d, dict) else repr(d)))
    return want


def uncatalogued(ctx, entries):
    """Documented: 'Raises CatalogException if the model is not found'."""
    from fim.slivers import component_catalog as cc
    from fim.slivers.attached_components import ComponentType
    known = set()
    for e in entries:
        known.add((e['Type'], e['Model']))
        for a in e.get('AlsoModels', []) or []:
            known.add((e['Type'], a))
    models = sorted({m for _, m in known}) + ['no-such-model', '']
    for ct in ComponentType:
        for m in models:
            if (str(ct), m) in known:
                continue
            ctx.count('comp:uncatalogued-raises')
            w = {'part': 'uncatalogued', 'ctype': str(ct), 'model': m}
            ctx.seen(w, True)
            try:
                cs = cc.ComponentCatalog().generate_component(name='comp1', ctype=ct, model=m)
            except cc.CatalogException:
                continue
            except Exception as e:
                ctx.violation('C18/uncatalogued-wrong-exception',
                              f'an uncatalogued (type, model) raises CatalogException, got {type(e).__name__}: {e}', w)
                continue
            ctx.violation('C18/uncatalogued-generated',
                          'an uncatalogued (type, model) pair raises CatalogException instead of producing a component',
                          dict(w, observed=observed_tree(cs)))


def component_cases(ctx, entries, member_names):
    """Deterministic enumeration of argument descriptions."""
    # (type, model) pairs that match more than one entry are not determined by the catalogue
    match = {}
    for i, e in enumerate(entries):
        for m in [e['Model']] + list(e.get('AlsoModels', []) or []):
            match.setdefault((e['Type'], m), set()).add(i)
    names = ctx.pick(['nic1', 'w1-nic.2_x'], ['nic1', 'w1-nic.2_x', 'ab', 'c' * 40])
    for ei, e in enumerate(entries):
        unknown = set(e) - KNOWN_COMPONENT_KEYS
        if unknown:
            ctx.mark_inconclusive(f'component catalogue entry {e.get("Model")} has keys this check does not know: '
                                  f'{sorted(unknown)}')
        namings = [('model_type', None), ('ctype_model', e['Model'])] + \
                  [('alias', a) for a in (e.get('AlsoModels', []) or [])]
        ports = e.get('Interfaces')
        nports = len(ports) if ports is not None else 0
        lspecs = label_specs(ctx, nports)
        for naming, model in namings:
            if naming != 'model_type' and len(match[(e['Type'], model)]) > 1:
                ctx.count('comp:ambiguous-pair-skipped')
                continue
            for cname in names:
                for with_ids in (False, True):
                    for shape, labs in lspecs.items():
                        if ports is None and (shape not in ('none', 'mac-only')):
                            continue
                        for ns_id in (None, f'node-{ei}-ns'):
                            for parent in (None, 'worker-1'):
                                a = {'entry': ei, 'naming': naming, 'name': cname, 'labels_shape': shape,
                                     'ids': [f'id-{ei}-{cname[:2]}-{p}' for p in range(nports)] if with_ids else None,
                                     'labels': labs, 'ns_id': ns_id, 'parent': parent}
                                if naming == 'model_type':
                                    a['member'] = member_names[ei]
                                else:
                                    a['model'] = model
                                yield a


def run_components(ctx):
    entries = read_components()
    if ctx.shard == 0:
        names = enumeration(ctx, entries)
        uncatalogued(ctx, entries)
        ctx.info['component_entries'] = len(entries)
        ctx.info['component_aliases'] = sum(len(e.get('AlsoModels', []) or []) for e in entries)
        ctx.info['component_entries_with_interfaces'] = sum(1 for e in entries if 'Interfaces' in e)
    else:
        names = [massage(e['Type']) + '_' + massage(e['Model']) for e in entries]
    n = 0
    sampled = False
    for i, a in enumerate(component_cases(ctx, entries, names)):
        if i % ctx.nshards != ctx.shard:
            continue
        judge_component(ctx, entries, a)
        n += 1
        if not sampled and a['labels_shape'] == 'list-bdf-k' and a['ids'] is not None:
            ctx.sample({'generate_component': a})
            sampled = True
    ctx.info['component_argument_combinations'] = n
    # one catalogue object serving many requests (an aggregate builder keeps one): every ordered pair of catalogued models is
    # asked for in a row, by either naming; what the second request returns must not depend on the first
    from fim.slivers import component_catalog as cc
    shared = cc.ComponentCatalog()
    k = 0
    for i, e1 in enumerate(entries):
        for j, e2 in enumerate(entries):
            for n1 in ('model_type', 'ctype_model'):
                for n2 in ('model_type', 'ctype_model'):
                    k += 1
                    if k % ctx.nshards != ctx.shard:
                        continue
                    pair = []
                    for ei, e, nm in ((i, e1, n1), (j, e2, n2)):
                        a = {'entry': ei, 'naming': nm, 'name': 'nic1', 'labels_shape': 'none', 'ids': None, 'labels': None,
                             'ns_id': None, 'parent': None, 'after': None if not pair else [pair[0]['entry'], pair[0]['naming']]}
                        if nm == 'model_type':
                            a['member'] = names[ei]
                        else:
                            a['model'] = e['Model']
                        pair.append(a)
                    ctx.count('comp:consecutive-requests-on-one-catalogue')
                    for a in pair:
                        judge_component(ctx, entries, a, catalog=shared)


def refused_then_valid(ctx, entries, names):
    """A request the catalogue rightly refuses (too few / too many interface ids or labels, an unknown model) must not change
    what later, valid requests get - in the same process, from the same or another catalogue object."""
    from fim.slivers import component_catalog as cc
    from fim.slivers.attached_components import ComponentType
    from fim.slivers.capacities_labels import Labels
    with_if = [(i, e) for i, e in enumerate(entries) if e.get('Interfaces')]
    if not with_if:
        return
    shared = cc.ComponentCatalog()
    for bi, (ei, e) in enumerate(with_if):
        if bi % ctx.nshards != ctx.shard:
            continue
        nports = len(e['Interfaces'])
        ct = getattr(ComponentType, e['Type'])
        bad_calls = [dict(interface_node_ids=['only-one'] * (nports + 1)), dict(interface_node_ids=[]),
                     dict(interface_labels=[Labels(mac='0c:42:a1:00:00:01')] * (nports + 1)),
                     dict(interface_node_ids=['x'] * (nports - 1), interface_labels=[Labels(bdf='0000:41:00.0')] * (nports + 2))]
        for kwbad in bad_calls:
            for cat in (shared, cc.ComponentCatalog()):
                ctx.count('comp:refused-request')
                try:
                    cat.generate_component(name='nic-bad', ctype=ct, model=e['Model'], **kwbad)
                    ctx.violation('C18/component-wrong-count-accepted', 'ids / labels must be one per catalogued port',
                                  {'part': 'component', 'catalog_entry': dict(e), 'kwargs': sorted(kwbad)})
                    continue
                except Exception:
                    pass
                # ... afterwards every model with interfaces is still served, either naming
                for ej, e2 in with_if:
                    for nm in ('model_type', 'ctype_model'):
                        a = {'entry': ej, 'naming': nm, 'name': 'nic1', 'labels_shape': 'none', 'ids': None, 'labels': None,
                             'ns_id': None, 'parent': None, 'after': ['refused', e['Model'], sorted(kwbad)]}
                        if nm == 'model_type':
                            a['member'] = names[ej]
                        else:
                            a['model'] = e2['Model']
                        ctx.count('comp:valid-request-after-a-refused-one')
                        judge_component(ctx, entries, a, catalog=cat)


def run(ctx):
    from fim.graph.abc_property_graph import ABCPropertyGraph  # noqa  (make sure the whole package imports)
    run_components(ctx)
    entries = read_components()
    refused_then_valid(ctx, entries, [massage(e['Type']) + '_' + massage(e['Model']) for e in entries])
    run_sizes(ctx)


def replay(ctx, case):
    w = case['witness']
    part = w.get('part')
    if part == 'map':
        from fim.slivers.instance_catalog import InstanceCatalog
        orc = SizeOracle()
        cat = InstanceCatalog()
        req = w['request']
        extra = {k: v for k, v in req.items() if k not in DIMS} or None
        tri = (req['core'], req['ram'], req['disk'])
        plain = judge_map(ctx, orc, cat, tri)
        if extra:
            judge_map(ctx, orc, cat, tri, extra=extra, plain_answer=plain)
    elif part == 'component':
        entries = read_components()
        a = w['args']
        if a.get('after') and a['after'][0] == 'refused':
            # the request followed one the catalogue refused: run that whole phase again
            refused_then_valid(ctx, entries, [massage(e['Type']) + '_' + massage(e['Model']) for e in entries])
        elif a.get('after'):
            # the request came second on a catalogue object that had just served another one
            from fim.slivers import component_catalog as cc
            shared = cc.ComponentCatalog()
            ei, nm = a['after']
            names = [massage(e['Type']) + '_' + massage(e['Model']) for e in entries]
            first = {'entry': ei, 'naming': nm, 'name': 'nic1', 'labels_shape': 'none', 'ids': None, 'labels': None, 'ns_id': None,
                     'parent': None, 'member': names[ei], 'model': entries[ei]['Model']}
            judge_component(ctx, entries, first, catalog=shared)
            judge_component(ctx, entries, a, catalog=shared)
        else:
            judge_component(ctx, entries, a)
    elif part == 'sizes':
        from fim.slivers.instance_catalog import InstanceCatalog
        static_sizes(ctx, SizeOracle(), InstanceCatalog())
    elif part == 'enumeration':
        enumeration(ctx, read_components())
    elif part == 'uncatalogued':
        uncatalogued(ctx, read_components())


LEVEL_TEXT = ('Runtime monitoring with independent reference oracles. A: every request of the catalogue-derived grid '
              '(quick 67x25x17 = 28 475 requests incl. 0 and 2^31 per dimension; thorough the dense grid (0..66, 2^31) x '
              '(0..258, 2^31) x 17 disk values = 300 560 requests) goes through the real map_capacities_to_instance and is '
              'judged by a brute-force Pareto oracle over instance_sizes.json parsed by the check itself '
              '(sufficient, Pareto-minimal, largest otherwise, extra fields ignored); all 869 names are compared with '
              'their capacities through the JSON, get_instance_capacities and list_instances. B: every catalogue '
              'entry and alias x naming x ids x label shapes x service id x parent name x component name goes through '
              'the real generate_component and the sliver tree is compared clause by clause with the JSON entry; '
              'ComponentModelType members are compared 1:1 with the entries. Held on the executions observed.')
LEVEL_NOTE = ('Trusted: json, the harness oracle (a few lines of list comprehension), Labels/Capacities constructors '
              'used to build the arguments. Not covered: wrong-length id/label lists, behaviour for component types '
              'with interfaces other than SmartNIC/FPGA/SharedNIC, component_details/search_catalog, a catalogue '
              'other than the two files shipped in the tree under test.')
TECHNIQUE = ('exhaustive grid sweep of the real mapper against a brute-force Pareto reference model + exhaustive '
             'argument-combination differential comparison of generated component slivers with the catalogue JSON')
