"""C06 — neighbour and path queries return exactly what their contract describes.

Oracle computed from the plain node/edge lists the generator produced (never from
networkx calls on the library's graph); exhaustive small typed graphs + random larger
ones, both backends, decoy graphs with the same NodeIDs in the same store.
"""
import itertools
from collections import deque

from vlib import rawgraph

PROPERTY = 'C06'
LEVEL = 'exploration'
SHARDS = {'quick': 4, 'thorough': 16}
TIME_BUDGET = {'quick': 60, 'thorough': 1300}
RULE = ('typed graphs: exhaustively every graph on n<=3 nodes (each pair in {no edge, has, connects} x every class assignment '
        'over 2 (quick) / 3 (thorough) classes; thorough adds a stride of the n=4 space) and random graphs with 5-9 nodes, 3 '
        'relations, 3-4 classes; 1-2 decoy graphs with the same NodeIDs live in the same store; every start/end node, relation, '
        'class and hop choice (random graphs: sampled). One evaluation = one query; distinct by (graph, query); non-trivial when '
        'the oracle\'s answer is non-empty')
REQUIRED = ['q:first_neighbor', 'q:two_hop', 'q:shortest_path', 'q:shortest_path_rel', 'q:path_with_hops', 'q:get_parent',
            'q:find_peer_connection_points', 'q:node_or_component_cps', 'q:ns_or_link_cps', 'q:child_cps',
            'graphs:exhaustive', 'graphs:random', 'store:shared', 'store:disjoint', 'nonempty:shortest_path_rel',
            'nonempty:two_hop', 'nonempty:path_with_hops', 'mixed-relations-present']
EXHAUSTIVE = {'quick': False, 'thorough': False}
ASSUMPTIONS = ['path-with-hops: "loop-free" is accepted in either reading - a simple path, or (what the implementation documents '
               'with "check no cycles") a path whose induced subgraph is acyclic; a result must be minimal under at least one of '
               'the two readings and empty only if the stricter reading has no path',
               'queries naming a node that does not exist, and start == end for path-with-hops, are not judged']


class G:
    """Plain typed graph: ids, cls {id: class}, edges {frozenset{a,b}: rel}."""
    def __init__(self, ids, cls, edges):
        self.ids, self.cls, self.edges = ids, cls, edges
        self.adj = {i: {} for i in ids}
        for k, r in edges.items():
            a, b = tuple(k)
            self.adj[a][b] = r
            self.adj[b][a] = r

    def desc(self):
        return {'nodes': [{'id': i, 'cls': self.cls[i], 'props': {'Name': 'name-' + i}} for i in self.ids],
                'edges': [{'a': sorted(k)[0], 'b': sorted(k)[1], 'cls': r, 'props': {}} for k, r in self.edges.items()]}

    # ---- oracles
    def first(self, s, rel, c):
        return sorted(v for v, r in self.adj[s].items() if r == rel and self.cls[v] == c)

    def two_hop(self, s, r1, c1, r2, c2):
        out = []
        for b in self.first(s, r1, c1):
            for c, r in self.adj[b].items():
                if r == r2 and self.cls[c] == c2 and c != s:
                    out.append([b, c])
        return sorted(out)

    def dist(self, a, z, rel):
        seen, dq = {a: 0}, deque([a])
        while dq:
            u = dq.popleft()
            if u == z:
                return seen[u]
            for v, r in self.adj[u].items():
                if (rel is None or r == rel) and v not in seen:
                    seen[v] = seen[u] + 1
                    dq.append(v)
        return None

    def simple_paths(self, a, z):
        out, path = [], [a]

        def rec(u):
            if u == z:
                out.append(list(path))
                return
            for v in self.adj[u]:
                if v not in path:
                    path.append(v)
                    rec(v)
                    path.pop()
        rec(a)
        return out

    def chordless(self, path):
        s = set(path)
        # induced subgraph acyclic <=> it has exactly len(path)-1 edges (it contains the path, hence is connected)
        n = sum(1 for k in self.edges if k <= s)
        return n == len(path) - 1


def expected_paths_with_hops(g, a, z, hops):
    sp = [p for p in g.simple_paths(a, z) if all(h in p for h in hops)]
    plain = min((len(p) for p in sp), default=None)
    strict = min((len(p) for p in sp if g.chordless(p)), default=None)
    return plain, strict


STITCHED = [0]
REFUSED = [0]
GROWN = [0]


def install(imps, store, g, rng, ndecoy, stitch=False):
    imp, cls = imps[store]
    imp.delete_all_graphs()
    for d in range(ndecoy):
        # decoy: same node ids, different classes/edges
        ids = g.ids
        dcls = {i: rng.choice(['NetworkNode', 'Component', 'NetworkService', 'ConnectionPoint', 'Link']) for i in ids}
        dedges = {}
        for a, b in itertools.combinations(ids, 2):
            if rng.random() < 0.6:
                dedges[frozenset([a, b])] = rng.choice(['has', 'connects', 'depends'])
        if d == 0:
            dedges0 = dedges
        imp.storage.add_graph(f'decoy{d}', rawgraph.to_nx(G(ids, dcls, dedges).desc(), key_style=rng.randrange(3)))
    if ndecoy and rng.random() < 0.3:
        # an import the store refuses (a node without NodeID among connected nodes) just before the target arrives: it must
        # leave nothing the target's queries could walk into
        bad = rawgraph.to_nx(G(g.ids, g.cls, {frozenset(p): 'connects' for p in itertools.combinations(g.ids, 2)}).desc(), key_style=0)
        if len(bad.nodes) >= 2:
            bad.nodes[list(bad.nodes)[-1]].pop('NodeID', None)
            try:
                imp.storage.add_graph('refused', bad)
            except Exception:
                REFUSED[0] += 1
    # the same graph id is used again and again with the nodes arriving in another order (so the same NodeID sits at another
    # internal position each time): nothing remembered about an earlier graph of that id may leak into the queries
    desc = g.desc()
    desc = dict(desc, nodes=rng.sample(desc['nodes'], len(desc['nodes'])))
    late = None
    if store == 'disjoint' and len(g.ids) >= 2 and rng.random() < 0.35:
        # the graph gets its final shape through a small history: it arrives with an extra node (stored first) and without one of
        # its own; the extra node is deleted, an import under the same id is offered (and skipped, as documented for this backend),
        # then the missing node and its links are added.  The queries run on exactly g.
        late = rng.choice(g.ids)
        ids0 = [i for i in g.ids if i != late]
        g0 = G(['x-gone'] + ids0, dict({i: g.cls[i] for i in ids0}, **{'x-gone': g.cls[late]}),
               {k: v for k, v in g.edges.items() if late not in k})
        desc0 = g0.desc()
        desc0 = dict(desc0, nodes=[n for n in desc0['nodes'] if n['id'] == 'x-gone'] + [n for n in desc0['nodes'] if n['id'] != 'x-gone'])
        imp.storage.add_graph('target', rawgraph.to_nx(desc0, key_style=rng.randrange(3)))
        h = cls(graph_id='target', importer=imp)
        h.delete_node(node_id='x-gone')
        imp.storage.add_graph('target', rawgraph.to_nx(desc0, key_style=0))
        h.add_node(node_id=late, label=g.cls[late], props={'Name': 'name-' + late})
        for k, rel in g.edges.items():
            if late in k:
                other = [x for x in k if x != late][0]
                h.add_link(node_a=late, rel=rel, node_b=other)
        GROWN[0] += 1
    else:
        imp.storage.add_graph('target', rawgraph.to_nx(desc, key_style=rng.randrange(3)))
    if ndecoy:
        imp.storage.add_graph('decoy-after', rawgraph.to_nx(G(g.ids, g.cls, {}).desc(), key_style=0))
    pg = cls(graph_id='target', importer=imp)
    if ndecoy and stitch and g.ids:
        # stitch the target to a decoy the public way: merge_nodes() on a shared NodeID re-points the decoy's edges onto
        # the target's node, so edges now cross between two graphs of the store (the state the combined-model merge is
        # in between merge_nodes and the re-homing).  The target's own nodes and edges are untouched, so the oracle holds.
        other = cls(graph_id='decoy0', importer=imp)
        done = []
        for x in rng.sample(g.ids, min(len(g.ids), rng.randrange(1, 3))):
            # two stitched nodes that are adjacent in the decoy would legitimately gain an edge inside the target
            if any(frozenset([x, y]) in dedges0 for y in done):
                continue
            pg.merge_nodes(node_id=x, other_graph=other)
            done.append(x)
        STITCHED[0] += 1 if done else 0
    return pg


def call(fn, **kw):
    try:
        return ('ok', fn(**kw))
    except Exception as e:
        return ('exc', f'{type(e).__name__}: {str(e)[:200]}')


def check_graph(ctx, store, pg, g, rels, classes, sample_q=None, rng=None):
    gd = {'ids': g.ids, 'cls': g.cls, 'edges': sorted([sorted(k) + [r] for k, r in g.edges.items()])}
    if len(set(g.edges.values())) > 1:
        ctx.count('mixed-relations-present')

    def bad(key, clause, q, exp, got):
        ctx.violation(key, clause, {'store': store, 'graph': gd, 'query': q, 'expected': exp, 'got': got})

    def take(n):
        return sample_q is None or rng.random() < sample_q * n

    for s in g.ids:
        for rel in rels:
            for c in classes:
                if not take(1):
                    continue
                q = {'q': 'first_neighbor', 'node': s, 'rel': rel, 'cls': c}
                exp = g.first(s, rel, c)
                r = call(pg.get_first_neighbor, node_id=s, rel=rel, node_label=c)
                ctx.count('q:first_neighbor')
                ctx.seen([gd, q], bool(exp))
                if r[0] != 'ok':
                    bad('C06/first-neighbor-raises', 'first-neighbour query does not fail', q, exp, r[1])
                elif sorted(r[1]) != exp:
                    bad('C06/first-neighbor-wrong', 'exactly the nodes of the class joined by an edge of the relation', q, exp, r[1])
                # derived: get_parent
                ctx.count('q:get_parent')
                r = call(pg.get_parent, node_id=s, rel=rel, parent=c)
                expp = ['name-' + exp[0], exp[0]] if len(exp) == 1 else [None, None]
                if r[0] != 'ok' or list(r[1]) != expp:
                    bad('C06/get-parent-wrong', 'get_parent returns (name, id) of the single such neighbour or (None, None)',
                        dict(q, q='get_parent'), expp, r[1])
        for r1, c1, r2, c2 in itertools.product(rels, classes, rels, classes):
            if not take(0.25):
                continue
            q = {'q': 'two_hop', 'node': s, 'rel1': r1, 'cls1': c1, 'rel2': r2, 'cls2': c2}
            exp = g.two_hop(s, r1, c1, r2, c2)
            r = call(pg.get_first_and_second_neighbor, node_id=s, rel1=r1, node1_label=c1, rel2=r2, node2_label=c2)
            ctx.count('q:two_hop')
            if exp:
                ctx.count('nonempty:two_hop')
            ctx.seen([gd, q], bool(exp))
            if r[0] != 'ok':
                bad('C06/two-hop-raises', 'two-hop query does not fail', q, exp, r[1])
            else:
                got = sorted(list(x) for x in r[1])
                if got != exp:
                    key = 'C06/two-hop-wrong'
                    extra = [x for x in got if x not in exp]
                    if extra and not [x for x in exp if x not in got] and all(
                            g.adj[x[0]].get(x[1]) != r2 and g.cls[x[1]] == c2 and x[0] in g.first(s, r1, c1) and x[1] != s
                            for x in extra):
                        key = 'C06/two-hop-second-relation-not-filtered'
                    bad(key, 'exactly the pairs reached by rel1/class1 then rel2/class2, never the start node', q, exp, got)
        for z in g.ids:
            for rel in [None] + list(rels):
                if not take(1):
                    continue
                q = {'q': 'shortest_path', 'a': s, 'z': z, 'rel': rel}
                d = g.dist(s, z, rel)
                r = call(pg.get_nodes_on_shortest_path, node_a=s, node_z=z, rel=rel)
                ctx.count('q:shortest_path' if rel is None else 'q:shortest_path_rel')
                if d and rel is not None:
                    ctx.count('nonempty:shortest_path_rel')
                ctx.seen([gd, q], bool(d))
                if r[0] != 'ok':
                    key = 'C06/shortest-path-raises'
                    if rel is not None and 'changed size during iteration' in r[1]:
                        key = 'C06/shortest-path-rel-fails-when-other-edge-kinds-present'
                    bad(key, 'a shortest-path query never fails because other kinds of edges are present', q, d, r[1])
                    continue
                p = r[1]
                if d is None:
                    if p != []:
                        bad('C06/shortest-path-nonexistent', 'empty list when no path exists', q, [], p)
                    continue
                ok = (len(p) == d + 1 and p[0] == s and p[-1] == z and len(set(p)) == len(p) and
                      all(g.adj[p[i]].get(p[i + 1]) is not None and (rel is None or g.adj[p[i]][p[i + 1]] == rel)
                          for i in range(len(p) - 1)))
                if not ok:
                    bad('C06/shortest-path-wrong', 'an actual path between the end nodes using only edges of the requested '
                        'relation, of minimum length', q, {'length': d + 1}, p)
            if s == z:
                continue
            others = [x for x in g.ids if x not in (s, z)]
            hop_sets = [[]] + [[h] for h in others] + [list(h) for h in itertools.combinations(others, 2)]
            # unusual but legal hop lists: an end node named as a hop, a hop named twice
            hop_sets += [[s], [z], [s, z], [z, z]] + [[h, h] for h in others[:2]] + [[s, h] for h in others[:2]] + [[h, z] for h in others[:2]]
            for hops in hop_sets:
                if not take(1.0):
                    continue
                for hh in ([hops] if len(hops) < 2 else [hops, hops[::-1]]):
                    q = {'q': 'path_with_hops', 'a': s, 'z': z, 'hops': hh}
                    plain, strict = expected_paths_with_hops(g, s, z, hh)
                    r = call(pg.get_nodes_on_path_with_hops, node_a=s, node_z=z, hops=hh)
                    ctx.count('q:path_with_hops')
                    if plain:
                        ctx.count('nonempty:path_with_hops')
                    ctx.seen([gd, q], bool(plain))
                    if r[0] != 'ok':
                        bad('C06/path-with-hops-raises', 'path-with-hops query does not fail', q, [plain, strict], r[1])
                        continue
                    p = r[1]
                    if p == []:
                        if strict is not None:
                            bad('C06/path-with-hops-missed', 'a qualifying path exists but the result is empty', q, [plain, strict], p)
                        continue
                    valid = (p[0] == s and p[-1] == z and len(set(p)) == len(p) and all(h in p for h in hh) and
                             all(g.adj[p[i]].get(p[i + 1]) is not None for i in range(len(p) - 1)))
                    if not valid:
                        bad('C06/path-with-hops-invalid', 'a loop-free path between the end nodes containing all hops', q,
                            [plain, strict], p)
                    elif len(p) not in (plain, strict):
                        bad('C06/path-with-hops-not-shortest', 'shortest among the qualifying paths', q, [plain, strict], p)


def check_helpers(ctx, store, pg, g):
    """Derived helpers on FIM-classed graphs."""
    gd = {'ids': g.ids, 'cls': g.cls, 'edges': sorted([sorted(k) + [r] for k, r in g.edges.items()])}

    def bad(key, clause, q, exp, got):
        ctx.violation(key, clause, {'store': store, 'graph': gd, 'query': q, 'expected': exp, 'got': got})

    def via_unfiltered_rel2(s, r1, c1, c2, exp, got):
        """True if `got` is exactly what the two-hop query returns when its second relation filter is not applied
        (the mechanism of C06/two-hop-second-relation-not-filtered) and differs from exp only by that."""
        if not isinstance(got, list):
            return False
        loose = sorted(c for b in g.first(s, r1, c1) for c in g.adj[b] if g.cls[c] == c2 and c != s)
        return sorted(got) == loose and sorted(got) != sorted(exp)
    for s in g.ids:
        c = g.cls[s]
        # peers over a Link
        exp = [x[1] for x in g.two_hop(s, 'connects', 'Link', 'connects', 'ConnectionPoint')]
        r = call(pg.find_peer_connection_points, node_id=s)
        ctx.count('q:find_peer_connection_points')
        ctx.seen([gd, 'peer', s], bool(exp))
        got = r[1] if r[0] == 'ok' else r
        if r[0] == 'ok' and via_unfiltered_rel2(s, 'connects', 'Link', 'ConnectionPoint', exp, got):
            bad('C06/two-hop-second-relation-not-filtered', 'peers of a connection point over a Link (derived from the two-hop query)',
                {'q': 'find_peer_connection_points', 'node': s}, exp or None, got)
        elif r[0] != 'ok' or (sorted(got) if got is not None else None) != (sorted(exp) if exp else None):
            bad('C06/find-peer-connection-points-wrong', 'peers of a connection point over a Link (None if there are none)',
                {'q': 'find_peer_connection_points', 'node': s}, exp or None, got)
        exp = [x[1] for x in g.two_hop(s, 'has', 'NetworkService', 'connects', 'ConnectionPoint')]
        r = call(pg.get_all_node_or_component_connection_points, parent_node_id=s)
        ctx.count('q:node_or_component_cps')
        legal = c in ('NetworkNode', 'Component', 'CompositeNode')
        if legal and r[0] == 'ok' and via_unfiltered_rel2(s, 'has', 'NetworkService', 'ConnectionPoint', exp, r[1]):
            bad('C06/two-hop-second-relation-not-filtered', 'interfaces of a node/component via its services (derived from the two-hop query)',
                {'q': 'node_or_component_cps', 'node': s}, exp, r[1])
        elif legal != (r[0] == 'ok') or (legal and sorted(r[1]) != sorted(exp)):
            bad('C06/node-or-component-cps-wrong', 'interfaces of a node/component via its services; other classes are refused',
                {'q': 'node_or_component_cps', 'node': s}, exp if legal else 'raise', r[1])
        exp = g.first(s, 'connects', 'ConnectionPoint')
        r = call(pg.get_all_ns_or_link_connection_points, link_id=s)
        ctx.count('q:ns_or_link_cps')
        legal = c in ('Link', 'NetworkService')
        if legal != (r[0] == 'ok') or (legal and sorted(r[1]) != exp):
            bad('C06/ns-or-link-cps-wrong', 'interfaces attached to a link or service; other classes are refused',
                {'q': 'ns_or_link_cps', 'node': s}, exp if legal else 'raise', r[1])
        r = call(pg.get_all_child_connection_points, interface_id=s)
        ctx.count('q:child_cps')
        legal = c == 'ConnectionPoint'
        if legal != (r[0] == 'ok') or (legal and sorted(r[1]) != exp):
            bad('C06/child-cps-wrong', 'child interfaces of an interface; other classes are refused',
                {'q': 'child_cps', 'node': s}, exp if legal else 'raise', r[1])


def enum_graphs(n, rels, classes):
    ids = [f'v{i}' for i in range(n)]
    pairs = list(itertools.combinations(ids, 2))
    for ec in itertools.product([None] + list(rels), repeat=len(pairs)):
        edges = {frozenset(p): r for p, r in zip(pairs, ec) if r}
        for cc in itertools.product(classes, repeat=n):
            yield G(ids, dict(zip(ids, cc)), edges)


def run(ctx):
    imps = rawgraph.importers()
    rng = ctx.rng
    rels = ['has', 'connects']
    classes = ['NetworkNode', 'Link'] if ctx.quick else ['NetworkNode', 'Link', 'ConnectionPoint']
    idx = 0
    # random, larger graphs first (they carry the FIM-shaped helper checks)
    nrand = ctx.pick(25, 400)
    fim_classes = ['NetworkNode', 'Component', 'NetworkService', 'ConnectionPoint', 'Link']
    for i in range(nrand):
        n = rng.randrange(5, 10)
        ids = [f'r{j}' for j in range(n)]
        cl = rng.sample(fim_classes, rng.randrange(3, 5))
        cls = {j: rng.choice(cl) for j in ids}
        edges = {}
        p = rng.choice([0.2, 0.35, 0.5])
        r3 = ['has', 'connects', 'depends']
        for a, b in itertools.combinations(ids, 2):
            if rng.random() < p:
                edges[frozenset([a, b])] = rng.choice(r3)
        g = G(ids, cls, edges)
        store = 'shared' if i % 2 == 0 else 'disjoint'
        pg = install(imps, store, g, rng, rng.randrange(1, 3) if store == 'shared' else 0, stitch=(i % 4 == 0))
        ctx.count('graphs:random')
        ctx.count('store:' + store)
        check_graph(ctx, store, pg, g, r3, cl, sample_q=0.12, rng=rng)
        check_helpers(ctx, store, pg, g)
        if i == 0:
            ctx.sample({'graph': g.desc()['edges'], 'classes': g.cls})
        if ctx.out_of_time():
            break
    for n in ([1, 2, 3] if ctx.quick else [1, 2, 3, 4]):
        stride = 1 if n <= 3 else 37
        for g in enum_graphs(n, rels, classes):
            idx += 1
            if idx % ctx.nshards != ctx.shard or (idx // ctx.nshards) % stride:
                continue
            store = 'shared' if (idx // ctx.nshards) % 2 == 0 else 'disjoint'
            pg = install(imps, store, g, rng, 1 if store == 'shared' else 0, stitch=((idx // ctx.nshards) % 4 == 0))
            ctx.count('graphs:exhaustive')
            ctx.count(f'graphs:exhaustive-n{n}')
            ctx.count('store:' + store)
            check_graph(ctx, store, pg, g, rels, classes)
            if ctx.out_of_time():
                ctx.info['exhaustive_cut_short_by_time_budget'] = 1
                break
    ctx.count('graphs:stitched-to-a-decoy(cross-graph edges present)', STITCHED[0])
    ctx.count('graphs:installed-after-a-refused-import', REFUSED[0])
    ctx.count('graphs:completed-by-delete-skipped-import-add', GROWN[0])
    for imp, _ in imps.values():
        imp.delete_all_graphs()


def replay(ctx, case):
    imps = rawgraph.importers()
    w = case['witness']
    gd = w['graph']
    g = G(gd['ids'], gd['cls'], {frozenset(e[:2]): e[2] for e in gd['edges']})
    rels = sorted(set(g.edges.values()) | {'has', 'connects'})
    classes = sorted(set(g.cls.values()))
    for stitch in (False, True):
        pg = install(imps, w['store'], g, ctx.rng, 1 if w['store'] == 'shared' else 0, stitch=stitch)
        check_graph(ctx, w['store'], pg, g, rels, classes)
        check_helpers(ctx, w['store'], pg, g)


LEVEL_TEXT = ('Runtime monitoring against an independent oracle: each neighbour / two-hop / shortest-path / path-with-hops query '
              'and each derived helper is answered by the real backends and by a 60-line reference computed from the plain '
              'node/edge lists; all typed graphs on <=3 nodes are enumerated (every query), larger random graphs are sampled, with '
              'decoy graphs of identical NodeIDs in the same store. Held on the queries observed.')
LEVEL_NOTE = ('Trusted: the reference oracle (BFS / DFS over dictionaries). Path-with-hops minimality is accepted under either '
              'reading of "loop-free"; queries about non-existent nodes are not judged.')
TECHNIQUE = 'reference-oracle monitor over exhaustively enumerated small typed graphs and random larger ones'
