"""C14 — combined broker model: merge is order-independent and unmerge is its inverse.

The real merge_adm / unmerge_adm / _update_node_delegations (taken from Neo4jCBMGraph) and
snapshot / rollback (ABCCBMPropertyGraph) are bound to a harness class on top of the in-memory
shared store ("executed through the abstract graph interface"); the oracle is set algebra on
canonical snapshots.
"""
import itertools
import json

from vlib import canon, rawgraph, subgen, topogen

PROPERTY = 'C14'
LEVEL = 'exploration'
SHARDS = {'quick': 4, 'thorough': 16}
TIME_BUDGET = {'quick': 70, 'thorough': 1300}
RULE = ('families of 1-4 delegation models: the ADMs of 2-3 generated site aggregates plus the ADM of a network aggregate that shares '
        'their stitch-marked switch/service/uplink nodes (identical base properties), all for one broker delegation id; all merge '
        'permutations (<=4 models), merge;unmerge for every member at every position, and random interleavings of '
        'merge/unmerge/snapshot/rollback of length <=10. One evaluation = one merge order or one interleaving; distinct by (family '
        'hash, order/ops); non-trivial when at least two models share an element')
REQUIRED = ['model-keyed-by-its-own-graph-id', 'families', 'orders', 'clause:union', 'clause:contributors', 'clause:delegations-keyed-by-model', 'clause:order-independent',
            'clause:sources-untouched', 'clause:merge-unmerge-inverse', 'clause:rollback-restores', 'clause:rollback-to-older-of-two-snapshots', 'shared-elements-seen',
            'interleavings', 'shared-edges-seen']
ASSUMPTIONS = ['merge/unmerge run on a harness class NxCBM(NetworkXPropertyGraph, ABCCBMPropertyGraph) that borrows the real functions '
               'of Neo4jCBMGraph, with neo4j_cbm.Neo4jADMGraph pointed at NetworkXADMGraph for the run; APOC mergeNodes semantics on a '
               'real Neo4j server are out of reach (C19 sees the statements only)',
               'a delegation property that is absent, \'\' or \'None\' counts as "no delegation"; adm_graph_ids is compared as a set',
               'models of one family share only stitch-marked elements with identical base properties (one aggregate speaks for a resource)']

DELPROPS = (subgen.CAPD, subgen.LABD)
_cls = [None]


def cbm_class():
    if _cls[0] is None:
        from fim.graph.networkx_property_graph import NetworkXPropertyGraph
        from fim.graph.resources.abc_cbm import ABCCBMPropertyGraph
        from fim.graph.resources import neo4j_cbm
        from fim.graph.resources.networkx_adm import NetworkXADMGraph
        neo4j_cbm.Neo4jADMGraph = NetworkXADMGraph
        N = neo4j_cbm.Neo4jCBMGraph

        class NxCBM(NetworkXPropertyGraph, ABCCBMPropertyGraph):
            merge_adm = N.merge_adm
            unmerge_adm = N.unmerge_adm
            _update_node_delegations = N._update_node_delegations

            def get_bqm(self, **kw):
                raise NotImplementedError

            def get_delegations(self, **kw):
                raise NotImplementedError

            def get_matching_nodes_with_components(self, **kw):
                raise NotImplementedError

            def get_intersite_links(self):
                raise NotImplementedError

            def get_sites(self):
                raise NotImplementedError

            def get_disconnected_sites(self):
                raise NotImplementedError

            def get_connected_sites(self):
                raise NotImplementedError

            def get_facility_ports(self):
                raise NotImplementedError
        for nm in list(getattr(ABCCBMPropertyGraph, '__abstractmethods__', ())):
            if nm not in NxCBM.__dict__ and not hasattr(NetworkXPropertyGraph, nm):
                setattr(NxCBM, nm, lambda self, *a, **k: (_ for _ in ()).throw(NotImplementedError()))
        NxCBM.__abstractmethods__ = frozenset()
        _cls[0] = NxCBM
    return _cls[0]


def parse(v):
    if v in (None, '', 'None'):
        return {}
    return json.loads(v)


def sem_graph(c):
    """Canonical form for comparisons: delegation props parsed, adm_graph_ids as a sorted list, empty == absent."""
    out = {'nodes': {}, 'edges': c['edges']}
    for nid, p in c['nodes'].items():
        q = {}
        for k, v in p.items():
            if k in DELPROPS:
                d = parse(v)
                if d:
                    q[k] = d
            elif k == 'StructuralInfo':
                d = parse(v)
                if 'adm_graph_ids' in d and isinstance(d['adm_graph_ids'], list):
                    d['adm_graph_ids'] = sorted(d['adm_graph_ids'])
                q[k] = d
            elif v not in ('', 'None', None):
                q[k] = v
        out['nodes'][nid] = q
    return out


def build_family(ctx, imp, tag):
    rng = ctx.subrng('fam', tag)
    topogen.seed_uuid(f'{ctx.seed}/{ctx.shard}/f{tag}')
    imp.delete_all_graphs()
    d = 'broker-1'
    names = rng.sample(['RENC', 'UKY', 'LBNL', 'STAR'], rng.randrange(1, 4))
    # unusual but legal: a model whose delegation id already equals the graph id it will be merged under
    own = {n: (rng.random() < 0.35) for n in names + ['NET']}
    # graph ids are arbitrary strings: a quarter of the families use ids with characters that JSON text escapes
    odd = rng.random() < 0.25
    if odd:
        ctx.count('family-with-ids-that-json-escapes')
    gid_of = lambda n: (f'adm-{n}-Zür"ich\\{tag}' if odd else f'adm-{n}-{tag}')
    did = lambda n: gid_of(n) if own[n] else d
    sites = [subgen.gen_site(rng, n, [did(n)], nworkers=rng.randrange(1, 3)) for n in names]
    # the network aggregate contributes at least one element of its own (an inter-site link); a model that is
    # entirely contained in the others is not generated (updating 'all nodes' of an emptied temporary graph is
    # backend-specific and outside the statement)
    net = subgen.gen_network(rng, sites, [did('NET')]) if len(sites) >= 2 else None
    has_link = net is not None and any(op['op'] == 'add_link' for op in net.script)
    models = sites + ([net] if net and net.delegations and has_link else [])
    adms = []
    for m in models:
        topo = subgen.build(imp, m)
        arm = subgen.arm_of(topo)
        dm = did(m.name)
        res = arm.generate_adms(delegation_guids={dm: gid_of(m.name)})
        if own[m.name]:
            ctx.count('model-keyed-by-its-own-graph-id')
        if dm in res:
            adms.append(res[dm])
        arm.delete_graph()
    # a quarter of the families: a connection between two elements that several models share is carried by ONE of those models
    # only (the others list both elements without it) - the union still has it, and only that model contributed it
    if len(adms) >= 2 and rng.random() < 0.25:
        import networkx as nx
        G = canon.raw_storage(imp).graphs
        per = {}
        for n, dct in G.nodes(data=True):
            per.setdefault(dct.get('GraphID'), {})[dct.get('NodeID')] = n
        ids = [a.graph_id for a in adms]
        cand = {}
        for g in ids:
            inv = {v: k for k, v in per.get(g, {}).items()}
            for a, b in G.subgraph(list(inv)).edges():
                cand.setdefault(canon._key(inv[a], inv[b]), []).append((g, a, b))
        shared_edges = sorted(k for k, l in cand.items() if len(l) >= 2)
        if shared_edges:
            k = rng.choice(shared_edges)
            keep = rng.choice(cand[k])[0]
            for g, a, b in cand[k]:
                if g != keep:
                    G.remove_edge(a, b)
            ctx.count('family:connection-between-shared-elements-in-one-model-only')
    return adms, [m.script for m in models]


def expected_merge(snaps):
    """snaps: {adm graph id: canonical snapshot}; returns the expected combined model (sem form)."""
    nodes, edges = {}, {}
    for gid, c in snaps.items():
        for nid, p in c['nodes'].items():
            q = nodes.setdefault(nid, {'_contrib': [], '_base': None})
            q['_contrib'].append(gid)
            base = {k: v for k, v in p.items() if k not in DELPROPS and k != 'StructuralInfo' and v not in ('', 'None', None)}
            if q['_base'] is None:
                q['_base'] = base
            elif q['_base'] != base:
                q['_base_conflict'] = True
            for dp in DELPROPS:
                e = parse(p.get(dp))
                if e:
                    if len(e) != 1:
                        q['_bad'] = True
                    q.setdefault(dp, {})[gid] = list(e.values())[0]
        for ek, ep in c['edges'].items():
            if ek in edges and edges[ek] != ep:
                edges[ek] = {'_conflict': [edges[ek], ep]}
            else:
                edges[ek] = ep
    return nodes, edges


def check_merged(ctx, w, cbm_snap, snaps, order):
    exp_nodes, exp_edges = expected_merge({g: snaps[g] for g in order})
    got = sem_graph(cbm_snap) if cbm_snap else {'nodes': {}, 'edges': {}}
    ok = True

    def bad(key, clause, **d):
        nonlocal ok
        ok = False
        ctx.violation(f'C14/{key}', clause, dict(w, order=order, **d))
    ctx.count('clause:union')
    if set(got['nodes']) != set(exp_nodes):
        bad('merge-node-set-differs', 'the combined model is the union of the elements of the merged models, shared elements once',
            missing=sorted(set(exp_nodes) - set(got['nodes']))[:6], extra=sorted(set(got['nodes']) - set(exp_nodes))[:6])
        return False
    if cbm_snap.get('dup_node_ids'):
        bad('merge-duplicates-shared-element', 'shared elements appear once', dups=cbm_snap['dup_node_ids'])
    ge = {k: v for k, v in got['edges'].items()}
    if set(ge) != set(exp_edges):
        bad('merge-connection-set-differs', 'the combined model is the union of the connections of the merged models',
            missing=sorted(set(exp_edges) - set(ge))[:6], extra=sorted(set(ge) - set(exp_edges))[:6])
    else:
        for ek, ep in exp_edges.items():
            if '_conflict' in ep:
                if ge[ek] not in ep['_conflict']:
                    bad('merge-connection-properties', 'a shared connection keeps the properties of one of its sources', edge=ek, got=ge[ek])
            elif ge[ek] != ep:
                bad('merge-connection-properties', 'connections keep their properties', edge=ek, got=ge[ek], expected=ep)
    ctx.count('clause:contributors')
    ctx.count('clause:delegations-keyed-by-model')
    for nid, q in exp_nodes.items():
        g = got['nodes'][nid]
        ids = (g.get('StructuralInfo') or {}).get('adm_graph_ids')
        if sorted(ids or []) != sorted(q['_contrib']) or len(ids or []) != len(set(ids or [])):
            bad('contributors-wrong', 'every element records exactly the set of delegation models that contributed it',
                node=nid, got=ids, expected=sorted(q['_contrib']))
        for dp in DELPROPS:
            if g.get(dp, {}) != q.get(dp, {}):
                bad('delegations-not-keyed-by-contributing-model', 'delegations are keyed by the contributing model\'s id',
                    node=nid, prop=dp, got=g.get(dp), expected=q.get(dp))
        base = {k: v for k, v in g.items() if k not in DELPROPS and k != 'StructuralInfo' and k != 'GraphID'}
        eb = {k: v for k, v in q['_base'].items() if k != 'GraphID'}
        if base != eb and not q.get('_base_conflict'):
            bad('merged-element-properties-differ', 'other properties equal the sources\'', node=nid,
                diff=[(k, eb.get(k), base.get(k)) for k in set(eb) | set(base) if eb.get(k) != base.get(k)][:5])
    return ok


def leftover_connections(cur, snaps, merged):
    """Connections of the combined model that none of the models merged at the moment has, but a model that is not (any more)
    merged does: what an unmerge left behind between elements that stay."""
    if not cur:
        return []
    have = set()
    for g in merged:
        have |= set(snaps[g]['edges'])
    gone = set()
    for g, sn in snaps.items():
        if g not in merged:
            gone |= set(sn['edges'])
    return sorted(e for e in cur['edges'] if e not in have and e in gone)


KEEPS_CONNECTION = 'C14/unmerge-keeps-connection-only-the-unmerged-model-contributed'


def one_family(ctx, imp, tag):
    CBM = cbm_class()
    adms, scripts = build_family(ctx, imp, tag)
    if not adms:
        return
    ctx.count('families')
    rng = ctx.subrng('ops', tag)
    gids = [a.graph_id for a in adms]
    snaps = {g: canon.graph_snapshot(imp, g) for g in gids}
    fh = __import__('vlib.core', fromlist=['digest']).digest(snaps)
    shared = [n for n in set().union(*[set(s['nodes']) for s in snaps.values()])
              if sum(n in s['nodes'] for s in snaps.values()) > 1]
    shared_edges = [e for e in set().union(*[set(s['edges']) for s in snaps.values()])
                    if sum(e in s['edges'] for s in snaps.values()) > 1]
    if shared:
        ctx.count('shared-elements-seen')
    if shared_edges:
        ctx.count('shared-edges-seen')
    w = {'scripts': [s[:40] for s in scripts], 'adms': gids}
    if tag == 0:
        ctx.sample({'adms': gids, 'sizes': {g: len(s['nodes']) for g, s in snaps.items()}, 'shared': shared[:6]})
    by_id = {a.graph_id: a for a in adms}
    results = {}
    k = 0

    def fresh_cbm():
        nonlocal k
        k += 1
        return CBM(graph_id=f'cbm-{tag}-{k}', importer=imp)

    def sources_ok(where):
        ctx.count('clause:sources-untouched')
        for g in gids:
            now = canon.graph_snapshot(imp, g)
            if now != snaps[g]:
                ctx.violation('C14/merge-alters-source-model', 'merging does not alter the source models',
                              dict(w, source=g, where=where, diff=canon.diff(snaps[g], now)))
                return False
        return True
    orders = list(itertools.permutations(gids)) if len(gids) <= 3 else rng.sample(list(itertools.permutations(gids)), 8)
    for order in orders:
        cbm = fresh_cbm()
        ctx.count('orders')
        ctx.seen([fh, list(order)], bool(shared))
        try:
            for pos, g in enumerate(order):
                before = canon.graph_snapshot(imp, cbm.graph_id)
                cbm.merge_adm(adm=by_id[g])
                if not sources_ok(f'merge {g}'):
                    return
                # no temporary graph may be left in the store
                left = [x for x in canon.store_snapshot(imp)[0] if x not in gids and not x.startswith('cbm-')]
                if left:
                    ctx.violation('C14/merge-leaves-temporary-graph', 'merging leaves nothing but the combined model behind', dict(w, left=left))
                    return
                after = canon.graph_snapshot(imp, cbm.graph_id)
                if not check_merged(ctx, w, after, snaps, list(order[:pos + 1])):
                    return
                # merge ; unmerge restores the previous combined model
                if rng.random() < 0.5:
                    ctx.count('clause:merge-unmerge-inverse')
                    cbm.unmerge_adm(graph_id=g)
                    back = canon.graph_snapshot(imp, cbm.graph_id)
                    lo = leftover_connections(back, snaps, list(order[:pos]))
                    if lo:
                        ctx.violation(KEEPS_CONNECTION, 'unmerging a model removes exactly what only it contributed - a connection between two '
                                      'elements that other models contribute too included', dict(w, order=list(order[:pos + 1]), unmerged=g, connections=lo))
                        cbm.merge_adm(adm=by_id[g])
                        continue
                    if sem_graph(back or {'nodes': {}, 'edges': {}}) != sem_graph(before or {'nodes': {}, 'edges': {}}):
                        ctx.violation('C14/unmerge-does-not-restore', 'merge followed by unmerge restores the previous combined model',
                                      dict(w, order=list(order[:pos + 1]), unmerged=g,
                                           diff=canon.diff(sem_graph(before or {'nodes': {}, 'edges': {}}), sem_graph(back or {'nodes': {}, 'edges': {}}))))
                        return
                    # ... also as seen through the documented getter (a delegation property that un-merging could only blank reads as unset)
                    ctx.count('clause:delegations-readable-after-unmerge')
                    for nid in sorted((back or {'nodes': {}})['nodes']):
                        for prop in ('LabelDelegations', 'CapacityDelegations'):
                            try:
                                v = cbm.get_node_json_property_as_object(node_id=nid, prop_name=prop)
                            except Exception as e:
                                ctx.violation('C14/delegations-unreadable-after-unmerge', 'merge followed by unmerge restores the previous combined model '
                                              '(reading the delegations of a node that lost them must say "none", not fail)',
                                              dict(w, unmerged=g, node=nid, prop=prop, error=f'{type(e).__name__}: {str(e)[:160]}'))
                                return
                            exp = (before or {'nodes': {}})['nodes'].get(nid, {}).get(prop)
                            if (v in (None, {})) != (exp in (None, '', 'None', '{}')):
                                ctx.violation('C14/delegations-differ-after-unmerge', 'merge followed by unmerge restores the previous combined model',
                                              dict(w, unmerged=g, node=nid, prop=prop, before=exp, read_after=v))
                                return
                    cbm.merge_adm(adm=by_id[g])
            results[order] = sem_graph(canon.graph_snapshot(imp, cbm.graph_id))
        except Exception as e:
            ctx.violation('C14/merge-raises', f'merge/unmerge raised {type(e).__name__}: {str(e)[:200]}', dict(w, order=list(order)))
            return
        finally:
            imp.delete_graph(graph_id=cbm.graph_id)
    ctx.count('clause:order-independent')
    vals = list(results.items())
    for o, r in vals[1:]:
        r0 = dict(vals[0][1])
        if {'nodes': {n: {k: v for k, v in p.items() if k != 'GraphID'} for n, p in r['nodes'].items()}, 'edges': r['edges']} != \
           {'nodes': {n: {k: v for k, v in p.items() if k != 'GraphID'} for n, p in r0['nodes'].items()}, 'edges': r0['edges']}:
            ctx.violation('C14/merge-order-dependent', 'the result does not depend on merge order',
                          dict(w, order_a=list(vals[0][0]), order_b=list(o), diff=canon.diff(vals[0][1], r)))
            return
    # two snapshots outstanding at once, the model changing in between, rollback to the OLDER one
    if len(gids) >= 2:
        cbm = fresh_cbm()
        hist = []
        try:
            a, b = rng.sample(gids, 2)
            cbm.merge_adm(adm=by_id[a])
            s1 = cbm.snapshot()
            st1 = sem_graph(canon.graph_snapshot(imp, cbm.graph_id))
            cbm.merge_adm(adm=by_id[b])
            s2 = cbm.snapshot()
            hist = [['merge', a], ['snapshot', s1], ['merge', b], ['snapshot', s2], ['rollback', s1]]
            cbm.rollback(graph_id=s1)
            ctx.count('clause:rollback-to-older-of-two-snapshots')
            now = sem_graph(canon.graph_snapshot(imp, cbm.graph_id) or {'nodes': {}, 'edges': {}})
            if now != st1:
                ctx.violation('C14/rollback-does-not-restore', 'rolling back to a snapshot restores the combined model as it was',
                              dict(w, history=hist, same_id=(s1 == s2), diff=canon.diff(st1, now)))
                return
            if s2 != s1 and canon.graph_snapshot(imp, s2) is not None:
                imp.delete_graph(graph_id=s2)
        except Exception as e:
            ctx.violation('C14/interleaving-raises', f'{type(e).__name__}: {str(e)[:200]}', dict(w, history=hist))
            return
    # random interleavings of merge / unmerge / snapshot / rollback
    for it in range(ctx.pick(2, 6)):
        cbm = fresh_cbm()
        merged, hist, saved = [], [], {}
        ctx.count('interleavings')
        try:
            for step in range(rng.randrange(3, 11)):
                r = rng.random()
                if r < 0.45 and len(merged) < len(gids):
                    g = rng.choice([x for x in gids if x not in merged])
                    cbm.merge_adm(adm=by_id[g])
                    merged.append(g)
                    hist.append(['merge', g])
                elif r < 0.65 and merged:
                    g = rng.choice(merged)
                    cbm.unmerge_adm(graph_id=g)
                    merged.remove(g)
                    hist.append(['unmerge', g])
                elif r < 0.85 and merged:
                    sid = cbm.snapshot()
                    hist.append(['snapshot', sid])
                    if sid in saved:
                        ctx.count('snapshots-outstanding-together')
                        if saved[sid][1] != sem_graph(canon.graph_snapshot(imp, cbm.graph_id)):
                            ctx.violation('C14/snapshot-replaces-an-outstanding-one', 'rolling back to a snapshot taken before restores the '
                                          'combined model as it was then: a later snapshot must not take the place of an earlier one that '
                                          'has not been rolled back', dict(w, history=hist, snapshot_id=sid))
                            return
                    elif saved:
                        ctx.count('snapshots-outstanding-together')
                    saved[sid] = (list(merged), sem_graph(canon.graph_snapshot(imp, cbm.graph_id)))
                elif saved:
                    sid = rng.choice(sorted(saved))
                    m0, s0 = saved.pop(sid)
                    cbm.rollback(graph_id=sid)
                    ctx.count('clause:rollback-restores')
                    now = sem_graph(canon.graph_snapshot(imp, cbm.graph_id) or {'nodes': {}, 'edges': {}})
                    hist.append(['rollback', sid])
                    if now != s0:
                        ctx.violation('C14/rollback-does-not-restore', 'rolling back to a snapshot restores the combined model as it was',
                                      dict(w, history=hist, diff=canon.diff(s0, now)))
                        return
                    if canon.graph_snapshot(imp, sid) is not None:
                        ctx.violation('C14/rollback-keeps-snapshot', 'rollback consumes the snapshot', dict(w, history=hist))
                        return
                    merged = m0
                else:
                    continue
                ctx.seen([fh, hist], bool(shared))
                cur = canon.graph_snapshot(imp, cbm.graph_id)
                lo = leftover_connections(cur, snaps, list(merged))
                if lo:
                    ctx.violation(KEEPS_CONNECTION, 'unmerging a model removes exactly what only it contributed - a connection between two '
                                  'elements that other models contribute too included', dict(w, history=hist, connections=lo))
                    break       # what follows would be judged on a combined model that is already off
                if merged:
                    if not check_merged(ctx, dict(w, history=hist), cur, snaps, list(merged)):
                        return
                elif cur is not None and cur['nodes']:
                    ctx.violation('C14/unmerge-leaves-elements', 'unmerging every model leaves an empty combined model',
                                  dict(w, history=hist, left=sorted(cur['nodes'])[:6]))
                    return
            if not sources_ok('interleaving'):
                return
        except Exception as e:
            ctx.violation('C14/interleaving-raises', f'{type(e).__name__}: {str(e)[:200]}', dict(w, history=hist))
            return
        finally:
            for g in list(canon.store_snapshot(imp)[0]):
                if g not in gids:
                    imp.delete_graph(graph_id=g)


def scenario_rejected_merge(ctx, imp, tag):
    """A model whose merge is refused (it delegates the capacity of a shared stitch element the combined model already has a
    capacity delegation for - and, unlike the model merged before, also its labels): once that model is unmerged again, whatever
    the refused merge had begun is gone and the combined model is what it was before."""
    from fim.graph.resources.networkx_adm import NetworkXADMGraph
    from fim.slivers.capacities_labels import StructuralInfo
    imp.delete_all_graphs()
    LAB, CAP = 'LabelDelegations', 'CapacityDelegations'
    rng = ctx.subrng('rejected', tag)

    def deleg(did, kind):
        return json.dumps({did: {'pool_id': '_', 'labels': {'vlan_range': '100-200'}} if kind == LAB else
                                {'pool_id': '_', 'capacities': {'bw': 100}}})

    def make(gid, s, link_props):
        g = NetworkXADMGraph(graph_id=gid, importer=imp)
        nodes = {f'{s}-sw': ('NetworkNode', {'Type': 'Switch', 'Site': s, CAP: deleg('primary', CAP)}),
                 f'{s}-ns': ('NetworkService', {'Type': 'MPLS'}),
                 f'{s}-cp': ('ConnectionPoint', {'Type': 'TrunkPort', LAB: deleg('primary', LAB)}),
                 'link-ab': ('Link', dict({'Type': 'L2Path', 'StitchNode': 'true'}, **link_props))}
        for nid, (cls, props) in nodes.items():
            g.add_node(node_id=nid, label=cls, props=dict(props, Name=nid, StructuralInfo=StructuralInfo().to_json()))
        for a, rel, b in ((f'{s}-sw', 'has', f'{s}-ns'), (f'{s}-ns', 'connects', f'{s}-cp'), (f'{s}-cp', 'connects', 'link-ab')):
            g.add_link(node_a=a, rel=rel, node_b=b)
        return g
    first, second = rng.sample([LAB, CAP], 2)
    A = make(f'adm-A-{tag}', 'a', {second: deleg('primary', second)})
    B = make(f'adm-Bbad-{tag}', 'b', {first: deleg('primary', first), second: deleg('primary', second)})
    cbm = cbm_class()(graph_id=f'cbm-rej-{tag}', importer=imp)
    w = {'scenario': 'rejected-merge', 'conflicting_property': second, 'also_delegated': first}
    ctx.count('scenario:rejected-merge')
    try:
        cbm.merge_adm(adm=A)
        before = sem_graph(canon.graph_snapshot(imp, cbm.graph_id))
        try:
            cbm.merge_adm(adm=B)
            ctx.count('scenario:rejected-merge:accepted')
            return
        except Exception:
            ctx.count('scenario:rejected-merge:refused')
        cbm.unmerge_adm(graph_id=B.graph_id)
        after = sem_graph(canon.graph_snapshot(imp, cbm.graph_id) or {'nodes': {}, 'edges': {}})
        ctx.count('clause:refused-merge-then-unmerge-restores')
        if after != before:
            ctx.violation('C14/refused-merge-then-unmerge-does-not-restore', 'unmerging a model removes exactly what only it contributed: after a '
                          'merge that was refused and the unmerge of that model, the combined model is what it was before',
                          dict(w, diff=canon.diff(before, after)))
    except Exception as e:
        ctx.violation('C14/interleaving-raises', f'{type(e).__name__}: {str(e)[:200]}', w)
    finally:
        imp.delete_all_graphs()


def run(ctx):
    imps = rawgraph.importers()
    imp = imps['shared'][0]
    for k in range(ctx.pick(2, 12)):
        scenario_rejected_merge(ctx, imp, k)
    n = ctx.pick(20, 400)
    for i in range(n):
        one_family(ctx, imp, i)
        if ctx.out_of_time():
            break
    imp.delete_all_graphs()


def replay(ctx, case):
    ctx.mark_inconclusive('replay: re-run the tier with the recorded seed/shard (families are generated from the seed); the witness '
                          'contains the build scripts and the operation order')


LEVEL_TEXT = ('Runtime monitoring of the real merge_adm/unmerge_adm/snapshot/rollback code executed on the in-memory shared store through '
              'a harness class: after every step the combined model\'s canonical snapshot is compared with set algebra over the source '
              'snapshots (union of elements and connections, contributors, delegations re-keyed by model id, other properties), all '
              'merge permutations must agree, sources must stay untouched, merge;unmerge and snapshot;...;rollback must restore. '
              'Held on the families and orders observed.')
LEVEL_NOTE = ('Trusted: the harness class binding (real functions, in-memory store), generator bookkeeping. Not covered: Neo4j/APOC '
              'mergeNodes semantics on a server.')
TECHNIQUE = 'set-algebra oracle over canonical snapshots after every merge/unmerge/snapshot/rollback step, all merge permutations'
