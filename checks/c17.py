"""C17 - sliver comparison reports exactly the differences between two slivers.

Workload: a pure-data description ("spec") of a node sliver (0-3 catalogue-built components of NIC and
non-NIC kinds, 0-2 node-level network services with 0-4 interfaces, DedicatedPort interfaces with 0-3
sub-interfaces) is generated; an EDIT SCRIPT (list of concrete edits) is interpreted on a copy of the spec.
Both sides are built into real slivers independently, field by field (so equal values are distinct objects).
The oracle derives the expected TopologyDiff from the SCRIPT (never from comparing slivers) and judges the
real `diff` at the three levels that exist in the library:
    node       NodeSliver.diff            components / node-level services added-removed, node/component/service flags
    service    NetworkServiceSliver.diff  interfaces added-removed, service/interface flags (SUB_INTERFACES on DedicatedPort)
    interface  InterfaceSliver.diff       sub-interfaces added-removed, sub-interface flags
in both directions (symmetry) and against a second, independently built identical copy (and a deepcopy).
"""
import copy
import json

PROPERTY = 'C17'
LEVEL = 'exploration'
SHARDS = {'quick': 4, 'thorough': 16}
TIME_BUDGET = {'quick': 45, 'thorough': 780}
RULE = ('a case = (spec of a node sliver, edit script of 0-5 concrete edits); both sides are rebuilt from the specs by '
        'separate constructor calls (catalogue generate_component + setters), plus an identical rebuilt copy and a '
        'deepcopy; every common service and DedicatedPort interface is diffed as well, both directions. Distinct by '
        'the JSON of (spec, script); non-trivial when the sliver has at least one component or node-level service '
        '(a nested comparison happens) and, when a script is present, at least one edit of it is effective')
ASSUMPTIONS = [
    'elements are matched by name (all FIM containers are dicts keyed by resource_name); added elements get fresh names, '
    'same-named elements keep the same node_id on both sides',
    'label / capacity values are non-empty (an all-None Labels() or all-zero Capacities() versus None is outside the '
    'claimed domain); list-valued labels are never merely reordered; user data are compared as equal only when built '
    'from equal Python values',
    'recorded but not judged (statement leaves them open): SUB_INTERFACES bit of a component/interface when only a '
    'property of something below it changed; sub-interfaces under non-SmartNIC components at node level; interface '
    'changes of node-level services at node level; the bucket in which InterfaceSliver.diff lists the interface itself',
    'held on the executions observed, not a proof',
]
KNOWN_FLAGS = ['LABELS', 'CAPACITIES', 'USER_DATA', 'SUB_INTERFACES']
PROPS = ['labels', 'capacities', 'user_data']
PROP_FLAG = {'labels': 'LABELS', 'capacities': 'CAPACITIES', 'user_data': 'USER_DATA'}
EDIT_KINDS = ['add_comp', 'remove_comp', 'add_nsvc', 'remove_nsvc', 'add_if', 'remove_if', 'add_sub', 'remove_sub',
              'chg', 'equal_ud', 'untracked', 'toggle_ec']
REQUIRED = (['edit:' + k for k in EDIT_KINDS] +
            ['chg:%s:%s' % (k, p) for k in ('node', 'comp', 'nsvc', 'nif', 'nsub', 'csvc', 'cif', 'csub') for p in PROPS] +
            ['case:no-edit', 'case:single-edit', 'case:combined-edits',
             'level:node', 'level:service', 'level:interface',
             'clause:identical-copy', 'clause:deepcopy-copy', 'clause:symmetry',
             'judged:node:components:added', 'judged:node:components:removed',
             'judged:node:services:added', 'judged:node:services:removed',
             'judged:service:interfaces:added', 'judged:service:interfaces:removed',
             'judged:interface:interfaces:added', 'judged:interface:interfaces:removed'] +
            ['judged-flag:%s:%s:%s' % (lk, f, v)
             for lk in ('node:node', 'node:component', 'node:service', 'service:service', 'service:interface',
                        'interface:interface', 'interface:subinterface')
             for f in ('LABELS', 'CAPACITIES', 'USER_DATA') for v in ('set', 'clear')] +
            ['judged-flag:node:component:SUB_INTERFACES:set', 'judged-flag:node:component:SUB_INTERFACES:clear',
             'judged-flag:service:interface:SUB_INTERFACES:set', 'judged-flag:service:interface:SUB_INTERFACES:clear',
             'shape:smartnic', 'shape:sharednic', 'shape:fpga', 'shape:non-nic', 'shape:dedicated-with-subs',
             'shape:container:none->full', 'shape:container:full->none', 'shape:container:none->empty',
             'shape:container:empty->none', 'shape:container:empty->full', 'shape:container:full->empty'])


class HarnessError(Exception):
    pass


# ----------------------------------------------------------------------------------------------------------------
# vocabulary discovered from the library at run time
class Vocab:
    ready = False

    @classmethod
    def load(cls, ctx=None):
        if cls.ready:
            return
        from fim.slivers.capacities_labels import Labels, Capacities
        from fim.slivers.topology_diff import WhatsModifiedFlag
        import fim.slivers.component_catalog as cc
        cls.flags = [n for n in WhatsModifiedFlag.__members__ if n != 'NONE']
        cls.label_fields = list(Labels().__dict__.keys())
        cls.cap_fields = list(Capacities().__dict__.keys())
        cls.models = {}
        for mt, d in cc.ComponentModelTypeMap.items():
            cls.models[mt.name] = {'type': d['Type'], 'nif': len(d.get('Interfaces', {}) or {})}
        cls.ready = True
        if ctx is not None:
            ctx.info['flags'] = cls.flags
            ctx.info['catalog_models'] = sorted(cls.models)
            ctx.info['label_fields_not_generated'] = sorted(set(cls.label_fields) - set(LABEL_GEN))
            ctx.info['capacity_fields'] = cls.cap_fields
            missing = [f for f in KNOWN_FLAGS if f not in cls.flags]
            if missing:
                ctx.mark_inconclusive(f'WhatsModifiedFlag lacks {missing}: the statement cannot be judged')
            extra = [f for f in cls.flags if f not in KNOWN_FLAGS]
            if extra:
                ctx.info['flags_not_judged'] = extra
            if not cls.models or not cls.cap_fields or not set(LABEL_GEN) & set(cls.label_fields):
                ctx.mark_inconclusive('catalogue / label / capacity vocabulary is empty')


def _hex(rng, n):
    return ''.join(rng.choice('0123456789abcdef') for _ in range(n))


WORDS = ['p1', 'eth0', 'Bob', 'nic one', 'ä-port', 'x', 'HundredGigE0/0/0/1', 'a.b', 'z_9']

LABEL_GEN = {
    'vlan': lambda r: str(r.randrange(1, 4096)),
    'inner_vlan': lambda r: str(r.randrange(1, 4096)),
    'vlan_range': lambda r: (lambda a: f'{a}-{a + r.randrange(0, 90)}')(r.randrange(1, 4000)),
    'ipv4': lambda r: (f'10.{r.randrange(256)}.{r.randrange(256)}.{r.randrange(1, 255)}' if r.random() < .7 else
                       [f'192.168.{r.randrange(256)}.{i + 1}' for i in range(r.randrange(1, 4))]),
    'ipv4_subnet': lambda r: f'10.{r.randrange(256)}.{r.randrange(256)}.0/24',
    'ipv6': lambda r: f'2001:db8:{_hex(r, 4)}::{_hex(r, 2)}',
    'mac': lambda r: ':'.join(_hex(r, 2) for _ in range(6)),
    'bdf': lambda r: f'0000:{_hex(r, 2)}:{_hex(r, 2)}.{r.randrange(8)}',
    'local_name': lambda r: r.choice(WORDS) + str(r.randrange(100)),
    'local_type': lambda r: r.choice(WORDS),
    'device_name': lambda r: r.choice(WORDS) + str(r.randrange(100)),
    'instance': lambda r: 'instance-' + _hex(r, 8),
    'instance_parent': lambda r: 'worker' + str(r.randrange(20)) + '.fabric',
    'asn': lambda r: str(r.randrange(1, 2 ** 31)),
    'region': lambda r: 'us-' + r.choice(['east', 'west']) + '-' + str(r.randrange(1, 9)),
    'numa': lambda r: str(r.randrange(0, 8)),
    'ipv4_range': lambda r: (lambda a, b: f'10.{a}.{b}.1-10.{a}.{b}.{r.randrange(2, 255)}')(r.randrange(256), r.randrange(256)),
    'ipv6_range': lambda r: (lambda a: f'2001:db8:{a}::1-2001:db8:{a}::{_hex(r, 3)}')(_hex(r, 4)),
    'ipv6_subnet': lambda r: f'2001:db8:{_hex(r, 4)}::/64',
    'account_id': lambda r: 'acct-' + _hex(r, 10),
    'bgp_key': lambda r: 'key_' + _hex(r, 12),
    'usb_id': lambda r: f'{_hex(r, 4)}:{_hex(r, 4)}',
}


def valid_labels(d):
    from fim.slivers.capacities_labels import Labels
    try:
        Labels(**copy.deepcopy(d))
        return True
    except Exception:                             # noqa
        return False


def gen_labels(rng):
    fs = [f for f in Vocab.label_fields if f in LABEL_GEN]
    for _ in range(20):
        d = {}
        for f in rng.sample(fs, rng.randrange(1, min(4, len(fs)) + 1)):
            d[f] = LABEL_GEN[f](rng)
        if valid_labels(d):
            return d
    raise HarnessError('could not generate valid labels')


def gen_caps(rng):
    fs = Vocab.cap_fields
    d = {}
    for f in rng.sample(fs, rng.randrange(1, min(4, len(fs)) + 1)):
        d[f] = rng.choice([1, 2, 4, 10, 25, 100, 9000, 2 ** 31, rng.randrange(1, 1000)])
    return d


def gen_json(rng, depth=0):
    t = rng.randrange(7 if depth < 2 else 4)
    if t == 0:
        return rng.randrange(-5, 1000)
    if t == 1:
        return rng.choice(WORDS) + rng.choice(['', ' é中', '"q"', '\\n'])
    if t == 2:
        return rng.choice([True, False, None, 1.5])
    if t == 3:
        return rng.choice(WORDS)
    if t == 4:
        return [gen_json(rng, depth + 1) for _ in range(rng.randrange(0, 4))]
    return {rng.choice(WORDS) + str(i): gen_json(rng, depth + 1) for i in range(rng.randrange(0, 4))}


def gen_ud(rng):
    """user data value; never None (None = 'no user data')."""
    v = gen_json(rng)
    if v is None or isinstance(v, str):           # a top-level str would be taken as JSON text by JSONData
        v = {'v': v}
    if isinstance(v, dict) and rng.random() < 0.3:
        v['flag'] = rng.choice([0, 1, True, False])
    return v


def different_labels(rng, old):
    for _ in range(50):
        d = copy.deepcopy(old) if old else {}
        m = rng.randrange(4) if d else 3
        fs = [f for f in Vocab.label_fields if f in LABEL_GEN]
        if m == 0:                                  # change the value of one field
            f = rng.choice(sorted(d))
            d[f] = LABEL_GEN[f](rng) if f in LABEL_GEN else str(d[f]) + '9'
        elif m == 1 and len(d) > 1:                 # drop one field
            d.pop(rng.choice(sorted(d)))
        elif m == 2 and any(isinstance(v, list) for v in d.values()):   # grow a list value
            f = rng.choice(sorted(k for k, v in d.items() if isinstance(v, list)))
            d[f] = d[f] + [d[f][0][:-1] + '7' if not d[f][0].endswith('7') else d[f][0][:-1] + '8']
        else:                                       # add a field / fresh labels
            f = rng.choice(fs)
            if f in d:
                continue
            d[f] = LABEL_GEN[f](rng)
        if d and d != (old or {}) and valid_labels(d):
            return d
    raise HarnessError('could not generate different labels')


def different_caps(rng, old):
    for _ in range(50):
        d = dict(old) if old else {}
        f = rng.choice(Vocab.cap_fields)
        m = rng.randrange(3)
        if m == 0 and f in d and len(d) > 1:
            d.pop(f)                                # value -> 0 (absent)
        else:
            d[f] = d.get(f, 0) + rng.choice([1, 1, 7, 1000])
        if d and d != (old or {}):
            return d
    raise HarnessError('could not generate different capacities')


BOOL_SWAPS = [0]


def different_ud(rng, old):
    # true/false are not the numbers 1/0 in JSON (Python compares them equal): swapping one for the other is a change
    if isinstance(old, dict) and type(old.get('flag')) in (int, bool) and old['flag'] in (0, 1) and rng.random() < 0.6:
        v = copy.deepcopy(old)
        v['flag'] = bool(old['flag']) if type(old['flag']) is int else int(old['flag'])
        BOOL_SWAPS[0] += 1
        return v
    for _ in range(50):
        v = gen_ud(rng)
        if old is None or json.dumps(v, sort_keys=True) != json.dumps(old, sort_keys=True):
            if old is None or v != old:
                return v
    raise HarnessError('could not generate different user data')


# ----------------------------------------------------------------------------------------------------------------
# spec generation
SUFFIX = {'node': ['', '-x', '.y', '_é'], 'comp': ['', ' a', '-b', '.c', '_ü'], 'nic': ['', '-b', '.c', '_ü'],
          'svc': ['', '-x', '.y', '_z'], 'if': ['', '+a', '/b', ':c', ' d', '.e']}
NODE_LEVEL_STYPES = ['FABNetv4', 'FABNetv6', 'L2Bridge', 'P4', 'OVS', 'VLAN', 'MPLS', 'PortMirror']
NODE_LEVEL_ITYPES = ['DedicatedPort', 'DedicatedPort', 'TrunkPort', 'AccessPort', 'ServicePort', 'SharedPort']
UNTRACKED = ['details', 'label_allocations', 'capacity_allocations', 'capacity_hints', 'mf_data', 'stitch_node']


class Gen:
    def __init__(self, rng, start=0):
        self.rng = rng
        self.n = start

    def name(self, prefix, kind):
        self.n += 1
        return f'{prefix}{self.n}{self.rng.choice(SUFFIX[kind])}'

    def nid(self):
        return 'id-' + _hex(self.rng, 12)

    def props(self, p_lab=.5, p_cap=.5, p_ud=.08):
        r = self.rng
        return {'labels': gen_labels(r) if r.random() < p_lab else None,
                'capacities': gen_caps(r) if r.random() < p_cap else None,
                'user_data': gen_ud(r) if r.random() < p_ud else None}

    def sub(self, parent_local_name=None):
        r = self.rng
        p = self.props(0, .3, .08)
        p['labels'] = {'vlan': str(r.randrange(1, 4096))}
        if parent_local_name is not None:
            p['labels']['local_name'] = copy.deepcopy(parent_local_name)
        return {'name': self.name('u', 'if'), 'node_id': self.nid(), 'itype': 'SubInterface', 'P': p, 'U': {},
                'subs': [], 'ec': False}

    def iface(self, itype=None, nsubs=None):
        r = self.rng
        itype = itype or r.choice(NODE_LEVEL_ITYPES)
        i = {'name': self.name('i', 'if'), 'node_id': self.nid(), 'itype': itype, 'P': self.props(.6, .5, .08), 'U': {},
             'subs': [], 'ec': r.random() < .2}
        if itype == 'DedicatedPort':
            n = r.choice([0, 0, 1, 2, 3]) if nsubs is None else nsubs
            ln = (i['P']['labels'] or {}).get('local_name')
            i['subs'] = [self.sub(ln) for _ in range(n)]
        return i

    def nsvc(self):
        r = self.rng
        return {'name': self.name('s', 'svc'), 'node_id': self.nid(), 'stype': r.choice(NODE_LEVEL_STYPES),
                'P': self.props(.5, .4, .08), 'U': {}, 'ec': r.random() < .2,
                'ifs': [self.iface() for _ in range(r.choice([0, 1, 1, 2, 3, 4]))]}

    def comp(self, group=None):
        """Ask the catalogue what the component looks like and write that down as data."""
        from fim.slivers.component_catalog import ComponentCatalog
        from fim.slivers.capacities_labels import Labels
        import fim.slivers.component_catalog as cc
        r = self.rng
        models = sorted(Vocab.models)
        if group is None:
            group = r.choice(['SmartNIC', 'SmartNIC', 'SharedNIC', 'FPGA', 'other', 'other'])
        cand = [m for m in models if (Vocab.models[m]['type'] == group if group != 'other'
                                      else Vocab.models[m]['nif'] == 0)]
        mt = r.choice(cand or models)
        info = Vocab.models[mt]
        name = self.name('c', 'nic' if info['nif'] else 'comp')
        c = {'name': name, 'node_id': self.nid(), 'mt': mt, 'ctype': info['type'], 'P': self.props(.4, .4, .08), 'U': {},
             'cat_ifs': [], 'svc': None}
        if info['nif']:
            for _ in range(info['nif']):
                lab = {'mac': LABEL_GEN['mac'](r)}
                if r.random() < .5:
                    lab['bdf'] = LABEL_GEN['bdf'](r)
                c['cat_ifs'].append({'node_id': self.nid(), 'labels': lab})
            nsid = self.nid()
            cs = ComponentCatalog().generate_component(
                name=name, model_type=cc.ComponentModelType[mt], ns_node_id=nsid,
                interface_node_ids=[x['node_id'] for x in c['cat_ifs']],
                interface_labels=[Labels(**x['labels']) for x in c['cat_ifs']])
            nss = list(cs.network_service_info.network_services.values())
            if len(nss) != 1:
                raise HarnessError('catalogue component with %d services' % len(nss))
            ns = nss[0]
            sp = self.props(.2, .2, .06)
            svc = {'name': ns.resource_name, 'node_id': nsid, 'stype': ns.get_type().name, 'P': sp, 'U': {}, 'ec': False,
                   'ifs': []}
            for isl in ns.interface_info.interfaces.values():
                p = {'labels': lab_dict(isl.get_labels()), 'capacities': cap_dict(isl.get_capacities()),
                     'user_data': gen_ud(r) if r.random() < .06 else None}
                i = {'name': isl.resource_name, 'node_id': isl.node_id, 'itype': isl.get_type().name, 'P': p, 'U': {},
                     'subs': [], 'ec': r.random() < .2}
                if i['itype'] == 'DedicatedPort':
                    ln = (p['labels'] or {}).get('local_name')
                    i['subs'] = [self.sub(ln) for _ in range(r.choice([0, 0, 1, 2, 3]))]
                svc['ifs'].append(i)
            c['svc'] = svc
        return c

    def node(self):
        r = self.rng
        shape = r.random()
        ncomp = r.choice([0, 1, 1, 2, 2, 3])
        nsvc = r.choice([0, 0, 1, 1, 2])
        if shape < .05:
            ncomp = nsvc = 0
        return {'name': self.name('nd', 'node'), 'node_id': self.nid(), 'ntype': r.choice(['VM', 'Server', 'Container']),
                'site': r.choice(['RENC', 'UKY', 'STAR']), 'P': self.props(.5, .6, .1), 'U': {},
                'ec_comps': r.random() < .2, 'ec_svcs': r.random() < .2,
                'comps': [self.comp() for _ in range(ncomp)], 'svcs': [self.nsvc() for _ in range(nsvc)]}


def lab_dict(lab):
    if lab is None:
        return None
    return {k: copy.deepcopy(v) for k, v in lab.__dict__.items() if v is not None} or None


def cap_dict(cap):
    if cap is None:
        return None
    return {k: v for k, v in cap.__dict__.items() if v} or None


# ----------------------------------------------------------------------------------------------------------------
# spec -> real slivers (every call creates new objects for everything)
UD_FORM = [0]     # how the *same* user-data value is handed to UserData(): 0 object, 1 indented JSON text, 2 JSON text with
                  # the keys in reverse order - equal values, different stored text


def _ud_form(value):
    import json as _json
    f = UD_FORM[0]
    if f == 0 or not isinstance(value, (dict, list)):
        return copy.deepcopy(value)
    if f == 1:
        return _json.dumps(value, indent=2)

    def rev(o):
        if isinstance(o, dict):
            return {k: rev(o[k]) for k in reversed(list(o))}
        if isinstance(o, list):
            return [rev(x) for x in o]
        return o
    return _json.dumps(rev(value), separators=(',', ':'))


def apply_props(sl, spec):
    from fim.slivers.capacities_labels import Labels, Capacities, CapacityHints
    from fim.slivers.json_data import UserData, MeasurementData
    P = spec['P']
    sl.set_labels(Labels(**copy.deepcopy(P['labels'])) if P['labels'] is not None else None)
    sl.set_capacities(Capacities(**dict(P['capacities'])) if P['capacities'] is not None else None)
    sl.set_user_data(UserData(_ud_form(P['user_data'])) if P['user_data'] is not None else None)
    for k, v in spec.get('U', {}).items():
        if k == 'details':
            sl.set_details(v)
        elif k == 'label_allocations':
            sl.set_label_allocations(Labels(**copy.deepcopy(v)))
        elif k == 'capacity_allocations':
            sl.set_capacity_allocations(Capacities(**dict(v)))
        elif k == 'capacity_hints':
            sl.set_capacity_hints(CapacityHints(instance_type=v))
        elif k == 'mf_data':
            sl.set_mf_data(MeasurementData(copy.deepcopy(v)))
        elif k == 'stitch_node':
            sl.set_stitch_node(v)
        else:
            raise HarnessError('unknown untracked field ' + k)


def build_iface(spec):
    from fim.slivers.interface_info import InterfaceSliver, InterfaceInfo, InterfaceType
    i = InterfaceSliver()
    i.set_name(spec['name'])
    i.set_type(InterfaceType[spec['itype']])
    i.node_id = spec['node_id']
    apply_props(i, spec)
    attach_subs(i, spec)
    return i


def attach_subs(isl, spec):
    from fim.slivers.interface_info import InterfaceInfo
    if spec['subs'] or spec.get('ec'):
        ii = InterfaceInfo()
        for s in spec['subs']:
            ii.add_interface(build_iface(s))
        isl.interface_info = ii
    else:
        isl.interface_info = None


def build_svc(spec):
    from fim.slivers.network_service import NetworkServiceSliver, ServiceType, NSLayer
    from fim.slivers.interface_info import InterfaceInfo
    s = NetworkServiceSliver()
    s.set_name(spec['name'])
    s.set_type(ServiceType[spec['stype']])
    s.set_layer(NetworkServiceSliver.ServiceConstraints[ServiceType[spec['stype']]].layer)
    s.node_id = spec['node_id']
    apply_props(s, spec)
    if spec['ifs'] or spec.get('ec'):
        ii = InterfaceInfo()
        for i in spec['ifs']:
            ii.add_interface(build_iface(i))
        s.interface_info = ii
    return s


def build_comp(spec):
    from fim.slivers.component_catalog import ComponentCatalog
    from fim.slivers.capacities_labels import Labels
    from fim.slivers.interface_info import InterfaceInfo
    import fim.slivers.component_catalog as cc
    kw = {}
    if spec['cat_ifs']:
        kw = dict(ns_node_id=spec['svc']['node_id'] if spec['svc'] else None,
                  interface_node_ids=[x['node_id'] for x in spec['cat_ifs']],
                  interface_labels=[Labels(**copy.deepcopy(x['labels'])) for x in spec['cat_ifs']])
    cs = ComponentCatalog().generate_component(name=spec['name'], model_type=cc.ComponentModelType[spec['mt']], **kw)
    cs.node_id = spec['node_id']
    apply_props(cs, spec)
    if spec['svc'] is not None:
        nss = list(cs.network_service_info.network_services.values())
        ns = nss[0]
        svc = spec['svc']
        if ns.resource_name != svc['name']:
            raise HarnessError('catalogue service name changed between calls')
        apply_props(ns, svc)
        want = {i['name']: i for i in svc['ifs']}
        have = dict(ns.interface_info.interfaces)
        ii = InterfaceInfo()
        for i in svc['ifs']:                      # order of the spec
            if i['name'] in have and i.get('cat', True):
                isl = have[i['name']]
                apply_props(isl, i)
                attach_subs(isl, i)
                ii.add_interface(isl)
            else:
                ii.add_interface(build_iface(i))
        if want or svc.get('ec'):
            ns.interface_info = ii
        else:
            ns.interface_info = None
    return cs


def build_node(spec):
    from fim.slivers.network_node import NodeSliver, NodeType
    from fim.slivers.attached_components import AttachedComponentsInfo
    from fim.slivers.network_service import NetworkServiceInfo
    n = NodeSliver()
    n.set_name(spec['name'])
    n.set_type(NodeType[spec['ntype']])
    n.node_id = spec['node_id']
    n.set_site(spec['site'])
    apply_props(n, spec)
    if spec['comps'] or spec['ec_comps']:
        aci = AttachedComponentsInfo()
        for c in spec['comps']:
            aci.add_device(build_comp(c))
        n.attached_components_info = aci
    if spec['svcs'] or spec['ec_svcs']:
        nsi = NetworkServiceInfo()
        for s in spec['svcs']:
            nsi.add_network_service(build_svc(s))
        n.network_service_info = nsi
    return n


# ----------------------------------------------------------------------------------------------------------------
# paths:  ['node'] ['comp',c] ['csvc',c] ['cif',c,i] ['csub',c,i,u] ['nsvc',s] ['nif',s,i] ['nsub',s,i,u]
FAMILY = {'comp': ('comp', 'csvc', 'cif', 'csub'), 'nsvc': ('nsvc', 'nif', 'nsub'),
          'cif': ('cif', 'csub'), 'nif': ('nif', 'nsub'), 'csvc': ('csvc', 'cif', 'csub'),
          'csub': ('csub',), 'nsub': ('nsub',), 'node': ('node',)}


def under(p, root):
    """p lies in the subtree rooted at root (inclusive)."""
    if root[0] == 'node':
        return True
    return p[0] in FAMILY[root[0]] and tuple(p[1:len(root)]) == tuple(root[1:])


def by_name(lst, name):
    for x in lst:
        if x['name'] == name:
            return x
    return None


def find(tree, path):
    k = path[0]
    try:
        if k == 'node':
            return tree
        if k in ('comp', 'csvc', 'cif', 'csub'):
            c = by_name(tree['comps'], path[1])
            if k == 'comp' or c is None:
                return c
            if k == 'csvc' or c['svc'] is None:
                return c['svc']
            i = by_name(c['svc']['ifs'], path[2])
            if k == 'cif' or i is None:
                return i
            return by_name(i['subs'], path[3])
        s = by_name(tree['svcs'], path[1])
        if k == 'nsvc' or s is None:
            return s
        i = by_name(s['ifs'], path[2])
        if k == 'nif' or i is None:
            return i
        return by_name(i['subs'], path[3])
    except (KeyError, IndexError, TypeError):
        return None


def walk(tree):
    """yield (path tuple, element) for every element of a spec."""
    yield ('node',), tree
    for c in tree['comps']:
        yield ('comp', c['name']), c
        if c['svc'] is not None:
            yield ('csvc', c['name']), c['svc']
            for i in c['svc']['ifs']:
                yield ('cif', c['name'], i['name']), i
                for u in i['subs']:
                    yield ('csub', c['name'], i['name'], u['name']), u
    for s in tree['svcs']:
        yield ('nsvc', s['name']), s
        for i in s['ifs']:
            yield ('nif', s['name'], i['name']), i
            for u in i['subs']:
                yield ('nsub', s['name'], i['name'], u['name']), u


class Interp:
    """Applies edits to `new` (and, for equal_ud, to both sides) and keeps the bookkeeping from which the
    expected diff is derived: which original elements were removed, which elements are new, which tracked
    property of which surviving original element was changed."""

    def __init__(self, base):
        self.old = copy.deepcopy(base)
        self.new = copy.deepcopy(base)
        self.added = set()
        self.removed = set()
        self.changed = {}          # path -> set(props)
        self.touched = set()       # (path, prop) already used by chg / equal_ud
        self.effective = 0

    def is_orig_surviving(self, path):
        path = tuple(path)
        if find(self.new, path) is None or find(self.old, path) is None:
            return False
        return not any(under(path, a) for a in self.added) and not any(under(path, r) for r in self.removed)

    def _parent_list(self, kind, path):
        if kind == 'comp':
            return self.new['comps']
        if kind == 'nsvc':
            return self.new['svcs']
        par = find(self.new, path)
        if par is None:
            raise HarnessError(f'edit target {path} not found')
        return par['ifs'] if kind == 'if' else par['subs']

    def _add(self, lst, elem, path):
        if by_name(lst, elem['name']) is not None:
            raise HarnessError('added name not fresh: ' + elem['name'])
        lst.append(copy.deepcopy(elem))
        if tuple(path) in self.removed:
            raise HarnessError('re-adding a removed name')
        self.added.add(tuple(path))
        self.effective += 1

    def _remove(self, lst, name, path):
        path = tuple(path)
        e = by_name(lst, name)
        if e is None:
            raise HarnessError(f'remove target {path} not found')
        lst.remove(e)
        if path in self.added:
            self.added.discard(path)
            self.effective -= 1
        else:
            self.removed.add(path)
            self.effective += 1
        for p in list(self.changed):
            if under(p, path):
                self.effective -= len(self.changed[p])
                del self.changed[p]
        for a in list(self.added):
            if a != path and under(a, path):
                self.added.discard(a)
                self.effective -= 1
        for r in list(self.removed):
            if r != path and under(r, path):
                self.removed.discard(r)      # subsumed by the removal of the ancestor
                self.effective -= 1

    def apply(self, e):
        op = e['op']
        if op == 'add_comp':
            self._add(self.new['comps'], e['elem'], ['comp', e['elem']['name']])
        elif op == 'remove_comp':
            self._remove(self.new['comps'], e['name'], ['comp', e['name']])
        elif op == 'add_nsvc':
            self._add(self.new['svcs'], e['elem'], ['nsvc', e['elem']['name']])
        elif op == 'remove_nsvc':
            self._remove(self.new['svcs'], e['name'], ['nsvc', e['name']])
        elif op in ('add_if', 'remove_if'):
            sp = e['svc']                                      # ['nsvc', s] or ['csvc', c]
            svc = find(self.new, sp)
            if svc is None:
                raise HarnessError(f'service {sp} not found')
            k = 'nif' if sp[0] == 'nsvc' else 'cif'
            if op == 'add_if':
                el = copy.deepcopy(e['elem'])
                el['cat'] = False
                self._add(svc['ifs'], el, [k, sp[1], el['name']])
            else:
                self._remove(svc['ifs'], e['name'], [k, sp[1], e['name']])
        elif op in ('add_sub', 'remove_sub'):
            ip = e['iface']                                    # ['nif', s, i] or ['cif', c, i]
            itf = find(self.new, ip)
            if itf is None or itf['itype'] != 'DedicatedPort':
                raise HarnessError(f'interface {ip} not found or not a DedicatedPort')
            k = 'nsub' if ip[0] == 'nif' else 'csub'
            if op == 'add_sub':
                self._add(itf['subs'], e['elem'], [k, ip[1], ip[2], e['elem']['name']])
            else:
                self._remove(itf['subs'], e['name'], [k, ip[1], ip[2], e['name']])
        elif op == 'chg':
            path = tuple(e['path'])
            if not self.is_orig_surviving(path) or (path, e['prop']) in self.touched:
                raise HarnessError(f'chg target {path}/{e["prop"]} not editable')
            el = find(self.new, path)
            if json.dumps(el['P'][e['prop']], sort_keys=True) == json.dumps(e['value'], sort_keys=True):
                raise HarnessError('chg does not change the value')
            el['P'][e['prop']] = copy.deepcopy(e['value'])
            self.changed.setdefault(path, set()).add(e['prop'])
            self.touched.add((path, e['prop']))
            self.effective += 1
        elif op == 'equal_ud':
            path = tuple(e['path'])
            if not self.is_orig_surviving(path) or (path, 'user_data') in self.touched or e['value'] is None:
                raise HarnessError(f'equal_ud target {path} not editable')
            find(self.new, path)['P']['user_data'] = copy.deepcopy(e['value'])
            find(self.old, path)['P']['user_data'] = copy.deepcopy(e['value'])
            self.touched.add((path, 'user_data'))
        elif op == 'untracked':
            path = tuple(e['path'])
            el = find(self.new, path)
            if el is None:
                raise HarnessError(f'untracked target {path} not found')
            el['U'][e['field']] = copy.deepcopy(e['value'])
        elif op == 'toggle_ec':
            path = tuple(e['path'])
            el = find(self.new, path)
            if el is None:
                raise HarnessError(f'toggle target {path} not found')
            el[e['flag']] = not el[e['flag']]
        else:
            raise HarnessError('unknown op ' + op)

    # -- derived facts ------------------------------------------------------------------------------------------
    def common(self):
        """paths of original elements that survive (present on both sides)."""
        return [p for p, _ in walk(self.old) if not any(under(p, r) for r in self.removed)]

    def equal_ud(self):
        out = set()
        for p in self.common():
            if find(self.old, p)['P']['user_data'] is not None and 'user_data' not in self.changed.get(p, ()):
                out.add(p)
        return out


def model_check(it):
    """Harness self-check: a structural comparison of the two specs must agree with the bookkeeping."""
    old = dict(walk(it.old))
    new = dict(walk(it.new))
    rem = {p for p in old if p not in new}
    add = {p for p in new if p not in old}
    top = lambda S: {p for p in S if not any(q != p and under(p, q) for q in S)}
    if top(rem) != it.removed or top(add) != it.added:
        raise HarnessError(f'bookkeeping mismatch: removed {sorted(top(rem))} vs {sorted(it.removed)}; '
                           f'added {sorted(top(add))} vs {sorted(it.added)}')
    chg = {}
    for p in old:
        if p in new:
            for pr in PROPS:
                if json.dumps(old[p]['P'][pr], sort_keys=True) != json.dumps(new[p]['P'][pr], sort_keys=True):
                    chg.setdefault(p, set()).add(pr)
    if chg != {k: v for k, v in it.changed.items() if v}:
        raise HarnessError(f'bookkeeping mismatch: changed {chg} vs {it.changed}')


# ----------------------------------------------------------------------------------------------------------------
# edit generation
def gen_edit(rng, it, g, kind):
    new = it.new
    elems = list(walk(new))
    surv = [(p, e) for p, e in elems if it.is_orig_surviving(p)]
    if kind == 'add_comp':
        if len(new['comps']) >= 5:
            return None
        return {'op': 'add_comp', 'elem': g.comp()}
    if kind == 'remove_comp':
        if not new['comps']:
            return None
        return {'op': 'remove_comp', 'name': rng.choice(new['comps'])['name']}
    if kind == 'add_nsvc':
        if len(new['svcs']) >= 4:
            return None
        return {'op': 'add_nsvc', 'elem': g.nsvc()}
    if kind == 'remove_nsvc':
        if not new['svcs']:
            return None
        return {'op': 'remove_nsvc', 'name': rng.choice(new['svcs'])['name']}
    if kind in ('add_if', 'remove_if'):
        svcs = [(p, e) for p, e in surv if p[0] == 'nsvc' or (p[0] == 'csvc' and rng.random() < .35)]
        if kind == 'remove_if':
            svcs = [(p, e) for p, e in svcs if e['ifs']]
        if not svcs:
            return None
        p, s = rng.choice(svcs)
        if kind == 'add_if':
            if len(s['ifs']) >= 6:
                return None
            return {'op': 'add_if', 'svc': list(p), 'elem': g.iface()}
        return {'op': 'remove_if', 'svc': list(p), 'name': rng.choice(s['ifs'])['name']}
    if kind in ('add_sub', 'remove_sub'):
        ifs = [(p, e) for p, e in surv if p[0] in ('nif', 'cif') and e['itype'] == 'DedicatedPort']
        if kind == 'remove_sub':
            ifs = [(p, e) for p, e in ifs if e['subs']]
        if not ifs:
            return None
        p, i = rng.choice(ifs)
        if kind == 'add_sub':
            if len(i['subs']) >= 5:
                return None
            return {'op': 'add_sub', 'iface': list(p), 'elem': g.sub((i['P']['labels'] or {}).get('local_name'))}
        return {'op': 'remove_sub', 'iface': list(p), 'name': rng.choice(i['subs'])['name']}
    if kind == 'chg':
        # spread over element kinds first, then over properties
        kinds = sorted({p[0] for p, _ in surv})
        k = rng.choice(kinds)
        cand = [(p, e) for p, e in surv if p[0] == k]
        p, e = rng.choice(cand)
        props = [pr for pr in PROPS if (p, pr) not in it.touched]
        if not props:
            return None
        pr = rng.choice(props)
        cur = e['P'][pr]
        if cur is not None and rng.random() < .25:
            val = None
        elif pr == 'labels':
            val = different_labels(rng, cur)
        elif pr == 'capacities':
            val = different_caps(rng, cur)
        else:
            val = different_ud(rng, cur)
        return {'op': 'chg', 'path': list(p), 'prop': pr, 'value': val}
    if kind == 'equal_ud':
        cand = [(p, e) for p, e in surv if (p, 'user_data') not in it.touched]
        if not cand:
            return None
        k = rng.choice(sorted({p[0] for p, _ in cand}))
        p, e = rng.choice([x for x in cand if x[0][0] == k])
        return {'op': 'equal_ud', 'path': list(p), 'value': gen_ud(rng)}
    if kind == 'untracked':
        k = rng.choice(sorted({p[0] for p, _ in elems}))
        p, e = rng.choice([x for x in elems if x[0][0] == k])
        f = rng.choice(UNTRACKED)
        val = {'details': 'details ' + _hex(rng, 4), 'label_allocations': gen_labels(rng),
               'capacity_allocations': gen_caps(rng), 'capacity_hints': 'fabric.c%d.m%d.d%d' % (rng.randrange(1, 9), 8, 10),
               'mf_data': gen_ud(rng), 'stitch_node': True}[f]
        return {'op': 'untracked', 'path': list(p), 'field': f, 'value': val}
    if kind == 'toggle_ec':
        cand = [(p, e, 'ec') for p, e in elems if p[0] in ('nsvc', 'csvc') or
                (p[0] in ('nif', 'cif') and e['itype'] == 'DedicatedPort')]
        cand += [(('node',), new, 'ec_comps'), (('node',), new, 'ec_svcs')]
        empty = [c for c in cand if not (c[1]['comps'] if c[2] == 'ec_comps' else c[1]['svcs'] if c[2] == 'ec_svcs'
                                         else c[1]['ifs'] if c[0][0] in ('nsvc', 'csvc') else c[1]['subs'])]
        p, e, f = rng.choice(empty if empty and rng.random() < .8 else cand)
        return {'op': 'toggle_ec', 'path': list(p), 'flag': f}
    raise HarnessError(kind)


WEIGHTS = {'add_comp': 2, 'remove_comp': 2, 'add_nsvc': 2, 'remove_nsvc': 2, 'add_if': 2, 'remove_if': 2,
           'add_sub': 2.5, 'remove_sub': 2.5, 'chg': 9, 'equal_ud': 1.2, 'untracked': 1, 'toggle_ec': 1}


def gen_case(rng, force_kind=None):
    g = Gen(rng)
    base = g.node()
    if force_kind in ('add_sub', 'remove_sub') and rng.random() < .7:
        # make sure there is a DedicatedPort to work on
        base['comps'].append(g.comp(rng.choice(['SmartNIC', 'SmartNIC', 'FPGA'])))
    it = Interp(base)
    m = rng.random()
    k = 0 if (m < .08 and force_kind is None) else 1 if m < .55 else rng.randrange(2, 6)
    script = []
    kinds, weights = zip(*sorted(WEIGHTS.items()))
    tries = 0
    while len(script) < k and tries < 30:
        tries += 1
        kind = force_kind if (force_kind and not script) else rng.choices(kinds, weights)[0]
        e = gen_edit(rng, it, g, kind)
        if e is None:
            continue
        it.apply(e)
        script.append(e)
    return base, script


# ----------------------------------------------------------------------------------------------------------------
# observation of a TopologyDiff
BUCKETS = ['nodes', 'components', 'services', 'interfaces']


def observe(d):
    o = {'none': d is None, 'added': {b: [] for b in BUCKETS}, 'removed': {b: [] for b in BUCKETS},
         'modified': {b: [] for b in BUCKETS}}
    if d is None:
        return o
    for side in ('added', 'removed'):
        t = getattr(d, side)
        for b in BUCKETS:
            o[side][b] = sorted(x.resource_name for x in getattr(t, b))
    for b in BUCKETS:
        for x, fl in getattr(d.modified, b):
            o['modified'][b].append((x.resource_name, sorted(n for n in Vocab.flags if fl & type(fl)[n])))
        o['modified'][b].sort()
    return o


def mod_map(o):
    m = {}
    for b in BUCKETS:
        for name, fl in o['modified'][b]:
            m.setdefault(name, set()).update(fl)
    return {k: sorted(v) for k, v in m.items()}


class Judge:
    def __init__(self, ctx, it, tag, witness):
        self.ctx, self.it, self.tag, self.w = ctx, it, tag, witness
        self.eq_ud = it.equal_ud()

    def v(self, key, clause, **extra):
        w = dict(self.w)
        w.update(extra)
        w['pair'] = self.tag
        self.ctx.violation('C17/' + key, clause + f' [{self.tag}]', w)

    def names(self, kinds, prefix, S):
        """last path component of the paths in S of the given kinds lying directly/indirectly under prefix."""
        return {p[-1] for p in S if p[0] in kinds and tuple(p[1:1 + len(prefix)]) == tuple(prefix)}

    def deep_names(self, roots, below=None):
        """names of every element in the subtrees of the given top paths (optionally only below `below`)."""
        out = set()
        for tree in (self.it.old, self.it.new):
            for p, e in walk(tree):
                if any(under(p, r) for r in roots) and (below is None or under(p, below)):
                    out.add(e['name'])
        return out

    def run_diff(self, level, a, b, path):
        try:
            return True, a.diff(b)
        except Exception as e:                     # noqa
            self.v(f'{level}-diff-raises', f'{level} diff raised {type(e).__name__}: {e}', at=list(path))
            return False, None

    # -- generic bucket / flag comparison --------------------------------------------------------------------------
    def buckets(self, level, o, path, must, may, kindname):
        """must/may: {(side, bucket): set(names)}"""
        for side in ('added', 'removed'):
            for b in BUCKETS:
                exp = must.get((side, b), set())
                allowed = may.get((side, b), set())
                obs = set(o[side][b])
                if exp:
                    self.ctx.count(f'judged:{level}:{b}:{side}')
                kn = kindname.get(b, b)
                miss, extra = exp - obs, obs - exp - allowed
                if miss:
                    key = f'{level}-{kn}-{side}-unreported'
                    if level == 'node' and b == 'services' and self.it.old_has_nsi and self.it.new_has_nsi:
                        key = 'node-service-add-remove-unreported'
                    self.v(key, f'{kn} {side} by the script is not in {side}.{b} of the {level} diff',
                           at=list(path), expected=sorted(exp), observed=sorted(obs))
                if extra:
                    self.v(f'{level}-{kn}-{side}-spurious',
                           f'{side}.{b} of the {level} diff lists an element the script did not {side[:-2] if side == "added" else side[:-1]}',
                           at=list(path), expected=sorted(exp), observed=sorted(obs))
                if obs - exp and not extra:
                    self.ctx.count(f'unspecified:{level}:{b}:{side}:deeper-element-listed')

    def modified(self, level, o, path, expmap):
        """expmap: name -> {'kind', 'bucket' (or None = any), 'bits': {FLAG: 0|1|None}, 'why': {FLAG: key}}"""
        seen = {}
        for b in BUCKETS:
            for name, fl in o['modified'][b]:
                if name not in expmap:
                    self.v(f'{level}-modified-lists-non-common-element',
                           f'modified.{b} of the {level} diff lists an element that is not present on both sides '
                           f'below this {level}', at=list(path), element=name, flags=fl)
                    continue
                em = expmap[name]
                if em['bucket'] is not None and em['bucket'] != b:
                    self.v(f'{level}-{em["kind"]}-modified-wrong-bucket',
                           f'{em["kind"]} reported in modified.{b} instead of modified.{em["bucket"]}',
                           at=list(path), element=name)
                if em['bucket'] is None:
                    self.ctx.count(f'unspecified:interface-self-listed-in:{b}')
                if name in seen:
                    self.v(f'{level}-{em["kind"]}-modified-listed-twice', 'element listed twice in modified',
                           at=list(path), element=name)
                seen.setdefault(name, set()).update(fl)
                if not fl:
                    self.v(f'{level}-{em["kind"]}-listed-without-flag', 'element listed as modified with no flag',
                           at=list(path), element=name)
        for name, em in expmap.items():
            obs = seen.get(name, set())
            lk = f'{level}:{em["kind"]}'
            for f in KNOWN_FLAGS:
                exp = em['bits'].get(f, 0)
                got = 1 if f in obs else 0
                if exp is None:
                    self.ctx.count(f'unspecified:{lk}:{f}:{em["why"].get(f, "open")}:observed={got}')
                    continue
                self.ctx.count(f'judged-flag:{lk}:{f}:{"set" if exp else "clear"}')
                if exp and not got:
                    self.v(f'{level}-{em["kind"]}-{f.lower()}-change-unreported',
                           f'{f} of a {em["kind"]} present on both sides changed but the flag is not reported by the '
                           f'{level} diff', at=list(path), element=name, expected_flags=self.expflags(em),
                           observed_flags=sorted(obs), edits=em.get('edits'))
                elif got and not exp:
                    key = em['why'].get(f)
                    if callable(key):
                        key = key()
                    key = key or f'{level}-{em["kind"]}-{f.lower()}-spurious'
                    self.v(key, f'{f} reported by the {level} diff for a {em["kind"]} whose {f} did not change',
                           at=list(path), element=name, expected_flags=self.expflags(em), observed_flags=sorted(obs),
                           edits=em.get('edits'))

    @staticmethod
    def expflags(em):
        return {f: v for f, v in em['bits'].items()}

    def prop_bits(self, p):
        """LABELS/CAPACITIES/USER_DATA expectation of a common element + the key for a spurious USER_DATA."""
        ch = self.it.changed.get(p, set())
        bits = {PROP_FLAG[pr]: (1 if pr in ch else 0) for pr in PROPS}
        why = {}
        if p in self.eq_ud:
            why['USER_DATA'] = 'equal-user-data-reported'
        return bits, why, sorted(ch)

    # -- the three levels -------------------------------------------------------------------------------------------
    def node_level(self, a, b, reverse=False):
        it = self.it
        self.ctx.count('level:node')
        ok, d = self.run_diff('node', a, b, ('node',))
        if not ok:
            return None
        o = observe(d)
        A, R = (it.removed, it.added) if reverse else (it.added, it.removed)
        must = {('added', 'components'): self.names(('comp',), (), A), ('removed', 'components'): self.names(('comp',), (), R),
                ('added', 'services'): self.names(('nsvc',), (), A), ('removed', 'services'): self.names(('nsvc',), (), R)}
        may = {('added', 'interfaces'): self.deep_names(A), ('removed', 'interfaces'): self.deep_names(R)}
        self.buckets('node', o, ('node',), must, may, {'components': 'component', 'services': 'service',
                                                       'interfaces': 'interface', 'nodes': 'node'})
        expmap = {}
        allch = it.added | it.removed | {p for p, s in it.changed.items() if s}
        for p in it.common():
            if p[0] == 'node':
                bits, why, ed = self.prop_bits(p)
                bits['SUB_INTERFACES'] = 0
                expmap[it.old['name']] = {'kind': 'node', 'bucket': 'nodes', 'bits': bits, 'why': why, 'edits': ed}
            elif p[0] == 'nsvc':
                bits, why, ed = self.prop_bits(p)
                bits['SUB_INTERFACES'] = 0
                below = [q for q in allch if q != p and under(q, p)]
                if below:
                    self.ctx.count('unspecified:node:interface-change-of-node-level-service-not-in-node-diff')
                    bits['SUB_INTERFACES'] = None
                    why['SUB_INTERFACES'] = 'change-below-node-level-service'
                expmap[p[1]] = {'kind': 'service', 'bucket': 'services', 'bits': bits, 'why': why, 'edits': ed}
            elif p[0] == 'comp':
                c = find(it.old, p)
                bits, why, ed = self.prop_bits(p)
                below = [q for q in allch if q != p and under(q, p)]
                sub_addrem = [q for q in (it.added | it.removed) if q[0] == 'csub' and q[1] == p[1]]
                if c['ctype'] == 'SmartNIC':
                    if sub_addrem:
                        bits['SUB_INTERFACES'] = 1
                    elif below:
                        bits['SUB_INTERFACES'] = None
                        why['SUB_INTERFACES'] = 'only-properties-or-interfaces-below-smartnic-changed'
                    else:
                        bits['SUB_INTERFACES'] = 0
                        if any(q != p and under(q, p) for q in self.eq_ud):
                            why['SUB_INTERFACES'] = 'equal-user-data-reported-as-sub-interfaces'
                else:
                    if any(q[0] == 'csub' for q in below):
                        bits['SUB_INTERFACES'] = None
                        why['SUB_INTERFACES'] = 'sub-interfaces-under-non-smartnic'
                    else:
                        bits['SUB_INTERFACES'] = 0
                expmap[p[1]] = {'kind': 'component', 'bucket': 'components', 'bits': bits, 'why': why,
                                'edits': ed + [list(q) for q in sorted(below)]}
        self.modified('node', o, ('node',), expmap)
        return o

    def iface_bits(self, p, sa, sb):
        """expectation for an interface p (nif/cif) present on both sides, as reported by its service's diff."""
        it = self.it
        i = find(it.old, p)
        bits, why, ed = self.prop_bits(p)
        subk = 'nsub' if p[0] == 'nif' else 'csub'
        subs_ar = [q for q in (it.added | it.removed) if q[0] == subk and tuple(q[1:3]) == tuple(p[1:3])]
        subs_ch = [q for q, s in it.changed.items() if s and q[0] == subk and tuple(q[1:3]) == tuple(p[1:3])]
        if subs_ar:
            bits['SUB_INTERFACES'] = 1
        elif subs_ch:
            bits['SUB_INTERFACES'] = None
            why['SUB_INTERFACES'] = 'only-properties-of-sub-interfaces-changed'
        else:
            bits['SUB_INTERFACES'] = 0
            if i['itype'] == 'DedicatedPort':
                sub_eq = any(q != p and under(q, p) for q in self.eq_ud)
                own = bool(ed) or p in self.eq_ud

                def diagnose():
                    """Which mechanism makes the service diff flag SUB_INTERFACES although no sub-interface changed?
                    Look at what the interface's own diff says about its sub-interfaces: if it (spuriously) lists
                    sub-interfaces with equal user data as modified, that alone explains the flag; otherwise the flag
                    can only come from the interface's own (real, or equal-user-data) property difference."""
                    ia = sa.interface_info.get_interface(p[2])
                    ib = sb.interface_info.get_interface(p[2])
                    try:
                        oc = observe(ia.diff(ib))
                    except Exception:                          # noqa
                        return None
                    subnames = {u['name'] for u in i['subs']}
                    listed = {n for bk in BUCKETS for n, _ in oc['modified'][bk]} & subnames
                    if sub_eq and listed:
                        return 'equal-user-data-reported-as-sub-interfaces'
                    if own and not listed and not oc['added']['interfaces'] and not oc['removed']['interfaces']:
                        return 'dedicated-port-own-change-reported-as-sub-interfaces'
                    return None
                if sub_eq or own:
                    why['SUB_INTERFACES'] = diagnose
        return {'kind': 'interface', 'bucket': 'interfaces', 'bits': bits, 'why': why,
                'edits': ed + [list(q) for q in sorted(subs_ar + subs_ch)]}

    def service_level(self, sp, a, b, reverse=False):
        """sp: ['nsvc', s] / ['csvc', c]; a, b the two NetworkServiceSlivers."""
        it = self.it
        self.ctx.count('level:service')
        ok, d = self.run_diff('service', a, b, sp)
        if not ok:
            return None
        o = observe(d)
        A, R = (it.removed, it.added) if reverse else (it.added, it.removed)
        ik, uk = ('nif', 'nsub') if sp[0] == 'nsvc' else ('cif', 'csub')
        must = {('added', 'interfaces'): self.names((ik,), (sp[1],), A), ('removed', 'interfaces'): self.names((ik,), (sp[1],), R)}
        may = {('added', 'interfaces'): self.deep_names(A, tuple(sp)), ('removed', 'interfaces'): self.deep_names(R, tuple(sp))}
        self.buckets('service', o, sp, must, may, {'interfaces': 'interface', 'components': 'component',
                                                   'services': 'service', 'nodes': 'node'})
        expmap = {}
        bits, why, ed = self.prop_bits(tuple(sp))
        bits['SUB_INTERFACES'] = 0
        expmap[find(it.old, sp)['name']] = {'kind': 'service', 'bucket': 'services', 'bits': bits, 'why': why, 'edits': ed}
        for p in it.common():
            if p[0] == ik and p[1] == sp[1]:
                expmap[p[2]] = self.iface_bits(p, a, b)
        self.modified('service', o, sp, expmap)
        return o

    def interface_level(self, ip, a, b, reverse=False):
        it = self.it
        self.ctx.count('level:interface')
        ok, d = self.run_diff('interface', a, b, ip)
        if not ok:
            return None
        o = observe(d)
        A, R = (it.removed, it.added) if reverse else (it.added, it.removed)
        uk = 'nsub' if ip[0] == 'nif' else 'csub'
        must = {('added', 'interfaces'): self.names((uk,), tuple(ip[1:3]), A),
                ('removed', 'interfaces'): self.names((uk,), tuple(ip[1:3]), R)}
        may = {('added', 'interfaces'): self.deep_names(A, tuple(ip)), ('removed', 'interfaces'): self.deep_names(R, tuple(ip))}
        self.buckets('interface', o, ip, must, may, {'interfaces': 'subinterface', 'components': 'component',
                                                    'services': 'service', 'nodes': 'node'})
        expmap = {}
        bits, why, ed = self.prop_bits(tuple(ip))
        bits['SUB_INTERFACES'] = None          # whether the interface flags itself is not stated anywhere
        why['SUB_INTERFACES'] = 'self-entry-of-interface-diff'
        expmap[ip[2]] = {'kind': 'interface', 'bucket': None, 'bits': bits, 'why': why, 'edits': ed}
        for p in it.common():
            if p[0] == uk and tuple(p[1:3]) == tuple(ip[1:3]):
                sb, sw, se = self.prop_bits(p)
                sb['SUB_INTERFACES'] = 0
                expmap[p[3]] = {'kind': 'subinterface', 'bucket': 'interfaces', 'bits': sb, 'why': sw, 'edits': se}
        self.modified('interface', o, ip, expmap)
        return o

    def symmetry(self, level, path, o1, o2):
        if o1 is None or o2 is None:
            return
        self.ctx.count('clause:symmetry')
        for b in BUCKETS:
            if o1['added'][b] != o2['removed'][b] or o1['removed'][b] != o2['added'][b]:
                self.v(f'asymmetric-{level}-{b}', f'added/removed {b} of old->new are not removed/added of new->old '
                       f'({level} diff)', at=list(path),
                       forward={'added': o1['added'][b], 'removed': o1['removed'][b]},
                       backward={'added': o2['added'][b], 'removed': o2['removed'][b]})
        if mod_map(o1) != mod_map(o2):
            self.v(f'asymmetric-{level}-modified', f'modified elements/flags differ between the two directions of the '
                   f'{level} diff', at=list(path), forward=mod_map(o1), backward=mod_map(o2))


def sliver_at(node, path):
    """the real sliver object for a spec path (or None)."""
    k = path[0]
    if k == 'node':
        return node
    if k in ('comp', 'csvc', 'cif', 'csub'):
        if node.attached_components_info is None:
            return None
        c = node.attached_components_info.get_device(path[1])
        if k == 'comp' or c is None:
            return c
        if c.network_service_info is None:
            return None
        nss = list(c.network_service_info.network_services.values())
        s = nss[0] if nss else None
    else:
        if node.network_service_info is None:
            return None
        s = node.network_service_info.get_network_service(path[1])
    if k in ('csvc', 'nsvc') or s is None:
        return s
    if s.interface_info is None:
        return None
    i = s.interface_info.get_interface(path[2])
    if k in ('cif', 'nif') or i is None:
        return i
    if i.interface_info is None:
        return None
    return i.interface_info.get_interface(path[3])


def judge_pair(ctx, it, a, b, tag, witness):
    """a = sliver built from it.old, b = sliver built from it.new."""
    it.old_has_nsi = bool(it.old['svcs'] or it.old['ec_svcs'])
    it.new_has_nsi = bool(it.new['svcs'] or it.new['ec_svcs'])
    j = Judge(ctx, it, tag, witness)
    o1 = j.node_level(a, b)
    o2 = j.node_level(b, a, reverse=True)
    j.symmetry('node', ('node',), o1, o2)
    for p in it.common():
        if p[0] in ('nsvc', 'csvc'):
            sa, sb = sliver_at(a, p), sliver_at(b, p)
            if sa is None or sb is None:
                raise HarnessError(f'service {p} not found in the built slivers')
            s1 = j.service_level(p, sa, sb)
            s2 = j.service_level(p, sb, sa, reverse=True)
            j.symmetry('service', p, s1, s2)
        elif p[0] in ('nif', 'cif'):
            ia, ib = sliver_at(a, p), sliver_at(b, p)
            if ia is None or ib is None:
                raise HarnessError(f'interface {p} not found in the built slivers')
            i1 = j.interface_level(p, ia, ib)
            i2 = j.interface_level(p, ib, ia, reverse=True)
            j.symmetry('interface', p, i1, i2)


def shape_counts(ctx, it):
    for p, e in walk(it.old):
        if p[0] == 'comp':
            t = e['ctype']
            ctx.count('shape:' + ({'SmartNIC': 'smartnic', 'SharedNIC': 'sharednic', 'FPGA': 'fpga'}.get(t, 'non-nic')))
        if p[0] in ('nif', 'cif') and e['itype'] == 'DedicatedPort' and e['subs']:
            ctx.count('shape:dedicated-with-subs')
    def containers(tree):
        yield ('comps',), (not tree['comps'], tree['ec_comps'])
        yield ('svcs',), (not tree['svcs'], tree['ec_svcs'])
        for p, e in walk(tree):
            if p[0] in ('nsvc', 'csvc'):
                yield p, (not e['ifs'], e['ec'])
            elif p[0] in ('nif', 'cif') and e['itype'] == 'DedicatedPort':
                yield p, (not e['subs'], e['ec'])
    st = lambda x: 'full' if not x[0] else 'empty' if x[1] else 'none'
    co, cn = dict(containers(it.old)), dict(containers(it.new))
    for k in co:
        if k in cn and (st(co[k]) != st(cn[k])):
            ctx.count(f'shape:container:{st(co[k])}->{st(cn[k])}')


def one_case(ctx, base, script, with_deepcopy=True):
    it = Interp(base)
    for e in script:
        it.apply(e)
        ctx.count('edit:' + e['op'])
        if e['op'] == 'chg':
            ctx.count('chg:%s:%s' % (e['path'][0], e['prop']))
    model_check(it)
    witness = {'base': base, 'script': script}
    nontrivial = bool(base['comps'] or base['svcs']) and (not script or it.effective > 0 or
                                                        any(e['op'] in ('equal_ud', 'untracked', 'toggle_ec') for e in script))
    ctx.seen(witness, nontrivial)
    ctx.count('case:no-edit' if not script else 'case:single-edit' if len(script) == 1 else 'case:combined-edits')
    shape_counts(ctx, it)
    UD_FORM[0] = 0
    old = build_node(it.old)
    from vlib.core import digest as _dg
    _h = int(_dg(witness), 16)
    UD_FORM[0] = [0, 0, 1, 2][_h % 4]          # same values, possibly a different textual form (derived from the case: replayable)
    ctx.count(f'user-data-text-form:{UD_FORM[0]}')
    new = build_node(it.new)
    UD_FORM[0] = 0
    judge_pair(ctx, it, old, new, 'old-vs-edited', witness)
    # identical copies: a second independent build of the old spec, and a deepcopy of the first sliver
    same = Interp(it.old)
    ctx.count('clause:identical-copy')
    UD_FORM[0] = [0, 1, 2][(_h // 4) % 3]
    ctx.count(f'identical-copy-user-data-text-form:{UD_FORM[0]}')
    copy2 = build_node(it.old)
    UD_FORM[0] = 0
    judge_pair(ctx, same, old, copy2, 'identical-rebuilt-copy', witness)
    if with_deepcopy:
        ctx.count('clause:deepcopy-copy')
        judge_pair(ctx, same, old, copy.deepcopy(old), 'identical-deepcopy', witness)
        # ... also when elements without labels / capacities carry the default value objects (Labels(), Capacities()) on BOTH sides
        ctx.count('clause:identical-copy-with-default-value-objects')
        a = copy.deepcopy(old)
        put_default_value_objects(a)
        judge_pair(ctx, same, a, copy.deepcopy(a), 'identical-deepcopy-default-objects', witness)
        # ... compared, then edited IN PLACE (a component removed, another added and removed again), then compared again:
        # the second comparison reports the edit, whatever the first one looked at
        c = copy.deepcopy(old)
        aci = c.attached_components_info
        if aci is not None and aci.devices:
            ctx.count('clause:compare-edit-in-place-compare-again')
            try:
                first = old.diff(c)
                gone = sorted(aci.devices)[0]
                aci.remove_device(gone)
                d1, d2 = old.diff(c), c.diff(old)
                rem = sorted(x.resource_name for x in d1.removed.components) if d1 is not None else []
                add = sorted(x.resource_name for x in d2.added.components) if d2 is not None else []
                if first is not None or rem != [gone] or add != [gone]:
                    ctx.violation('C17/second-comparison-after-in-place-edit-wrong', 'comparing an old and a new version reports exactly the '
                                  'components that were added or removed (the copy had been compared once before it was edited)',
                                  dict(witness=witness, removed_component=gone, first_comparison=str(first)[:100], removed_reported=rem, added_reported=add))
            except Exception as e:
                ctx.violation('C17/second-comparison-after-in-place-edit-raises', f'{type(e).__name__}: {str(e)[:160]}', dict(witness=witness))
        # ... and when a SmartNIC of a hand-built sliver carries no service at all (comparing must not fail)
        b = copy.deepcopy(old)
        aci = b.attached_components_info
        nics = [c for c in (aci.devices.values() if aci else []) if str(c.get_type()) == 'SmartNIC']
        if nics:
            from fim.slivers.network_service import NetworkServiceInfo
            for k, c in enumerate(nics):
                c.network_service_info = NetworkServiceInfo() if k % 2 == 0 else None
            ctx.count('clause:identical-copy-smartnic-without-service')
            try:
                d = b.diff(copy.deepcopy(b))
                if d is not None:
                    ctx.violation('C17/identical-copy-differs:smartnic-without-service', 'comparing a sliver with an identical copy of itself '
                                  'reports no difference', dict(witness=witness, diff=str(d)[:300]))
            except Exception as e:
                ctx.violation('C17/identical-copy-raises:smartnic-without-service', 'comparing a sliver with an identical copy of itself '
                              f'reports no difference (raised {type(e).__name__}: {str(e)[:120]})', dict(witness=witness))


def put_default_value_objects(node):
    """Every element of the sliver tree that has no labels / capacities gets the all-default value object instead of None."""
    from fim.slivers.capacities_labels import Labels, Capacities

    def visit(sl):
        if sl.get_labels() is None:
            sl.set_labels(Labels())
        if sl.get_capacities() is None:
            sl.set_capacities(Capacities())
        for attr, sub in (('attached_components_info', 'devices'), ('network_service_info', 'network_services'), ('interface_info', 'interfaces')):
            info = getattr(sl, attr, None)
            if info is not None:
                for x in getattr(info, sub).values():
                    visit(x)
    visit(node)


def run(ctx):
    Vocab.load(ctx)
    rng = ctx.rng
    n = ctx.pick(2500, 20000)
    kinds = sorted(WEIGHTS)
    for i in range(n):
        force = kinds[i % len(kinds)] if i % 3 == 0 else None
        try:
            base, script = gen_case(rng, force)
            one_case(ctx, base, script, with_deepcopy=(i % 4 == 0))
        except HarnessError as e:
            ctx.mark_inconclusive('harness error: ' + str(e)[:500])
            break
        if i < 2:
            ctx.sample({'base': base, 'script': script})
        if ctx.out_of_time():
            ctx.info['stopped_early_at_case'] = i
            break


def replay(ctx, case):
    Vocab.load(ctx)
    w = case['witness']
    one_case(ctx, w['base'], w['script'])


LEVEL_TEXT = ('Runtime monitoring with a reference model: every real NodeSliver/NetworkServiceSliver/InterfaceSliver diff of '
              'a generated sliver against an independently rebuilt, script-edited copy is compared, bucket by bucket and '
              'flag bit by flag bit, with the TopologyDiff derived from the edit script (added/removed names, exact flag '
              'set per surviving element), in both directions (symmetry) and against identical rebuilt/deep copies. '
              'Held on the executions observed.')
LEVEL_NOTE = ('Trusted: the spec->sliver builder and the edit interpreter (self-checked against a structural comparison of '
              'the two specs on every case), the catalogue, Labels/Capacities equality. Not judged: cases the statement '
              'leaves open (listed under assumptions).')
TECHNIQUE = 'seeded edit-script workload + expected-diff reference model, per-bucket / per-flag oracle, symmetry check'
