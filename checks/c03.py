"""C03 - attribute value codecs are lossless, canonical and never mutate their input.

Monitors (icontract post-conditions attached from here to the REAL methods, see install()):
  JSONField.to_json / Flags.to_json / Tags.to_json / Gateway.to_json / PathInfo.to_json / ERO.to_json /
  MaintenanceInfo.to_json   decode(result) equal to self field-wise (absent iff nothing set where the
                            empty-text convention is documented), re-encodes to the identical text
  JSONField.update          new object of the argument's class, argument unchanged, result = overlay
  JSONData.__init__         stored text decodes to the given value and re-decodes to the same text
  MaintenanceInfo.add/rem/pop   never return normally on a finalized object
plus a generator-driven sweep (vlib/codecgen.py) over every class and field, unknown-key injection
(forward compatibility), copy-with-changes, finalized-maintenance immutability and the legacy typed tuples.

Every judge is total: a value outside the codec's domain returns 'skip' (counted), never a verdict.
"""
import copy
import datetime
import json
import math
import random

from vlib import contracts as K
from vlib import codecgen as G
from vlib.contracts import Sink

PROPERTY = 'C03'
LEVEL = 'exploration'
SHARDS = {'quick': 4, 'thorough': 16}
TIME_BUDGET = {'quick': 50, 'thorough': 780}

JF_FAMILY = ['Capacities', 'CapacityHints', 'Labels', 'ReservationInfo', 'StructuralInfo', 'Location', 'Flags']
JD_FAMILY = ['MeasurementData', 'UserData', 'LayoutData']

RULE = ('per class (Capacities, CapacityHints, Labels, ReservationInfo, StructuralInfo, Location, Flags, Tags, '
        'Measurement/User/LayoutData, Gateway, PathInfo, ERO, MaintenanceInfo, typed tuples) a deterministic edge list '
        '(every field discovered from a fresh object x {zero, 0.0, False, empty string, empty list, 2^63, 70k-char '
        'string, scalar and list form}, all 2^4 flag assignments, lat/lon on equator/prime meridian, blobs of exactly '
        'MAX_SIZE, both path representation types x strict/loose, every maintenance state x with/without dates) and '
        'seeded random values built through the public constructors; each value is encoded, decoded, re-encoded, '
        're-decoded with unknown keys injected at every key-driven level, copied with changes, and (maintenance) '
        'attacked after finalize. A case is distinct by (class, encoded text or field dictionary, operation); it is '
        'non-trivial when the value has at least one field different from a fresh object (or, for the empty-value '
        'convention clauses, is the fresh object itself: those are counted separately as empty:<class>)')

REQUIRED = (['mon:to_json:' + c for c in JF_FAMILY] +
            ['mon:to_json:Tags', 'mon:to_json:Gateway', 'mon:to_json:PathInfo', 'mon:to_json:ERO',
             'mon:to_json:MaintenanceInfo', 'mon:update', 'mon:jsondata', 'mon:maint-add', 'mon:maint-rem',
             'mon:maint-pop'] +
            ['judged:' + c for c in JF_FAMILY + JD_FAMILY] +
            ['judged:Tags', 'judged:Gateway', 'judged:PathInfo', 'judged:ERO', 'judged:MaintenanceInfo'] +
            ['empty:' + c for c in JF_FAMILY if c != 'Flags'] +
            ['fwd:' + c for c in JF_FAMILY] + ['fwd:Gateway', 'fwd:PathInfo:top', 'fwd:PathInfo:payload',
                                               'fwd:ERO:top', 'fwd:ERO:payload', 'fwd:MaintenanceInfo:entry'] +
            ['update:' + c for c in JF_FAMILY] +
            ['finalized:finalize', 'finalized:from_json', 'finalized:sliver', 'finalized-op:add', 'finalized-op:rem',
             'finalized-op:pop', 'maint-copy', 'tt:fromstring', 'tt:parse_from_string', 'tt:excluded-trailing-blank',
             'location:zero-coordinate-cases', 'guard:capacities-negative', 'guard:capacities-none',
             'ero:strict-true', 'ero:strict-false', 'pathinfo:Path', 'pathinfo:Graph', 'jsondata:at-max-size',
             'flags:all-false', 'flags:all-true', 'tags:empty'])

ASSUMPTIONS = [
    'domain = values constructible through each class\'s public constructor/setters: Capacities fields ints >= 0 '
    '(None and negative differences are skipped, not judged), Labels/ReservationInfo/StructuralInfo values str or '
    'list of str accepted by the validators, Location values str or finite float, Flags bools, PathInfo/ERO with a '
    'payload set (an unset Path-type PathInfo has no encoding: to_json raises AttributeError - not judged), Path hop '
    'lists made of JSON-native values, maintenance names str and dates datetime, JSON blobs within MAX_SIZE',
    'typed tuples: values whose text ends in white space are excluded for fromstring= (it strips by design); '
    'parse_from_string is judged on all values',
    'field-wise equality is type-strict (bool/int/float/str distinguished) on __dict__ / public getters',
    'held on the executions observed, not a proof',
]

_installed = False
MISSING = '<missing>'


# ----------------------------------------------------------------------------------------------
# canonical, type-strict, JSON-able view of a value
def cz(v):
    if v is None or isinstance(v, str):
        return v
    if isinstance(v, bool):
        return {'bool': v}
    if isinstance(v, int):
        return {'int': str(v)}
    if isinstance(v, float):
        return {'float': repr(v)}
    if isinstance(v, (list, tuple)):
        return [type(v).__name__] + [cz(i) for i in v]
    if isinstance(v, dict):
        return {'dict': sorted(([cz(k), cz(x)] for k, x in v.items()), key=repr)}
    return {'obj': type(v).__name__, 'repr': repr(v)}


def czd(d):
    return {k: cz(v) for k, v in d.items()}


def short(v, n=300):
    """Witness-friendly view: long strings are shown by head + length."""
    if isinstance(v, str) and len(v) > n:
        return v[:40] + f'...<{len(v)} chars>'
    if isinstance(v, list):
        return [short(i, n) for i in v]
    if isinstance(v, dict):
        return {short(k, n): short(x, n) for k, x in v.items()}
    if isinstance(v, (int, float, bool)) or v is None or isinstance(v, str):
        return v
    return repr(v)


_defaults = {}


def defaults_of(cls):
    if cls not in _defaults:
        _defaults[cls] = dict(cls().__dict__)
    return _defaults[cls]


# Flags.to_json is specialised to keep false values; it always emits the full dictionary and its documentation does
# not promise the empty text.  Every other member of the family documents "no values -> empty string".
NO_EMPTY_CONVENTION = {'Flags'}


def uses_base_to_json(cls):
    """True when cls follows the documented convention 'a value with nothing set <-> empty text <-> absent':
    it inherits JSONField.to_json and is not listed in NO_EMPTY_CONVENTION."""
    if cls.__name__ in NO_EMPTY_CONVENTION:
        return False
    for k in cls.__mro__:
        if 'to_json' in k.__dict__:
            return k.__name__ == 'JSONField'
    return False


def is_str_or_strlist(v):
    return v is None or isinstance(v, str) or (isinstance(v, list) and all(isinstance(i, str) for i in v))


def jf_domain(x):
    """None when x is inside the codec's domain, else the reason it is skipped."""
    cls = type(x)
    d = x.__dict__
    dflt = defaults_of(cls)
    if set(d) != set(dflt):
        return 'attribute set differs from a fresh object'
    n = cls.__name__
    vals = list(d.values())
    if n == 'Capacities':
        if any(v is None for v in vals):
            return 'capacities-none'
        if any(not isinstance(v, int) for v in vals):
            return 'capacities-non-int'
        if any(v < 0 for v in vals):
            return 'capacities-negative'
    elif n == 'Flags':
        if any(not isinstance(v, bool) for v in vals):
            return 'flags-non-bool'
    elif n == 'Location':
        for v in vals:
            if not (v is None or isinstance(v, str) or (isinstance(v, float) and math.isfinite(v))):
                return 'location-value-type'
    elif n == 'CapacityHints':
        if any(not (v is None or isinstance(v, str)) for v in vals):
            return 'hints-value-type'
    elif n in ('Labels', 'ReservationInfo', 'StructuralInfo'):
        if any(not is_str_or_strlist(v) for v in vals):
            return 'value-not-str-or-list-of-str'
    # constructible through the public constructor (attribute assignment can bypass the validators)
    try:
        cls(**{k: v for k, v in d.items() if cz(v) != cz(dflt[k])})
    except Exception:
        return 'not constructible through the public constructor'
    return None


def set_fields(x):
    dflt = defaults_of(type(x))
    return {k: v for k, v in x.__dict__.items() if cz(v) != cz(dflt.get(k, MISSING))}


def is_zero_number(v):
    return isinstance(v, (int, float)) and not isinstance(v, bool) and v == 0


# ----------------------------------------------------------------------------------------------
# judges: (value, encoded text) -> None | 'skip' | (key, clause, witness)
def judge_jsonfield(x, text):
    cls = type(x)
    fam = cls.__name__
    low = fam.lower()
    why = jf_domain(x)
    if why:
        if Sink.ctx is not None:
            Sink.ctx.count('guard:' + why.replace(' ', '-')[:40])
        return 'skip'
    dflt = defaults_of(cls)
    cur = dict(x.__dict__)
    sf = set_fields(x)
    w = {'kind': 'jsonfield', 'class': fam, 'fields': short(sf), 'text': short(text)}
    if not isinstance(text, str):
        return (f'C03/{low}-encode-not-text', 'to_json returns text', w)
    try:
        y = cls.from_json(text)
    except Exception as e:
        w['exception'] = f'{type(e).__name__}: {e}'[:300]
        return (f'C03/{low}-decode-raises', 'the decoder accepts the class\'s own encoding', w)
    conv = uses_base_to_json(cls)
    if y is not None and not isinstance(y, cls):
        w['decoded_type'] = type(y).__name__
        return (f'C03/{low}-decode-wrong-class', 'decoded value has the same class', w)
    if not sf:
        if conv:
            if text != '' or y is not None:
                w['decoded'] = None if y is None else short(dict(y.__dict__))
                return (f'C03/{low}-empty-value-not-empty-text',
                        'a value with nothing set is encoded as empty text and read back as absent', w)
            return None
        if y is None:
            return (f'C03/{low}-decodes-to-absent', 'value decodes to an equal value', w)
    got = dict(dflt) if y is None else dict(y.__dict__)
    diffs = {k: [short(cur.get(k, MISSING)), short(got.get(k, MISSING))]
             for k in sorted(set(cur) | set(got)) if cz(cur.get(k, MISSING)) != cz(got.get(k, MISSING))}
    if diffs or y is None:
        w['diffs'] = diffs
        w['decoded_absent'] = y is None
        zero = bool(diffs) and all(k in cur and is_zero_number(cur[k]) and cz(got.get(k, MISSING)) == cz(dflt[k])
                                   for k in diffs)
        if zero:
            key = 'C03/location-zero-coordinate-dropped' if fam == 'Location' else f'C03/{low}-zero-value-dropped'
            return (key, 'a field whose value is 0 / 0.0 survives the round trip (it is dropped as "unset")', w)
        if y is None:
            return (f'C03/{low}-decodes-to-absent', 'a value with something set does not read back as absent', w)
        return (f'C03/{low}-roundtrip-differs', 'decode(encode(x)) equals x field-wise', w)
    try:
        again = y.to_json()
    except Exception as e:
        w['exception'] = f'{type(e).__name__}: {e}'[:300]
        return (f'C03/{low}-reencode-raises', 'the decoded value can be encoded again', w)
    if again != text:
        w['reencoded'] = short(again)
        return (f'C03/{low}-reencode-differs', 'encode(decode(encode(x))) == encode(x) byte for byte', w)
    if text:
        pairs = json.loads(text, object_pairs_hook=lambda p: [k for k, _ in p])
        if isinstance(pairs, list) and pairs != sorted(pairs):
            w['key_order'] = pairs
            return (f'C03/{low}-keys-not-sorted', 'canonical text: keys are emitted in sorted order', w)
    return None


def tags_domain(x):
    from fim.slivers.tags import Tags
    if not isinstance(x.tags, list) or any(not isinstance(t, str) for t in x.tags):
        return 'tags-not-list-of-str'
    try:
        Tags(list(x.tags))
    except Exception:
        return 'not constructible'
    return None


def judge_tags(x, text):
    from fim.slivers.tags import Tags
    if tags_domain(x):
        return 'skip'
    w = {'kind': 'tags', 'tags': short(list(x.tags)), 'text': short(text)}
    if not isinstance(text, str):
        return ('C03/tags-encode-not-text', 'to_json returns text', w)
    try:
        y = Tags.from_json(text)
    except Exception as e:
        w['exception'] = f'{type(e).__name__}: {e}'[:300]
        return ('C03/tags-decode-raises', 'the decoder accepts the class\'s own encoding', w)
    if y is None:
        return ('C03/tags-decodes-to-absent', 'a tag list (even empty) decodes to a tag list', w)
    if cz(y.tags) != cz(x.tags):
        w['decoded'] = short(y.tags)
        return ('C03/tags-roundtrip-differs', 'decode(encode(x)) has the same tags in the same order', w)
    if y.to_json() != text:
        w['reencoded'] = short(y.to_json())
        return ('C03/tags-reencode-differs', 'encode(decode(encode(x))) == encode(x)', w)
    return None


def judge_gateway(x, text):
    from fim.slivers.gateway import Gateway
    from fim.slivers.capacities_labels import Labels
    w = {'kind': 'gateway', 'fields': None if x.lab is None else short(set_fields(x.lab)), 'text': short(text)}
    if x.lab is None:
        # Gateway(None): encodes to None (absent); must read back as a gateway with nothing set
        try:
            y = Gateway.from_json(text)
        except Exception as e:
            w['exception'] = f'{type(e).__name__}: {e}'[:300]
            return ('C03/gateway-decode-raises', 'the decoder accepts the class\'s own encoding', w)
        # 'read back as absent': None (what the decoder returns since the Gateway repair) or a gateway with nothing set
        if text not in (None, '') or (y is not None and y.lab is not None):
            return ('C03/gateway-empty-value-not-absent', 'an empty gateway encodes to absent and reads back empty', w)
        return None
    if not isinstance(x.lab, Labels) or jf_domain(x.lab):
        return 'skip'
    try:
        g = Gateway(x.lab)
        if czd(g.lab.__dict__) != czd(x.lab.__dict__):
            return 'skip'
    except Exception:
        return 'skip'
    if not isinstance(text, str):
        return ('C03/gateway-encode-not-text', 'to_json returns text', w)
    try:
        y = Gateway.from_json(text)
    except Exception as e:
        w['exception'] = f'{type(e).__name__}: {e}'[:300]
        return ('C03/gateway-decode-raises', 'the decoder accepts the class\'s own encoding', w)
    if y is None or y.lab is None or czd(y.lab.__dict__) != czd(x.lab.__dict__):
        w['decoded'] = None if (y is None or y.lab is None) else short(set_fields(y.lab))
        return ('C03/gateway-roundtrip-differs', 'decode(encode(x)) equals x field-wise', w)
    if (y.gateway, y.subnet, y.mac) != (x.gateway, x.subnet, x.mac):
        return ('C03/gateway-roundtrip-differs', 'gateway/subnet/mac getters agree after the round trip', w)
    if y.to_json() != text:
        w['reencoded'] = short(y.to_json())
        return ('C03/gateway-reencode-differs', 'encode(decode(encode(x))) == encode(x)', w)
    return None


def json_native(v):
    try:
        return cz(json.loads(json.dumps(v))) == cz(v)
    except Exception:
        return False


def path_view(x):
    """Type-strict public view of a PathInfo/ERO."""
    from fim.slivers.path_info import Path
    t, p = x.get()
    if isinstance(p, Path):
        a, z = p.get()
        pv = {'a2z': cz(a), 'z2a': cz(z)}
    else:
        pv = cz(p)
    v = {'class': type(x).__name__, 'type': getattr(t, 'name', repr(t)), 'payload': pv}
    if hasattr(x, 'get_strict'):
        v['strict'] = cz(x.get_strict())
    return v


def path_domain(x):
    from fim.slivers.path_info import Path, PathRepresentationType, ERO
    if not isinstance(x.type, PathRepresentationType):
        return 'type-not-enum'
    if x.type == PathRepresentationType.Path:
        if not isinstance(x.payload, Path):
            return 'payload-unset-or-wrong'
        for l in x.payload.get():
            if not (l is None or (isinstance(l, list) and json_native(l))):
                return 'hops-not-json-native'
    elif not isinstance(x.payload, str):
        return 'graph-payload-not-str'
    if isinstance(x, ERO) and not isinstance(x.strict, bool):
        return 'strict-not-bool'
    return None


def judge_path(x, text):
    fam = type(x).__name__
    low = fam.lower()
    if path_domain(x):
        return 'skip'
    view = path_view(x)
    w = {'kind': 'path', 'value': short(view), 'text': short(text)}
    if not isinstance(text, str):
        return (f'C03/{low}-encode-not-text', 'to_json returns text', w)
    try:
        y = type(x).from_json(text)
    except Exception as e:
        w['exception'] = f'{type(e).__name__}: {e}'[:300]
        return (f'C03/{low}-decode-raises', 'the decoder accepts the class\'s own encoding', w)
    if y is None:
        return (f'C03/{low}-decodes-to-absent', 'value decodes to an equal value', w)
    try:
        yv = path_view(y)
    except Exception as e:
        yv = f'unviewable: {type(e).__name__}: {e}'
    if yv != view:
        w['decoded'] = short(yv)
        return (f'C03/{low}-roundtrip-differs', 'decode(encode(x)) has the same class, type, payload and strict flag', w)
    again = y.to_json()
    if again != text:
        w['reencoded'] = short(again)
        return (f'C03/{low}-reencode-differs', 'encode(decode(encode(x))) == encode(x)', w)
    return None


def maint_view(x):
    out = []
    for name, e in x.list_details():
        out.append([name, getattr(getattr(e, 'state', None), 'name', getattr(e, 'state', None)),
                    _iso(getattr(e, 'deadline', None)), _iso(getattr(e, 'expected_end', None))])
    return out


def _iso(d):
    return d.isoformat() if hasattr(d, 'isoformat') else d


def maint_domain(x):
    from datetime import datetime
    from fim.slivers.maintenance_mode import MaintenanceEntry, MaintenanceState
    for name, e in x.list_details():
        if not isinstance(name, str) or not isinstance(e, MaintenanceEntry):
            return 'name-or-entry-type'
        if not (e.state is None or isinstance(e.state, MaintenanceState)):
            return 'state-type'
        for d in (e.deadline, e.expected_end):
            if not (d is None or isinstance(d, datetime)):
                return 'date-type'
    return None


def judge_maint(x, text):
    from fim.slivers.maintenance_mode import MaintenanceInfo
    if maint_domain(x):
        return 'skip'
    view = maint_view(x)
    w = {'kind': 'maintenance', 'entries': short(view), 'text': short(text)}
    if not isinstance(text, str):
        return ('C03/maintenance-encode-not-text', 'to_json returns text', w)
    try:
        y = MaintenanceInfo.from_json(text)
    except Exception as e:
        w['exception'] = f'{type(e).__name__}: {e}'[:300]
        return ('C03/maintenance-decode-raises', 'the decoder accepts the class\'s own encoding', w)
    if y is None:
        return ('C03/maintenance-decodes-to-absent', 'a maintenance record (even empty) decodes to a record', w)
    yv = maint_view(y)
    if yv != view:
        w['decoded'] = short(yv)
        return ('C03/maintenance-roundtrip-differs', 'decode(encode(x)) has the same names, states and dates', w)
    for (n1, e1), (n2, e2) in zip(x.list_details(), y.list_details()):
        if not (e1 == e2):
            w['entry'] = n1
            return ('C03/maintenance-roundtrip-differs', 'decoded entries compare equal to the originals', w)
    try:
        again = y.to_json()
    except Exception as e:
        w['exception'] = f'{type(e).__name__}: {e}'[:300]
        return ('C03/maintenance-decoded-not-finalized', 'a decoded record is finalized (it can be encoded)', w)
    if again != text:
        w['reencoded'] = short(again)
        return ('C03/maintenance-reencode-differs', 'encode(decode(encode(x))) == encode(x)', w)
    return None


def _dumps_stable(v):
    return json.dumps(v, sort_keys=True)


def judge_jsondata(x, given=MISSING):
    """x: a constructed JSONData; given: the constructor argument when known (monitor)."""
    cls = type(x)
    low = 'jsondata'
    text = x.json
    w = {'kind': 'jsondata', 'class': cls.__name__, 'text': short(text)}
    if given is not MISSING:
        w['given'] = short(given)
    if not isinstance(text, str):
        return (f'C03/{low}-encode-not-text', 'the stored form is text', w)
    if given is not MISSING:
        if given is None:
            if text != '{}':
                return (f'C03/{low}-none-not-empty-object', 'no data is stored as the empty object', w)
        elif isinstance(given, str):
            try:
                same = _dumps_stable(json.loads(text)) == _dumps_stable(json.loads(given))
            except Exception:
                return 'skip'
            if not same:
                return (f'C03/{low}-text-value-altered', 'JSON text given to the constructor keeps its value', w)
        else:
            try:
                exp = _dumps_stable(json.loads(json.dumps(given)))
            except Exception:
                return 'skip'
            if _dumps_stable(json.loads(text)) != exp:
                return (f'C03/{low}-object-altered', 'an object given to the constructor decodes back from the text', w)
    try:
        y = cls(text)
    except Exception as e:
        w['exception'] = f'{type(e).__name__}: {e}'[:300]
        return (f'C03/{low}-decode-raises', 'the stored text can be read back by the same class', w)
    if y.json != text:
        w['reencoded'] = short(y.json)
        return (f'C03/{low}-reencode-differs', 'encode(decode(encode(x))) == encode(x)', w)
    try:
        a, b = _dumps_stable(x.data), _dumps_stable(y.data)
    except TypeError:
        a, b = repr(x.data), repr(y.data)
    if a != b:
        return (f'C03/{low}-roundtrip-differs', 'decoded data equals the original data', w)
    return None


# ----------------------------------------------------------------------------------------------
def install():
    """Attach the monitors to the real classes (idempotent)."""
    global _installed
    if _installed:
        return
    _installed = True
    from fim.slivers import capacities_labels as CL
    from fim.slivers.tags import Tags
    from fim.slivers.gateway import Gateway
    from fim.slivers.path_info import PathInfo, ERO
    from fim.slivers.maintenance_mode import MaintenanceInfo
    from fim.slivers.json_data import JSONData

    def counted(judge):
        def body(self, result):
            if Sink.ctx is not None:
                Sink.ctx.count('mon:to_json:' + type(self).__name__)
            return judge(self, result)
        return body

    jf_body, tags_body, gw_body = counted(judge_jsonfield), counted(judge_tags), counted(judge_gateway)
    path_body, maint_body = counted(judge_path), counted(judge_maint)

    @K.monitored('to_json:JSONField')
    def jf_ok(self, result):
        return jf_body(self, result)

    @K.monitored('to_json:Flags.override')
    def flags_ok(self, result):
        return jf_body(self, result)

    @K.monitored('to_json:Tags.m')
    def tags_ok(self, result):
        return tags_body(self, result)

    @K.monitored('to_json:Gateway.m')
    def gw_ok(self, result):
        return gw_body(self, result)

    @K.monitored('to_json:PathInfo.m')
    def pi_ok(self, result):
        return path_body(self, result)

    @K.monitored('to_json:ERO.m')
    def ero_ok(self, result):
        return path_body(self, result)

    @K.monitored('to_json:MaintenanceInfo.m')
    def mi_ok(self, result):
        return maint_body(self, result)

    K.attach(CL.JSONField, 'to_json', 'c03-to_json', jf_ok)
    for sub in _all_subclasses(CL.JSONField):
        if 'to_json' in sub.__dict__:          # Flags today
            K.attach(sub, 'to_json', 'c03-to_json', flags_ok)
    K.attach(Tags, 'to_json', 'c03-to_json', tags_ok)
    K.attach(Gateway, 'to_json', 'c03-to_json', gw_ok)
    K.attach(PathInfo, 'to_json', 'c03-to_json', pi_ok)
    if 'to_json' in ERO.__dict__:
        K.attach(ERO, 'to_json', 'c03-to_json', ero_ok)
    K.attach(MaintenanceInfo, 'to_json', 'c03-to_json', mi_ok)

    # --- copy-with-changes
    def snap_lab(lab):
        return copy.deepcopy(dict(lab.__dict__)) if isinstance(lab, CL.JSONField) else None

    @K.monitored('update')
    def update_ok(lab, result, OLD, _KWARGS):
        return judge_update(lab, OLD.before, _KWARGS, result)

    K.attach(CL.JSONField, 'update', 'c03-update', update_ok, {'before': snap_lab})

    # --- JSON blobs
    @K.monitored('jsondata')
    def jd_ok(self, data):
        return judge_jsondata(self, data)

    K.attach(JSONData, '__init__', 'c03-jsondata', jd_ok)

    # --- finalized maintenance records
    def lock_of(self):
        return bool(getattr(self, '_lock', False)), maint_view(self)

    def mut_body(op):
        def body(self, name, OLD):
            locked, before = OLD.state
            if not locked:
                return 'skip'
            return (f'C03/finalized-{op}-returned-normally', f'{op}() on a finalized maintenance record raises',
                    {'kind': 'finalized', 'op': op, 'name': short(name), 'before': short(before),
                     'after': short(maint_view(self))})
        return body

    add_b, rem_b, pop_b = mut_body('add'), mut_body('rem'), mut_body('pop')

    @K.monitored('maint-add')
    def add_ok(self, name, OLD):
        return add_b(self, name, OLD)

    @K.monitored('maint-rem')
    def rem_ok(self, name, OLD):
        return rem_b(self, name, OLD)

    @K.monitored('maint-pop')
    def pop_ok(self, name, OLD):
        return pop_b(self, name, OLD)

    K.attach(MaintenanceInfo, 'add', 'c03-add', add_ok, {'state': lock_of})
    K.attach(MaintenanceInfo, 'rem', 'c03-rem', rem_ok, {'state': lock_of})
    K.attach(MaintenanceInfo, 'pop', 'c03-pop', pop_ok, {'state': lock_of})


def _all_subclasses(cls):
    out = []
    for s in cls.__subclasses__():
        out.append(s)
        out.extend(_all_subclasses(s))
    return out


def judge_update(lab, before, kwargs, result):
    """Post-condition of JSONField.update(lab, **kwargs) (before = deep snapshot of lab.__dict__)."""
    if before is None or 'forgiving' in kwargs:
        return 'skip'
    fam = type(lab).__name__
    w = {'kind': 'update', 'class': fam, 'before': short(before), 'kwargs': short(dict(kwargs)),
         'after': short(dict(lab.__dict__)),
         'result': short(dict(result.__dict__)) if hasattr(result, '__dict__') else repr(result)}
    if result is lab:
        return ('C03/update-returns-argument', 'copy-with-changes returns a new object', w)
    if type(result) is not type(lab):
        return ('C03/update-wrong-class', 'copy-with-changes returns an object of the argument\'s class', w)
    if czd(lab.__dict__) != czd(before):
        return ('C03/update-mutates-argument', 'copy-with-changes leaves the original untouched', w)
    exp = dict(before)
    exp.update(kwargs)
    if czd(result.__dict__) != czd(exp):
        w['expected'] = short(exp)
        return ('C03/update-not-overlay', 'result = argument overlaid with the given fields', w)
    return None


# ----------------------------------------------------------------------------------------------
# sweep machinery
class quiet:
    """Run harness-side oracle code without re-triggering the monitors on nested calls."""
    def __enter__(self):
        Sink.depth += 1

    def __exit__(self, *a):
        Sink.depth -= 1


def report(ctx, res, counter):
    """Record the outcome of an explicit (sweep-side) judge call."""
    if res == 'skip':
        ctx.count('sweep-skip:' + counter)
        return False
    ctx.count('judged:' + counter)
    if res is not None:
        ctx.violation(*res)
    return True


def encode(ctx, x, fam, w):
    """x.to_json() at monitor depth 0 (so the attached monitor judges it too)."""
    try:
        return True, x.to_json()
    except Exception as e:
        ctx.violation(f'C03/{fam.lower()}-encode-raises', 'an in-domain value can be encoded',
                      dict(w, exception=f'{type(e).__name__}: {e}'[:300]))
        return False, None


UNKNOWN_KEYS = ['zz_future_field', 'Vlan', 'ipv4_', 'new-field', 'with space', '', 'ünï', '0', 'payload2',
                'Type', 'state2', 'lock',
                # names that are fields of ANOTHER class of the family (unknown where they are offered; what a decoder remembers about
                # them must not leak into the class that owns them - the sweep keeps round-tripping every class)
                'mtu', 'core', 'vlan', 'postal', 'instance_type', 'auto_config', 'bdf', 'adm_graph_ids', 'reservation_state']
PARAM_KEYS = ['forgiving', 'self']
METHOD_KEYS = ['to_json', 'update', 'list_fields']


def same_type_value(rng, fam):
    if fam == 'Capacities':
        return rng.choice([0, 1, 7, 2 ** 63])
    if fam == 'Flags':
        return rng.choice([True, False])
    if fam == 'Location':
        return rng.choice(['x', 0.0, 1.5, ''])
    if fam == 'CapacityHints':
        return rng.choice(['x', '', 'fabric.c1'])
    return rng.choice(['x', '', '17', ['a', 'b'], []])


def foreign_type_value(rng, fam):
    pool = [None, -1, 5, 2.5, True, 'text', ['l'], {'nested': 1}]
    if fam == 'Capacities':
        pool = [-1, 2.5, 'text', ['l'], {'nested': 1}]          # None and ints >= 0 are the class's own types
    elif fam == 'Flags':
        pool = [None, -1, 5, 2.5, 'text', ['l'], {'nested': 1}]
    elif fam == 'Location':
        pool = [None, -1, 5, True, ['l'], {'nested': 1}]
    elif fam == 'CapacityHints':
        pool = [None, -1, 5, 2.5, True, ['l'], {'nested': 1}]
    else:
        pool = [None, -1, 5, 2.5, True, {'nested': 1}]
    return rng.choice(pool)


def inject_unknown(rng, d, names, values):
    """A copy of dictionary d with 1-3 keys it does not have, each at a random position (so that unknown keys come first, last,
    next to each other or apart); returns (new dict, the keys added)."""
    names = [n for n in names if n not in d]
    rng.shuffle(names)
    add = names[:rng.choice([1, 1, 2, 3])]
    items = list(d.items())
    for k in add:
        items.insert(rng.randrange(len(items) + 1), (k, rng.choice(values)))
    if len(add) > 1 and rng.random() < 0.5:
        # ... and next to each other for certain
        rest = [(a, b) for a, b in items if a not in add]
        at = rng.randrange(len(rest) + 1)
        items = rest[:at] + [(a, b) for a, b in items if a in add] + rest[at:]
    return dict(items), add


FWD_KEYS = {'same': ('C03/{low}-unknown-key-rejected', 'C03/{low}-unknown-key-changes-fields'),
            'foreign': ('C03/unknown-key-value-type-asserted-before-field-lookup', 'C03/{low}-unknown-key-changes-fields'),
            'param': ('C03/unknown-key-collides-with-decoder-parameter',) * 2,
            'method': ('C03/unknown-key-collides-with-method-name',) * 2}


def judge_fwd_jsonfield(cls, t2, mode, k, v):
    """t2: a JSON text of cls with unknown keys; expected = decoding of the same text restricted to known fields."""
    fam = cls.__name__
    F = set(defaults_of(cls))
    d2 = json.loads(t2)
    known = {a: b for a, b in d2.items() if a in F}
    base = cls.from_json(json.dumps(known)) if known else None
    base_d = czd(defaults_of(cls)) if base is None else czd(base.__dict__)
    w = {'kind': 'fwd-jsonfield', 'class': fam, 'text': short(t2), 'unknown_key': k, 'unknown_value': short(v),
         'mode': mode}
    keys = [x.format(low=fam.lower()) for x in FWD_KEYS[mode]]
    try:
        y = cls.from_json(t2)
    except Exception as e:
        w['exception'] = f'{type(e).__name__}: {e}'[:300]
        return (keys[0], 'decoding tolerates an unknown key', w)
    got = None if y is None else czd(y.__dict__)
    if got != base_d:
        w['expected'], w['decoded'] = base_d, got
        return (keys[1], 'known fields are unchanged by an unknown key (and nothing else appears)', w)
    return None


def fwd_jsonfield(ctx, rng, x, text):
    """Unknown keys injected at the top level of a JSONField text."""
    cls = type(x)
    fam = cls.__name__
    F = set(defaults_of(cls))
    with quiet():
        d = json.loads(text) if text else {}
        plans = [('same', rng.choice(UNKNOWN_KEYS), same_type_value(rng, fam)),
                 ('same', rng.choice(UNKNOWN_KEYS), same_type_value(rng, fam)),
                 ('foreign', rng.choice(UNKNOWN_KEYS), foreign_type_value(rng, fam))]
        if rng.random() < 0.05:
            plans.append(('param', rng.choice(PARAM_KEYS), same_type_value(rng, fam)))
        if rng.random() < 0.05:
            plans.append(('method', rng.choice(METHOD_KEYS), same_type_value(rng, fam)))
        for mode, k, v in plans:
            if k in F:
                continue
            d2 = dict(d)
            d2[k] = v
            if rng.random() < 0.3 and mode == 'same':
                d2[rng.choice(UNKNOWN_KEYS) + '_2'] = same_type_value(rng, fam)
                if rng.random() < 0.4:
                    d2[rng.choice(UNKNOWN_KEYS) + '_3'] = same_type_value(rng, fam)
            items = list(d2.items())
            rng.shuffle(items)
            t2 = json.dumps(dict(items))
            ctx.count('fwd:' + fam)
            ctx.count('fwd-mode:' + mode)
            ctx.seen(['fwd', fam, t2], True)
            res = judge_fwd_jsonfield(cls, t2, mode, k, v)
            if res is not None:
                ctx.violation(*res)


def sweep_jsonfield(ctx, rng, x, do_fwd=True):
    fam = type(x).__name__
    sf = set_fields(x)
    w = {'kind': 'jsonfield', 'class': fam, 'fields': short(sf)}
    ok, text = encode(ctx, x, fam, w)
    if not ok:
        return
    ctx.seen(['rt', fam, text if text else czd(sf)], bool(sf))
    if not sf and uses_base_to_json(type(x)):
        ctx.count('empty:' + fam)
    with quiet():
        judged = report(ctx, judge_jsonfield(x, text), fam)
    if judged and do_fwd:
        fwd_jsonfield(ctx, rng, x, text)
    return text


def sweep_update(ctx, rng, x, other):
    """cls.update(x, **fields of `other`): new object, x untouched, overlay."""
    cls = type(x)
    fam = cls.__name__
    kw = dict(rng.sample(sorted(set_fields(other).items()), k=min(len(set_fields(other)), rng.choice([0, 1, 2, 5]))))
    before = copy.deepcopy(dict(x.__dict__))
    w = {'kind': 'update', 'class': fam, 'before': short(before), 'kwargs': short(kw)}
    via = rng.choice([cls, type(x).__mro__[1]])          # Labels.update(...) and JSONField.update(...)
    try:
        r = via.update(x, **kw)
    except Exception as e:
        ctx.violation('C03/update-raises', 'copy-with-changes accepts values the constructor accepted',
                      dict(w, exception=f'{type(e).__name__}: {e}'[:300]))
        return
    ctx.count('update:' + fam)
    ctx.seen(['update', fam, czd(before), czd(kw)], bool(kw) or bool(set_fields(x)))
    with quiet():
        res = judge_update(x, before, kw, r)
    if res not in (None, 'skip'):
        ctx.violation(*res)
        return
    # the new value is a value of its own: editing a list it holds (the ordinary `c.vlan.append(...)`) leaves the original untouched
    lists = [k for k, v in r.__dict__.items() if isinstance(v, list) and k not in kw]
    if lists:
        ctx.count('update:list-field-independence')
        try:
            t0 = x.to_json()
            for k in lists:
                getattr(r, k).append('__edited__')
            if x.to_json() != t0:
                ctx.violation('C03/update-shares-list-with-original', 'the copy-with-changes operation returns a new value and leaves the original '
                              'untouched (the two do not share their list-valued fields)', dict(w, fields=lists, original_now=short(x.to_json())))
        except Exception as e:
            ctx.violation('C03/update-raises', f'{type(e).__name__}: {e}'[:200], w)


def sweep_tags(ctx, rng, x):
    w = {'kind': 'tags', 'tags': short(list(x.tags))}
    ok, text = encode(ctx, x, 'Tags', w)
    if not ok:
        return
    if not x.tags:
        ctx.count('tags:empty')
    ctx.seen(['rt', 'Tags', text], bool(x.tags))
    with quiet():
        report(ctx, judge_tags(x, text), 'Tags')
        # the constructor copies: the caller's list is neither kept nor changed
        from fim.slivers.tags import Tags
        src = list(x.tags)
        keep = list(src)
        t = Tags(src)
        if src != keep or t.tags is src:
            ctx.violation('C03/tags-constructor-aliases-input', 'building a tag list leaves the input list alone', w)


def sweep_gateway(ctx, rng, x):
    w = {'kind': 'gateway', 'fields': None if x.lab is None else short(set_fields(x.lab))}
    ok, text = encode(ctx, x, 'Gateway', w)
    if not ok:
        return
    ctx.seen(['rt', 'Gateway', text], x.lab is not None)
    with quiet():
        judged = report(ctx, judge_gateway(x, text), 'Gateway')
        if not judged or not text:
            return
        from fim.slivers.gateway import Gateway
        base = czd(Gateway.from_json(text).lab.__dict__)
        d = json.loads(text)
        d, k = inject_unknown(rng, d, [u for u in UNKNOWN_KEYS if u not in base], ['x', '', '10.0.0.1'])
        t2 = json.dumps(d)
        ctx.count('fwd:Gateway')
        ctx.count(f'fwd-unknown-keys:{len(k)}')
        ctx.seen(['fwd', 'Gateway', t2], True)
        w2 = {'kind': 'fwd-gateway', 'text': short(t2), 'unknown_key': k}
        try:
            y = Gateway.from_json(t2)
        except Exception as e:
            ctx.violation('C03/gateway-unknown-key-rejected', 'decoding tolerates an unknown key',
                          dict(w2, exception=f'{type(e).__name__}: {e}'[:300]))
            return
        if y.lab is None or czd(y.lab.__dict__) != base:
            ctx.violation('C03/gateway-unknown-key-changes-fields', 'known fields are unchanged by an unknown key', w2)


def sweep_path(ctx, rng, x):
    from fim.slivers.path_info import PathRepresentationType
    cls = type(x)
    fam = cls.__name__
    low = fam.lower()
    with quiet():
        view = path_view(x)
    w = {'kind': 'path', 'value': short(view)}
    # a path value with nothing set (no payload yet): empty text, read back as absent - not a crash
    ctx.count('empty:' + fam)
    for t in PathRepresentationType:
        try:
            e = cls(t)
            txt = e.to_json()
            back = cls.from_json(txt)
        except Exception as ex:
            ctx.violation(f'C03/{low}-empty-value-raises', 'a value with nothing set is encoded as empty text and read back as absent',
                          {'kind': 'path', 'class': fam, 'type': t.name, 'exception': f'{type(ex).__name__}: {ex}'[:200]})
            break
        if txt != '' or back is not None:
            ctx.violation(f'C03/{low}-empty-value-not-empty-text', 'a value with nothing set is encoded as empty text and read back as absent',
                          {'kind': 'path', 'class': fam, 'type': t.name, 'text': short(txt), 'decoded': short(repr(back))})
            break
    ok, text = encode(ctx, x, fam, w)
    if not ok:
        return
    ctx.count('pathinfo:' + x.type.name)
    if fam == 'ERO':
        ctx.count('ero:strict-true' if x.get_strict() else 'ero:strict-false')
    ctx.seen(['rt', fam, text], True)
    with quiet():
        if not report(ctx, judge_path(x, text), fam):
            return
        levels = ['top'] + (['payload'] if x.type == PathRepresentationType.Path else [])
        for level in levels:
            d = json.loads(text)
            vals = ['x', 1, None, True, ['a'], {'n': 1}]
            if level == 'top':
                d, k = inject_unknown(rng, d, UNKNOWN_KEYS + ['strict2', 'a2z2', 'hops'], vals)
            else:
                d['payload'], k = inject_unknown(rng, d['payload'], UNKNOWN_KEYS + ['strict2', 'a2z2', 'hops'], vals)
            ctx.count(f'fwd-unknown-keys:{len(k)}')
            t2 = json.dumps(d)
            ctx.count(f'fwd:{fam}:{level}')
            ctx.seen(['fwd', fam, level, t2], True)
            w2 = {'kind': 'fwd-path', 'class': fam, 'text': short(t2), 'level': level, 'unknown_key': k}
            try:
                y = cls.from_json(t2)
                yv = None if y is None else path_view(y)
            except Exception as e:
                ctx.violation(f'C03/{low}-unknown-key-rejected', f'decoding tolerates an unknown key ({level} level)',
                              dict(w2, exception=f'{type(e).__name__}: {e}'[:300]))
                continue
            if yv != view:
                ctx.violation(f'C03/{low}-unknown-key-changes-fields', 'known fields are unchanged by an unknown key',
                              dict(w2, decoded=short(yv), expected=short(view)))


FINALIZERS = ['finalize', 'from_json', 'sliver']


def sweep_maint(ctx, rng, x, how=None):
    """x: an UNFINALIZED MaintenanceInfo from the generator."""
    from fim.slivers.maintenance_mode import MaintenanceInfo, MaintenanceEntry, MaintenanceState
    from fim.slivers.network_node import NodeSliver
    view = maint_view(x)
    # copy(): new, unfinalized, equal entries; changing the copy leaves the original alone
    # (mutators run at monitor depth 0: the add/rem/pop monitors see unfinalized objects here and skip)
    c = x.copy()
    ctx.count('maint-copy')
    wc = {'kind': 'maint-copy', 'entries': short(view)}
    if c is x or maint_view(c) != view:
        ctx.violation('C03/maintenance-copy-differs', 'copy() returns a new record with the same entries', wc)
    else:
        try:
            c.add('\x00copy-probe', MaintenanceEntry(MaintenanceState.Maint))
            c.add('\x00copy-probe2', MaintenanceEntry(MaintenanceState.Active))
            c.rem('\x00copy-probe')
            c.pop('\x00copy-probe2')
            for n in c.list_names()[:1]:
                c.rem(n)
        except Exception as e:
            ctx.violation('C03/maintenance-copy-not-modifiable', 'a copy is not finalized',
                          dict(wc, exception=f'{type(e).__name__}: {e}'[:300]))
        if maint_view(x) != view:
            ctx.violation('C03/maintenance-copy-shares-state', 'changing the copy leaves the original untouched', wc)
    how = how or rng.choice(FINALIZERS)
    w = {'kind': 'maintenance', 'entries': short(view), 'finalized_by': how}
    if how == 'finalize':
        x.finalize()
        f = x
    elif how == 'sliver':
        ns = NodeSliver()
        ns.set_maintenance_info(x)       # documented to finalize ("used after the object is assigned to a property")
        f = ns.get_maintenance_info()
    else:
        x.finalize()
        f = None
    ok, text = encode(ctx, x, 'Maintenance', w)
    if not ok:
        return
    if f is None:
        with quiet():
            try:
                f = MaintenanceInfo.from_json(text)
            except Exception:
                f = None
        if f is None:
            f = x    # the decode failure itself is reported by judge_maint below
    ctx.count('finalized:' + how)
    ctx.seen(['rt', 'MaintenanceInfo', text], bool(view))
    with quiet():
        judged = report(ctx, judge_maint(x, text), 'MaintenanceInfo')
    # --- a finalized record cannot be altered (monitors on add/rem/pop are live here: depth 0)
    names = f.list_names()
    before_text = None
    with quiet():
        try:
            before_text = f.to_json()
        except Exception as e:
            ctx.violation('C03/maintenance-not-finalized-after-' + how, 'the record is finalized (encodable)',
                          dict(w, exception=f'{type(e).__name__}: {e}'[:300]))
            return
        before_view = maint_view(f)
    ops = [('add', ('\x00new-node', MaintenanceEntry(MaintenanceState.Maint)))]
    if names:
        n = rng.choice(names)
        other = MaintenanceEntry(MaintenanceState.Active if f.get(n).state != MaintenanceState.Active
                                 else MaintenanceState.Maint)
        ops += [('add', (n, other)), ('rem', (n,)), ('pop', (n,))]
    else:
        ops += [('rem', ('absent',)), ('pop', ('absent',))]
    for op, args in ops:
        raised = None
        try:
            getattr(f, op)(*args)
        except Exception as e:
            raised = type(e).__name__
        ctx.count('finalized-op:' + op)
        ctx.seen(['finalized', how, op, before_text], True)
        with quiet():
            after_view = maint_view(f)
            try:
                after_text = f.to_json()
            except Exception as e:
                after_text = f'<raises {type(e).__name__}>'
        wf = {'kind': 'finalized', 'finalized_by': how, 'op': op, 'name': short(args[0]), 'entries': short(before_view),
              'raised': raised, 'after': short(after_view)}
        if after_view != before_view or after_text != before_text:
            ctx.violation(f'C03/finalized-{op}-alters-record', f'{op}() cannot alter a finalized maintenance record', wf)
            return
        if raised is None and (names or op == 'add'):
            ctx.violation(f'C03/finalized-{op}-does-not-raise', f'{op}() on a finalized maintenance record raises', wf)
    # --- ... nor through the entries it hands out (get, list_details, iter, a copy's get): they are mutable objects; editing what a
    # reader was given must not change the finalized record
    if names:
        n = rng.choice(names)
        routes = {'get': lambda: f.get(n), 'list_details': lambda: dict(f.list_details())[n],
                  'iter': lambda: dict(f.iter())[n], 'copy-get': lambda: f.copy().get(n)}
        for route, fetch in routes.items():
            ctx.count('finalized-entry-edited-through:' + route)
            try:
                e = fetch()
                e.state = MaintenanceState.Active if e.state != MaintenanceState.Active else MaintenanceState.Maint
                e.deadline = datetime.datetime(2031, 1, 2, 3, 4, 5)
            except Exception:
                continue            # refusing the edit is fine too
            with quiet():
                try:
                    now_text, now_view = f.to_json(), maint_view(f)
                except Exception as ex:
                    now_text, now_view = f'<raises {type(ex).__name__}>', None
            if now_text != before_text or now_view != before_view:
                ctx.violation(f'C03/finalized-record-altered-through-entry:{route}', 'a finalized maintenance record cannot be altered - also '
                              f'not by editing the entry object {route} handed out',
                              {'kind': 'finalized', 'finalized_by': how, 'route': route, 'name': short(n), 'before': short(before_text),
                               'after': short(now_text)})
                return
    # --- forward compatibility inside an entry (reported under its own mechanism key)
    if judged and view:
        with quiet():
            d = json.loads(text)
            n = rng.choice(sorted(d))
            d[n], k = inject_unknown(rng, d[n], ['note', 'contact', 'zz_future', 'State', '', 'ticket'], ['x', None, 1, ['a']])
            t2 = json.dumps(d)
            ctx.count('fwd:MaintenanceInfo:entry')
            ctx.count(f'fwd-unknown-keys:{len(k)}')
            ctx.seen(['fwd', 'MaintenanceInfo', t2], True)
            w2 = {'kind': 'fwd-maintenance', 'text': short(t2), 'entry': short(n), 'unknown_key': k}
            try:
                y = MaintenanceInfo.from_json(t2)
            except Exception as e:
                ctx.violation('C03/maintenance-entry-unknown-key-raises',
                              'decoding tolerates an unknown key inside a maintenance entry',
                              dict(w2, exception=f'{type(e).__name__}: {e}'[:300]))
                return
            if y is None or maint_view(y) != view:
                ctx.violation('C03/maintenance-entry-unknown-key-changes-entry',
                              'known fields are unchanged by an unknown key', w2)


def sweep_jsondata(ctx, rng, x):
    cls = type(x)
    text = x.json
    if isinstance(text, str) and len(text) == cls.MAX_SIZE:
        ctx.count('jsondata:at-max-size')
    ctx.seen(['rt', cls.__name__, text], text != '{}')
    with quiet():
        report(ctx, judge_jsondata(x), cls.__name__)
        report(ctx, judge_jsondata_independent(x), cls.__name__)


def judge_jsondata_independent(x):
    """Read-modify-write probe: a caller edits the decoded container in place (the ordinary idiom
    `d = n.user_data; d[k] = v`); the same text decoded afterwards - by this object or by a new one - must still give the
    value the text denotes (reference: the standard library's parser)."""
    cls = type(x)
    text = x.json
    try:
        ref = _dumps_stable(json.loads(text))
        d = x.data
    except Exception:
        return 'skip'
    if not isinstance(d, (dict, list)):
        return 'skip'
    w = {'kind': 'jsondata-independence', 'class': cls.__name__, 'text': short(text)}
    if isinstance(d, dict):
        d['__edited_by_caller__'] = [1]
        for v in d.values():
            if isinstance(v, list):
                v.append('__edited__')
            elif isinstance(v, dict):
                v['__edited__'] = 1
    else:
        d.append('__edited_by_caller__')
    if x.json != text:
        return ('C03/jsondata-text-changed-by-editing-decoded-value', 'the stored text is what was stored', w)
    for who, y in (('same object', x), ('new object', cls(text))):
        try:
            got = _dumps_stable(y.data)
        except Exception as e:
            got = f'{type(e).__name__}: {e}'
        if got != ref:
            w.update(who=who, decoded=short(got), expected=short(ref))
            return ('C03/jsondata-decoded-value-shared-between-decodes',
                    'a value decodes from its own encoding to an equal value - whatever a caller did to an earlier decoded copy', w)
    return None


def sweep_typedtuple(ctx, rng, t):
    cls = type(t)
    fam = cls.__name__
    typ, val = t.get_type(), t.get_val()
    sval = str(val)
    w = {'kind': 'typedtuple', 'class': fam, 'type': typ, 'val': short(val)}
    try:
        s = t.get_as_string()
    except Exception as e:
        ctx.violation('C03/typedtuple-encode-raises', 'a typed tuple can be written as type:value',
                      dict(w, exception=f'{type(e).__name__}: {e}'[:300]))
        return
    w['text'] = short(s)
    ctx.seen(['tt', fam, s], True)
    if s != typ + ':' + sval:
        ctx.violation('C03/typedtuple-text-not-type-colon-value', 'text form is <type>:<value>', w)
        return
    # decoder 1: the constructor (strips the text by design -> values ending in white space are excluded)
    if s != s.strip():
        ctx.count('tt:excluded-trailing-blank')
    else:
        ctx.count('tt:fromstring')
        try:
            u = cls(fromstring=s)
            got = (type(u).__name__, u.get_type(), str(u.get_val()))
        except Exception as e:
            ctx.violation('C03/typedtuple-fromstring-raises', 'the constructor accepts the tuple\'s own text',
                          dict(w, exception=f'{type(e).__name__}: {e}'[:300]))
            return
        if got != (fam, typ, sval):
            ctx.violation('C03/typedtuple-fromstring-differs', 'cls(fromstring=t.get_as_string()) has the same type and '
                          'str(value)', dict(w, decoded=short(list(got))))
        elif u.get_as_string() != s:
            ctx.violation('C03/typedtuple-reencode-differs', 'the decoded tuple writes the identical text', w)
    # decoder 2: parse_from_string on an existing tuple (no stripping: judged on every value)
    ctx.count('tt:parse_from_string')
    try:
        v = cls(atype=typ, aval='\x00placeholder')
        v.parse_from_string(s)
        got = (v.get_type(), str(v.get_val()))
    except Exception as e:
        ctx.violation('C03/typedtuple-parse-raises', 'parse_from_string accepts the tuple\'s own text',
                      dict(w, exception=f'{type(e).__name__}: {e}'[:300]))
        return
    if got != (typ, sval):
        ctx.violation('C03/typedtuple-parse-differs', 'parse_from_string(t.get_as_string()) gives the same type and '
                      'str(value)', dict(w, decoded=short(list(got))))
        return
    # a text the decoder refuses (unknown type word / no separator) leaves the tuple what it was: its encoding still decodes
    ctx.count('tt:rejected-parse-leaves-value')
    for bad in ('no_such_type_word:' + sval, 'noseparator'):
        try:
            v.parse_from_string(bad)
            ctx.count('tt:bad-text-accepted')
            return
        except Exception:
            pass
        try:
            now = (v.get_type(), str(v.get_val()), v.get_as_string())
        except Exception as e:
            now = ('<raises>', f'{type(e).__name__}: {e}'[:200], None)
        if now != (typ, sval, s):
            ctx.violation('C03/typedtuple-changed-by-rejected-parse', 'a tuple keeps its value when parse_from_string refuses a text '
                          '(its encoding must still decode to an equal tuple)', dict(w, rejected_text=short(bad), now=short(list(now))))
            return


# ----------------------------------------------------------------------------------------------
def jf_classes():
    from fim.slivers import capacities_labels as CL
    return {c.__name__: c for c in _all_subclasses(CL.JSONField)}


def guard_cases(ctx):
    """Out-of-domain values: the monitors must skip them (counted), never judge them."""
    from fim.slivers.capacities_labels import Capacities
    F = G.fields_of(Capacities)
    neg = Capacities(**{F[0]: 1}) - Capacities(**{F[0]: 2, F[-1]: 3})     # legal arithmetic result, not decodable
    none = Capacities(**{F[0]: None, F[1]: 4})                             # constructor artefact
    for x in (neg, none):
        before = ctx.counters.get('mon-skip:to_json:JSONField', 0)
        x.to_json()
        if ctx.counters.get('mon-skip:to_json:JSONField', 0) != before + 1:
            ctx.mark_inconclusive('domain guard did not skip an out-of-domain Capacities value')


def sweep_one_jf(ctx, rng, name, x, pool):
    sweep_jsonfield(ctx, rng, x)
    other = rng.choice(pool) if pool else x
    sweep_update(ctx, rng, x, other)
    if name == 'Location':
        if any(is_zero_number(v) for v in x.__dict__.values()):
            ctx.count('location:zero-coordinate-cases')
    if name == 'Flags':
        vals = list(x.__dict__.values())
        if vals and all(v is False for v in vals):
            ctx.count('flags:all-false')
        if vals and all(v is True for v in vals):
            ctx.count('flags:all-true')


def run_edges(ctx):
    """Deterministic boundary values of every class."""
    rng = random.Random('C03-edges')
    classes = jf_classes()
    for name, cls in sorted(classes.items()):
        mk = G.EDGES.get(name)
        if mk is None:
            ctx.mark_inconclusive(f'JSONField subclass {name} has no value generator (new class?)')
            continue
        vals = mk()
        for x in vals:
            sweep_one_jf(ctx, rng, name, x, vals)
    for x in G.edges_tags():
        sweep_tags(ctx, rng, x)
    for cls in G._jsondata_classes():
        for x in G.edges_jsondata(cls):
            sweep_jsondata(ctx, rng, x)
    for x in G.edges_gateway():
        sweep_gateway(ctx, rng, x)
    for x in G.edges_pathinfo():
        sweep_path(ctx, rng, x)
    for how in FINALIZERS:
        for x in G.edges_maintenanceinfo():
            sweep_maint(ctx, rng, x, how)
    tt = G.typed_tuple_classes()
    for cls, types in tt.items():
        for typ in types:
            for v in G.TT_VALUES:
                sweep_typedtuple(ctx, rng, cls(atype=typ, aval=v))
    guard_cases(ctx)


def _run_workload(ctx):
    install()
    Sink.ctx = ctx
    rng = ctx.rng
    classes = jf_classes()
    ctx.info['jsonfield_classes'] = sorted(classes)
    ctx.info['fields'] = {n: G.fields_of(c) for n, c in sorted(classes.items())}
    ctx.info['jsondata_classes'] = sorted(c.__name__ for c in G._jsondata_classes())
    tt = G.typed_tuple_classes()
    ctx.info['typed_tuple_types'] = {c.__name__: t for c, t in tt.items()}
    for n in classes:
        if n not in G.GENERATORS:
            ctx.mark_inconclusive(f'JSONField subclass {n} has no value generator (new class?)')
    if ctx.shard == 0:
        run_edges(ctx)
    else:
        guard_cases(ctx)
    n = ctx.pick(400, 4000)
    jd = G._jsondata_classes()
    for i in range(n):
        for name in sorted(classes):
            gen = G.GENERATORS.get(name)
            if gen is None:
                continue
            x = gen(rng)
            sweep_one_jf(ctx, rng, name, x, [gen(rng)])
            if i < 1 and name in ('Labels', 'Location'):
                ctx.sample({'class': name, 'fields': short(set_fields(x)), 'text': short(x.to_json())})
        sweep_tags(ctx, rng, G.gen_tags(rng))
        for cls in jd:
            sweep_jsondata(ctx, rng, G.gen_jsondata(rng, cls))
        sweep_gateway(ctx, rng, G.gen_gateway(rng))
        sweep_path(ctx, rng, G.gen_pathinfo(rng))
        sweep_path(ctx, rng, G.gen_ero(rng))
        sweep_maint(ctx, rng, G.gen_maintenanceinfo(rng))
        for _ in range(3):
            sweep_typedtuple(ctx, rng, G.gen_typedtuple(rng, tt))
        if ctx.out_of_time():
            ctx.info['stopped_early_at_iteration'] = i
            break
    if G.ungenerated_fields():
        ctx.mark_inconclusive('no valid value could be generated for: ' + ', '.join(G.ungenerated_fields()))


def replay(ctx, case):
    """Re-run one recorded case: rebuild the value from the witness where possible, else the edge list."""
    install()
    Sink.ctx = ctx
    w = case.get('witness', {})
    rng = random.Random('C03-replay')
    kind = w.get('kind')
    classes = jf_classes()
    try:
        if kind == 'jsonfield' and w.get('class') in classes and not any('chars>' in str(v) for v in w['fields'].values()):
            sweep_jsonfield(ctx, rng, classes[w['class']](**w['fields']), do_fwd=False)
            return
        if kind == 'fwd-jsonfield' and w.get('class') in classes and 'chars>' not in w['text']:
            with quiet():
                res = judge_fwd_jsonfield(classes[w['class']], w['text'], w['mode'], w['unknown_key'], w['unknown_value'])
            if res is not None:
                ctx.violation(*res)
            return
        if kind == 'fwd-maintenance' and 'chars>' not in w['text']:
            from fim.slivers.maintenance_mode import MaintenanceInfo
            try:
                MaintenanceInfo.from_json(w['text'])
            except Exception as e:
                ctx.violation(case['key'], case.get('clause', ''), dict(w, exception=f'{type(e).__name__}: {e}'[:300]))
            return
    except Exception:
        pass
    run_edges(ctx)


LEVEL_TEXT = ('Runtime monitoring: icontract post-conditions on the real to_json of every codec class (decode(result) '
              'equal field-wise / absent iff nothing set, re-encode byte-identical, sorted keys), on JSONField.update '
              '(new object, argument snapshot unchanged, overlay), on JSONData.__init__ and on the maintenance mutators, '
              'evaluated on every call, plus a deterministic edge list and seeded random values per class, unknown-key '
              'injection at every key-driven level, finalized-record attacks and the typed tuples. Held on the '
              'executions observed.')
LEVEL_NOTE = ('Trusted: Python json/datetime, icontract wrappers, the harness generators and canonicaliser. Not covered: '
              'values outside the stated domain (skipped and counted), to_dict, mutation of a MaintenanceEntry reached '
              'through get()/list_details() of a finalized record, aliasing of list values between update()\'s argument '
              'and result, pickled objects of older versions.')
TECHNIQUE = 'runtime contract monitors (icontract) on the real codecs + generator-driven round-trip / injection workload'


def run(ctx):
    _run_workload(ctx)
    # thorough tier: the repository's own tests replayed under the monitors (one shard does it)
    if not ctx.quick and ctx.shard == 0:
        from vlib import pytest_monitors
        pytest_monitors.run_under_monitors(ctx, 'C03/')
