"""C11 - authorization and accounting attributes cover every resource, in any order.

Oracle: vlib/tally_ref.py computes the expected attributes / accounting counts from the generator's BUILD SCRIPT
(never from the graph).  Clauses
  (1) tally        attributes collected from the validated topology == tally (multisets; sets for the site lists),
      pdp          the PDP request JSON, parsed back, carries every attribute under its pinned category and datatype,
                   with exactly the collected values, each value of the JSON type the datatype demands;
  (2) order        the same slice rebuilt under k random creation orders (nodes, components, services, and random
                   interleavings of nodes and services) yields the same attribute mapping (as multisets);
  (3) serialized   collect(topology) == collect(ASM imported from topology.serialize());
  (4) accounting   LogCollector (from the topology and from the serialized model) == direct tally.
"""
import json
import re

from vlib import rawgraph, tally_ref as T, topogen

PROPERTY = 'C11'
LEVEL = 'exploration'
SHARDS = {'quick': 4, 'thorough': 16}
TIME_BUDGET = {"quick": 110, 'thorough': 780}
MIRROR_KEY = 'C11/mirror-exemption-removes-other-services-site'
RULE = ('random valid slices: 1-5 nodes (VM/Server/Container/NAS, with/without/partial capacities) over 1-3 sites, 0-4 components '
        'per node over every component model discovered at run time, 0-2 switches, 0-2 facilities (also at sites no node uses), '
        '0-3 ordinary services (L2Bridge/L2STS/L2PTP/L2Multisite/FABNetv4/FABNetv6/L3VPN, with/without bandwidth, with/without '
        'explicit site), 0-3 FABNetv4Ext/FABNetv6Ext services, 0-4 PortMirror services whose mirrored port name is / is not a local '
        'name carried by a service-side peer port of the slice (several per site, inside and outside mixed, colliding names across '
        'sites); every slice is built once in script order and again under k random creation orders; a case is one slice (distinct '
        'by its build script), non-trivial when it has at least one component, service, switch or facility')
REQUIRED = ['slices', 'builds', 'clause:tally', 'clause:pdp', 'clause:order', 'clause:serialized', 'clause:accounting',
            'clause:accounting-serialized', 'shape:mirror-inside', 'shape:mirror-outside', 'shape:mirror-inside+outside-same-site',
            'shape:ext-v4', 'shape:ext-v6', 'shape:several-ext-per-site', 'shape:special-service-type-at-two-sites', 'shape:facility', 'shape:switch', 'shape:service-bw',
            'shape:service-explicit-site', 'shape:node-without-capacities', 'shape:multi-site', 'shape:same-component-type-twice',
            'shape:facility-at-unused-site', 'shape:non-vm-node', 'all-component-models-used']
ASSUMPTIONS = ['slices are valid (validate() passes) and collection happens after validate(), as the statement says; collection '
               'before validate() (UNKNOWN-SITE path) is outside the claim',
               '"inside the slice" is the code\'s own definition: the mirrored port name equals labels.local_name of the service-side '
               'peer of an interface of a non-facility node; labels are never put on peers of facility interfaces or sub-interfaces',
               'sites are compared as sets (a duplicate in a site list is not counted as a violation); resource-type is not part of '
               'the tally (the statement does not mention it) but takes part in the order / serialized comparisons',
               'cores are tallied over VM nodes (LogCollector documents its node list as VM capacities); capacity_allocations are '
               'never set',
               'held on the executions observed, not a proof']

SITES = ['RENC', 'UKY', 'LBNL', 'STAR', 'TACC']
PORT_NAMES = ['HundredGigE0/0/0/1', 'HundredGigE0/0/0/2', 'TenGigE0/0/0/3', 'p1', 'p2', 'Bundle-Ether7']
OUTSIDE_NAMES = ['HundredGigE0/0/0/9', 'FortyGigE0/0/0/4', 'uplink-77']
PLAIN_TYPES = ['L2Bridge', 'L2Bridge', 'L2STS', 'L2PTP', 'L2Multisite', 'FABNetv4', 'FABNetv6', 'L3VPN']


# ------------------------------------------------------------------------------------------------ vocabulary
def discover(ctx=None):
    """Component models (type string, port names, built-in services), built-ins of switch and facility - from a scratch
    topology, and the attribute ids of the collector class."""
    from fim.user.topology import ExperimentTopology
    from fim.user import ComponentModelType, ComponentType, Capacities
    from fim.authz.attribute_collector import ResourceAuthZAttributes as R
    imp = rawgraph.importers()['shared'][0]
    imp.delete_all_graphs()
    t = ExperimentTopology(importer=imp)
    n = t.add_node(name='scratch', site='RENC')
    models, problems = {}, []
    ctypes = {str(x) for x in ComponentType}
    for m in ComponentModelType:
        c = n.add_component(name='XX', model_type=m)
        pref = m.name.split('_')[0]
        if pref not in ctypes:
            problems.append(f'component model {m.name}: no component type named {pref}')
        models[m.name] = {'type': pref,
                          'ports': [[i.name[len('XX-'):], str(i.type)] for i in c.interface_list],
                          'builtin': sorted(str(s.type) for s in c.network_services.values())}
        n.remove_component('XX')
    sw = t.add_switch(name='scratchsw', site='RENC', nports=1)
    fac = t.add_facility(name='scratchfac', site='RENC', capacities=Capacities(bw=1))
    vocab = {'models': models,
             'switch_builtin': sorted(str(s.type) for s in sw.network_services.values()),
             'facility_builtin': sorted(str(s.type) for s in fac.network_services.values())}
    imp.delete_all_graphs()
    ids = {}
    for short, const in T.ATTR_CONST.items():
        v = getattr(R, const, None)
        if v is None:
            problems.append(f'ResourceAuthZAttributes.{const} is gone')
        ids[short] = v
    ids['type'] = R.RESOURCE_TYPE
    # a resource attribute this check knows nothing about would silently shrink the claim
    known = set(T.ATTR_CONST.values()) | {'RESOURCE_TYPE', 'RESOURCE_MEASUREMENTS', 'RESOURCE_LIFETIME', 'RESOURCE_PROJECT',
                                          'RESOURCE_SUBJECT'}
    for a in dir(R):
        if a.startswith('RESOURCE_') and a not in known:
            problems.append(f'new attribute constant {a} is not covered by the tally')
    return vocab, ids, problems


# ------------------------------------------------------------------------------------------------ generator
def gen_script(rng, vocab, force_model=None):
    models = sorted(vocab['models'])
    nic = [m for m in models if vocab['models'][m]['ports']]
    used_sites = rng.sample(SITES[:4], rng.choice([1, 2, 2, 2, 3]))
    mode = rng.choice(['mirror', 'mirror', 'ext', 'ext', 'mixed', 'mixed', 'plain'])
    nodes, ports = [], []          # ports: (ref, owner, site, itype)
    nn = rng.choice([1, 2, 2, 3, 3, 4, 5])
    for i in range(nn):
        site = used_sites[i] if i < len(used_sites) else rng.choice(used_sites)
        ntype = rng.choice(['VM'] * 7 + ['Server', 'Container', 'NAS'])
        m = rng.random()
        if m < 0.75:
            caps = {'core': rng.choice([1, 2, 2, 4, 32]), 'ram': rng.choice([2, 8, 8, 64]), 'disk': rng.choice([10, 10, 100, 500])}
        elif m < 0.85:
            caps = {'core': rng.choice([1, 2, 4])} if rng.random() < 0.5 else {'core': 2, 'ram': 8}
        else:
            caps = None
        comps = []
        if ntype != 'NAS':
            for j in range(rng.choice([0, 1, 1, 2, 2, 3, 4] if nn < 4 else [0, 1, 1, 2])):
                model = rng.choice(nic) if rng.random() < (0.85 if j == 0 else 0.5) else rng.choice(models)
                if force_model and i == 0 and j == 0:
                    model = force_model
                cn = f'n{i}c{j}'
                comps.append({'name': cn, 'model': model})
                for suffix, itype in vocab['models'][model]['ports']:
                    ports.append(([f'n{i}', f'{cn}-{suffix}'], f'n{i}', site, itype))
            if force_model and i == 0 and not comps:
                comps.append({'name': 'n0c0', 'model': force_model})
                for suffix, itype in vocab['models'][force_model]['ports']:
                    ports.append((['n0', f'n0c0-{suffix}'], 'n0', site, itype))
        nodes.append({'kind': 'node', 'name': f'n{i}', 'site': site, 'ntype': ntype, 'capacities': caps, 'components': comps})
    for i in range(rng.choice([0, 0, 0, 1, 1, 2])):
        site = rng.choice(used_sites)
        np_ = rng.randint(1, 4)
        nodes.append({'kind': 'switch', 'name': f'sw{i}', 'site': site, 'nports': np_})
        for p in range(1, np_ + 1):
            ports.append(([f'sw{i}', f'p{p}'], f'sw{i}', site, 'DedicatedPort'))
    for i in range(rng.choice([0, 0, 0, 1, 1, 2])):
        site = rng.choice(used_sites) if rng.random() < 0.6 else rng.choice([s for s in SITES if s not in used_sites])
        ifn = None if rng.random() < 0.6 else [f'fac{i}-if{k}' for k in range(rng.randint(1, 3))]
        nodes.append({'kind': 'facility', 'name': f'fac{i}', 'site': site, 'bw': rng.choice([1, 10, 100]), 'ifnames': ifn})
        for nm in (ifn or [f'fac{i}-int']):
            ports.append(([f'fac{i}', nm], f'fac{i}', site, 'FacilityPort'))
    rng.shuffle(ports)
    free = list(ports)
    kinds = {n['name']: n['kind'] for n in nodes}

    def take(pred, k):
        got = [p for p in free if pred(p)][:k]
        for p in got:
            free.remove(p)
        return got

    services = []
    sid = [0]

    def name(prefix):
        sid[0] += 1
        return f'{prefix}{sid[0]}'

    def maybe_bw():
        return rng.choice([1, 10, 10, 25, 100]) if rng.random() < 0.5 else None

    # ordinary services
    for _ in range({'plain': rng.choice([1, 2, 3]), 'mixed': rng.choice([0, 1, 2]), 'ext': rng.choice([0, 1]),
                    'mirror': rng.choice([0, 1, 1, 2])}[mode]):
        st = rng.choice(PLAIN_TYPES)
        site = rng.choice(used_sites)
        got, explicit = [], None
        if st in ('L2Bridge', 'FABNetv4', 'FABNetv6'):
            got = take(lambda p: p[2] == site, rng.randint(1, 3))
            if got and rng.random() < 0.3:
                explicit = site
        elif st == 'L2STS':
            got = take(lambda p: True, 2)
            if len(got) < 2:
                free.extend(got)
                got = []
            elif len({p[2] for p in got}) == 1 and rng.random() < 0.3:
                explicit = got[0][2]
        elif st == 'L2PTP':
            got = take(lambda p: p[3] in ('DedicatedPort', 'FacilityPort'), 2)
            if len(got) < 2:
                free.extend(got)
                got = []
        else:   # L2Multisite, L3VPN: no limit on sites, an explicit site is accepted whatever the interfaces
            got = take(lambda p: True, rng.randint(1, 3))
            if got and rng.random() < 0.4:
                explicit = rng.choice(SITES)
        if not got:
            continue
        services.append({'name': name('svc'), 'nstype': st, 'interfaces': [p[0] for p in got], 'bw': maybe_bw(), 'site': explicit,
                         'peer_labels': {}})
    # externally routed services, several per site
    ext_bias, ext_n = rng.choice(['FABNetv4Ext', 'FABNetv6Ext']), [rng.randrange(3)]
    for _ in range({'plain': 0, 'mixed': rng.choice([0, 1, 2, 2]), 'ext': rng.choice([2, 2, 3, 3]), 'mirror': rng.choice([0, 0, 1])}[mode]):
        # mostly the same type again, at the next site: one attribute has to list several sites
        st = ext_bias if rng.random() < 0.7 else rng.choice(['FABNetv4Ext', 'FABNetv6Ext'])
        site = used_sites[ext_n[0] % len(used_sites)] if rng.random() < 0.6 else rng.choice(used_sites)
        ext_n[0] += 1
        got = take(lambda p: p[2] == site and kinds[p[1]] != 'facility', rng.choice([1, 1, 2]))
        if not got:
            continue
        services.append({'name': name('ext'), 'nstype': st, 'interfaces': [p[0] for p in got], 'bw': maybe_bw(),
                         'site': site if rng.random() < 0.25 else None, 'peer_labels': {}})
    # labels on service-side peers (what the orchestrator records: the dataplane port a node port lands on)
    assigned = []
    for s in services:
        for idx, ref in enumerate(s['interfaces']):
            if kinds[ref[0]] == 'facility':
                continue
            m = rng.random()
            if m < 0.55:
                nm = rng.choice(PORT_NAMES)
                s['peer_labels'][str(idx)] = {'local_name': nm}
                assigned.append(nm)
            elif m < 0.65:
                s['peer_labels'][str(idx)] = {'vlan': str(rng.randint(100, 200))}
    # port mirrors: the first decides a site, the following prefer the same site with the opposite in/out choice
    nm_ = {'plain': 0, 'mixed': rng.choice([0, 1, 2]), 'ext': rng.choice([0, 0, 1]), 'mirror': rng.choice([2, 2, 3, 4])}[mode]
    last_site, last_inside = None, None
    for _ in range(nm_):
        pref = last_site if (last_site and rng.random() < 0.55) else rng.choice(used_sites)
        got = take(lambda p: p[2] == pref and kinds[p[1]] != 'facility', 1) or take(lambda p: kinds[p[1]] != 'facility', 1)
        if not got:
            break
        want_inside = (not last_inside) if (last_inside is not None and got[0][2] == last_site and rng.random() < 0.8) \
            else rng.random() < 0.5
        s = {'name': name('pm'), 'nstype': 'PortMirror', 'interfaces': [got[0][0]], 'bw': maybe_bw() if rng.random() < 0.3 else None,
             'site': got[0][2] if rng.random() < 0.15 else None, 'peer_labels': {}}
        if rng.random() < 0.3:     # the mirror's own service port may carry a name as well
            nm = rng.choice(PORT_NAMES)
            s['peer_labels']['0'] = {'local_name': nm}
            assigned.append(nm)
        if want_inside and assigned:
            s['from'] = rng.choice(assigned)
        else:
            s['from'] = rng.choice(OUTSIDE_NAMES + PORT_NAMES)
        services.append(s)
        last_site, last_inside = got[0][2], s['from'] in assigned
    return {'store': rng.choice(['shared', 'shared', 'disjoint']), 'nodes': nodes, 'services': services}


def script_order(script):
    return [['node', n['name']] for n in script['nodes']] + [['service', s['name']] for s in script['services']]


def random_order(rng, script):
    """A random creation order: nodes permuted, services permuted, and (half of the time) a random interleaving in which a
    service comes after the nodes it touches.  Also returns the per-node component order seed."""
    nodes = [n['name'] for n in script['nodes']]
    svcs = [s['name'] for s in script['services']]
    rng.shuffle(nodes)
    rng.shuffle(svcs)
    if rng.random() < 0.5:
        return [['node', n] for n in nodes] + [['service', s] for s in svcs]
    need = {s['name']: {r[0] for r in s['interfaces']} for s in script['services']}
    out, done, pending_n, pending_s = [], set(), list(nodes), list(svcs)
    while pending_n or pending_s:
        ready = [s for s in pending_s if need[s] <= done]
        if ready and (not pending_n or rng.random() < 0.5):
            s = ready[0]
            pending_s.remove(s)
            out.append(['service', s])
        elif pending_n:
            n = pending_n.pop(0)
            done.add(n)
            out.append(['node', n])
    return out


# ------------------------------------------------------------------------------------------------ building
def build(script, order, comp_rev=False):
    """Create the slice through the public API in the given creation order, validate it, return the topology."""
    from fim.user import Labels
    imp = rawgraph.importers()[script.get('store', 'shared')][0]
    topo = topogen.new_topology(imp)
    nodes = {n['name']: n for n in script['nodes']}
    svcs = {s['name']: s for s in script['services']}
    for kind, nm in order:
        if kind == 'node':
            n = nodes[nm]
            if n['kind'] == 'node':
                kw = {'capacities': n['capacities']} if n['capacities'] else {}
                topogen.execute(topo, {'op': 'add_node', 'name': nm, 'site': n['site'], 'ntype': n['ntype'], 'kw': kw})
                comps = list(reversed(n['components'])) if comp_rev else n['components']
                for c in comps:
                    topogen.execute(topo, {'op': 'add_component', 'node': nm, 'name': c['name'], 'model_type': c['model']})
            elif n['kind'] == 'switch':
                topogen.execute(topo, {'op': 'add_switch', 'name': nm, 'site': n['site'], 'nports': n['nports']})
            else:
                op = {'op': 'add_facility', 'name': nm, 'site': n['site']}
                if n['ifnames']:
                    op['interfaces'] = [[x, {'vlan_range': '100-200'}, {'bw': n['bw']}] for x in n['ifnames']]
                else:
                    op['kw'] = {'capacities': {'bw': n['bw']}}
                topogen.execute(topo, op)
        else:
            s = svcs[nm]
            kw = {}
            if s.get('bw') is not None:
                kw['capacities'] = {'bw': s['bw']}
            if s.get('site'):
                kw['site'] = s['site']
            if s['nstype'] == 'PortMirror':
                topogen.execute(topo, {'op': 'add_port_mirror_service', 'name': nm, 'from': s['from'], 'to': s['interfaces'][0], 'kw': kw})
            else:
                topogen.execute(topo, {'op': 'add_network_service', 'name': nm, 'nstype': s['nstype'], 'interfaces': s['interfaces'],
                                       'kw': kw})
            for idx, lab in (s.get('peer_labels') or {}).items():
                peer = topogen.get_iface(topo, s['interfaces'][int(idx)]).get_peers()[0]
                peer.set_properties(labels=Labels(**lab))
    topo.validate()
    return topo


# ------------------------------------------------------------------------------------------------ observation
def observe_authz(source):
    """(mapping attribute id -> list, parsed PDP request) of a fresh collector fed with `source`."""
    from fim.authz.attribute_collector import ResourceAuthZAttributes
    az = ResourceAuthZAttributes()
    az.collect_resource_attributes(source=source)
    az.set_action('create')
    az.set_subject_attributes(subject_id='user@example.org', project=['P1'], project_tag=['Tag1', 'Tag2'])
    az.set_resource_subject_and_project(subject_id='user@example.org', project='P1')
    attrs = {k: list(v) for k, v in az.attributes.items()}       # iteration does not touch the defaultdict
    req = json.loads(az.transform_to_pdp_request())
    req2 = az.transform_to_pdp_request(as_json=False)
    return attrs, req, req2


def observe_log(source):
    from fim.logging.log_collector import LogCollector
    lc = LogCollector()
    lc.collect_resource_attributes(source=source)
    a = lc.attributes
    obs = {'vm_count': a['vm_count'], 'core_count': a['core_count'], 'p4_count': a['p4_count'],
           'nodes': sorted([c.core, c.ram, c.disk] for c in a['nodes']),
           'components': dict(sorted((str(k), v) for k, v in a['components'].items())),
           'services': sorted([str(t), b] for t, b in a['services']),
           'facilities': sorted(a['facilities']), 'sites': sorted(a['sites'])}
    return obs, str(lc)


def norm(attrs):
    """Attribute mapping as multisets, empty lists dropped (an attribute without values names nothing)."""
    return {k: sorted(v, key=repr) for k, v in attrs.items() if v}


def asm_of(topo):
    from fim.graph.slices.networkx_asm import NetworkXASMFactory
    imp = rawgraph.importers()['shared'][0]
    g = imp.import_graph_from_string(graph_string=topo.serialize())
    return NetworkXASMFactory.create(g)


# ------------------------------------------------------------------------------------------------ judging
JSON_TYPE = {'integer': lambda v: isinstance(v, int) and not isinstance(v, bool), 'string': lambda v: isinstance(v, str)}
SUBJECT_ACTION_PIN = {'ACTION_ID': 'attribute-category:action', 'SUBJECT_ID': 'subject-category:access-subject',
                      'SUBJECT_PROJECT': 'subject-category:access-subject', 'PROJECT_TAG': 'subject-category:access-subject',
                      'RESOURCE_SUBJECT': 'attribute-category:resource', 'RESOURCE_PROJECT': 'attribute-category:resource'}


class Lazy:
    """The stored order of the services is only needed to attribute a mismatch (listing them is expensive)."""

    def __init__(self, f):
        self.f, self.v = f, None

    def __call__(self):
        if self.v is None:
            self.v = self.f()
        return self.v


def judge_tally(ctx, script, vocab, ids, attrs, stored, wit):
    exp = T.authz(script, vocab)
    ctx.count('clause:tally')
    known_ids = set(ids.values())
    from fim.authz.attribute_collector import ResourceAuthZAttributes as R
    ok = True
    for short, aid in ids.items():
        if short == 'type':
            continue
        obs = attrs.get(aid, [])
        e = exp[short]
        if short in T.SET_ATTRS:
            same = set(obs) == set(e) and all(isinstance(x, str) for x in obs)
        else:
            same = sorted(obs, key=repr) == sorted(e, key=repr)
        if same:
            continue
        ok = False
        w = dict(wit, attribute=aid, expected=e, observed=obs)
        if short == 'mirrorsite' and sorted(set(obs)) == T.pop_simulation(script, stored()):
            ctx.violation(MIRROR_KEY, 'the mirror-site attribute names the site of every PortMirror service whose mirrored port is '
                          'outside the slice (an in-slice mirror removed the site another service had put on the list)',
                          dict(w, stored_service_order=stored()))
            continue
        missing = [x for x in e if e.count(x) > obs.count(x)] if short not in T.SET_ATTRS else sorted(set(e) - set(obs), key=repr)
        kind = 'missing' if missing else 'extra'
        ctx.violation(f'C11/{kind}:{short}', f'attribute {short} equals the tally of the slice ({kind} value)', w)
    for aid in attrs:
        if aid not in known_ids and attrs[aid] and aid not in (R.ACTION_ID, R.SUBJECT_ID, R.SUBJECT_PROJECT, R.PROJECT_TAG,
                                                                R.RESOURCE_SUBJECT, R.RESOURCE_PROJECT):
            ok = False
            ctx.violation('C11/unexpected-attribute', 'only attributes of the slice are collected', dict(wit, attribute=aid,
                                                                                                       observed=attrs[aid]))
    return ok


def judge_pdp(ctx, ids, attrs, req, req2, wit):
    """The request parsed back carries every collected attribute, once, under the pinned category and datatype."""
    ctx.count('clause:pdp')
    from fim.authz.attribute_collector import ResourceAuthZAttributes as R
    found = {}
    try:
        for cat in req['Request']['Category']:
            for a in cat['Attribute']:
                found.setdefault(a['AttributeId'], []).append((cat['CategoryId'], a['DataType'], a['Value']))
    except Exception as e:
        ctx.violation('C11/pdp-request-malformed', f'the PDP request has the Request/Category/Attribute structure ({type(e).__name__})',
                      dict(wit, request=req))
        return
    if req != json.loads(json.dumps(req2)):
        ctx.violation('C11/pdp-json-differs-from-dict', 'as_json=True and as_json=False describe the same request', wit)
    short_of = {v: k for k, v in ids.items()}
    pins = {aid: T.PDP_PIN[short_of[aid]] for aid in attrs if aid in short_of and short_of[aid] in T.PDP_PIN}
    pins[R.RESOURCE_TYPE] = ('string', 'attribute-category:resource')
    for const, cat in SUBJECT_ACTION_PIN.items():
        pins[getattr(R, const)] = ('string', cat)
    for aid, vals in attrs.items():
        short = short_of.get(aid, aid.rsplit(':', 1)[-1])
        got = found.get(aid, [])
        w = dict(wit, attribute=aid, collected=vals, in_request=got)
        if len(got) != 1:
            ctx.violation(f'C11/pdp-attribute-{"missing" if not got else "repeated"}:{short}',
                          'every collected attribute appears exactly once in the PDP request', w)
            continue
        cat, dt, val = got[0]
        if aid in pins:
            pdt, pcat = pins[aid]
            if not cat.endswith(pcat):
                ctx.violation(f'C11/pdp-wrong-category:{short}', 'the attribute sits under its declared category', w)
            if not dt.endswith('#' + pdt):
                ctx.violation(f'C11/pdp-wrong-datatype:{short}', 'the attribute carries its declared datatype', w)
            elif isinstance(val, list) and not all(JSON_TYPE[pdt](x) for x in val):
                ctx.violation(f'C11/pdp-value-type:{short}', 'every value has the JSON type of the declared datatype', w)
        if not isinstance(val, list) or sorted(val, key=repr) != sorted(vals, key=repr):
            ctx.violation(f'C11/pdp-values-differ:{short}', 'the request carries exactly the collected values (as a multiset)', w)
    for aid in found:
        if aid not in attrs:
            ctx.violation('C11/pdp-attribute-not-collected', 'the request carries only collected attributes',
                          dict(wit, attribute=aid, in_request=found[aid]))


def diff_keys(a, b):
    return sorted(k for k in set(a) | set(b) if a.get(k) != b.get(k))


def explained_by_pop(script, vocab, ids, observed, stored):
    """True when the observed mirror-site list is what the pop() mechanism yields for that stored order and differs from the tally."""
    sim = T.pop_simulation(script, stored)
    return sorted(set(observed)) == sim and sim != T.authz(script, vocab)['mirrorsite']


def some_order_explains(script, vocab, observed):
    """The stored order inside the collector's own reloaded topology cannot be read: is there an order of the mirror services
    for which the pop() mechanism yields the observed (wrong) list?"""
    import itertools
    names = [s['name'] for s in script['services'] if s['nstype'] == 'PortMirror']
    exp = T.authz(script, vocab)['mirrorsite']
    if len(names) > 6 or sorted(set(observed)) == exp:
        return False
    return any(T.pop_simulation(script, list(p)) == sorted(set(observed)) for p in itertools.permutations(names))


def judge_accounting(ctx, script, vocab, obs, text, wit, source):
    exp = T.accounting(script, vocab)
    ctx.count('clause:accounting' if source == 'topology' else 'clause:accounting-serialized')
    for f in exp:
        if obs[f] != exp[f]:
            ctx.violation(f'C11/accounting-{f}-wrong', f'LogCollector {f} equals the direct tally of the slice',
                          dict(wit, source=source, field=f, expected=exp[f], observed=obs[f]))
    # the log line itself
    m = re.search(r'compute vms:(\d+),cores:(\d+),p4s:(\d+)', text)
    trip = [int(x) for x in m.groups()] if m else None
    if trip != [exp['vm_count'], exp['core_count'], exp['p4_count']]:
        ctx.violation('C11/accounting-logline-compute-wrong', 'the log line reports vms/cores/p4s of the tally',
                      dict(wit, source=source, expected=[exp['vm_count'], exp['core_count'], exp['p4_count']], logline=text))
    cm = re.search(r' components ([^;]*)', text)
    got = sorted(cm.group(1).split(',')) if cm else []
    if got != sorted(f'{k}:{v}' for k, v in exp['components'].items()):
        ctx.violation('C11/accounting-logline-components-wrong', 'the log line reports the component counts of the tally',
                      dict(wit, source=source, expected=exp['components'], logline=text))


def shapes(ctx, script, vocab):
    inside = T.in_slice_ports(script)
    mir = [(T.service_site(script, s), s['from'] in inside) for s in script['services'] if s['nstype'] == 'PortMirror']
    if any(i for _, i in mir):
        ctx.count('shape:mirror-inside')
    if any(not i for _, i in mir):
        ctx.count('shape:mirror-outside')
    if any((st, True) in mir and (st, False) in mir for st, _ in mir):
        ctx.count('shape:mirror-inside+outside-same-site')
    ext = [(s['nstype'], T.service_site(script, s)) for s in script['services'] if s['nstype'] in T.EXT_TYPES]
    if any(t == 'FABNetv4Ext' for t, _ in ext):
        ctx.count('shape:ext-v4')
    if any(t == 'FABNetv6Ext' for t, _ in ext):
        ctx.count('shape:ext-v6')
    if len(ext) != len(set(ext)) or len({st for _, st in ext}) < len(ext):
        ctx.count('shape:several-ext-per-site')
    special = {}
    for t, st in ext + [('PortMirror', st) for st, i in mir if not i]:
        special.setdefault(t, set()).add(st)
    if any(len(v) > 1 for v in special.values()):
        ctx.count('shape:special-service-type-at-two-sites')
    kinds = [n['kind'] for n in script['nodes']]
    if 'facility' in kinds:
        ctx.count('shape:facility')
    if 'switch' in kinds:
        ctx.count('shape:switch')
    nsites = {n['site'] for n in script['nodes'] if n['kind'] != 'facility'}
    if any(n['kind'] == 'facility' and n['site'] not in nsites for n in script['nodes']):
        ctx.count('shape:facility-at-unused-site')
    if len(nsites) > 1:
        ctx.count('shape:multi-site')
    if any(s.get('bw') is not None for s in script['services']):
        ctx.count('shape:service-bw')
    if any(s.get('site') for s in script['services']):
        ctx.count('shape:service-explicit-site')
    if any(n['kind'] == 'node' and not n['capacities'] for n in script['nodes']):
        ctx.count('shape:node-without-capacities')
    if any(n['kind'] == 'node' and n['ntype'] != 'VM' for n in script['nodes']):
        ctx.count('shape:non-vm-node')
    types = [vocab['models'][c['model']]['type'] for n in script['nodes'] if n['kind'] == 'node' for c in n['components']]
    if len(types) != len(set(types)):
        ctx.count('shape:same-component-type-twice')
    for n in script['nodes']:
        if n['kind'] == 'node':
            for c in n['components']:
                ctx.count('model:' + c['model'])
    for s in script['services']:
        ctx.count('service:' + s['nstype'])


def one_case(ctx, script, orders, vocab, ids, count_shapes=True):
    """Build the slice in script order (judged on all four clauses) and in every order of `orders` (clauses 1, 2, 4)."""
    imps = rawgraph.importers()
    wit0 = {'script': script, 'orders': orders}
    base = None
    if count_shapes:
        shapes(ctx, script, vocab)
    for k, order in enumerate([script_order(script)] + list(orders)):
        for i in imps.values():
            i[0].delete_all_graphs()
        topogen.seed_uuid(f'c11/{k}')
        wit = dict(wit0, failing_order=order, order_index=k)
        try:
            topo = build(script, order, comp_rev=(k % 2 == 1))
        except Exception as e:
            # the generator promises valid slices: a build that fails is a harness problem, never a verdict
            ctx.count('build-failed')
            ctx.info.setdefault('build_failures', [])
            if len(ctx.info['build_failures']) < 5:
                ctx.info['build_failures'].append(f'{type(e).__name__}: {str(e)[:160]}')
            if k == 0:
                return False
            continue
        ctx.count('builds')
        stored = Lazy(lambda topo=topo: list(topo.network_services.keys()))
        if k == 0 and any(s['nstype'] == 'PortMirror' for s in script['services']):
            stored()        # the first topology is gone when a later order is compared with it
        try:
            attrs, req, req2 = observe_authz(topo)
        except Exception as e:
            ctx.violation('C11/collect-raises', f'collecting from a validated topology raised {type(e).__name__}: {str(e)[:120]}', wit)
            continue
        judge_tally(ctx, script, vocab, ids, attrs, stored, wit)
        judge_pdp(ctx, ids, attrs, req, req2, wit)
        if k < 2 or not ctx.quick:
            try:
                obs, text = observe_log(topo)
                judge_accounting(ctx, script, vocab, obs, text, wit, 'topology')
            except Exception as e:
                ctx.violation('C11/accounting-raises', f'LogCollector raised {type(e).__name__}: {str(e)[:120]}', wit)
        cur = norm(attrs)
        if k == 0:
            base = (cur, stored)
            # clause 3: the serialized model
            try:
                asm = asm_of(topo)
                a2, _, _ = observe_authz(asm)
                ctx.count('clause:serialized')
                for aid in diff_keys(cur, norm(a2)):
                    short = aid.rsplit(':', 1)[-1]
                    key = f'C11/topology-vs-serialized:{short}'
                    if aid == ids['mirrorsite'] and (some_order_explains(script, vocab, norm(a2).get(aid, [])) or
                                                     some_order_explains(script, vocab, cur.get(aid, []))):
                        key = MIRROR_KEY        # the reloaded model stores the services in another order
                    ctx.violation(key, 'collecting from the topology and from its serialized model gives the same attributes',
                                  dict(wit, attribute=aid, from_topology=cur.get(aid), from_serialized=norm(a2).get(aid)))
                obs2, text2 = observe_log(asm)
                judge_accounting(ctx, script, vocab, obs2, text2, wit, 'serialized')
            except Exception as e:
                ctx.violation('C11/serialized-collect-raises',
                              f'collecting from the serialized model raised {type(e).__name__}: {str(e)[:120]}', wit)
        else:
            ctx.count('clause:order')
            for aid in diff_keys(base[0], cur):
                short = aid.rsplit(':', 1)[-1]
                w = dict(wit, attribute=aid, first_order=base[0].get(aid), this_order=cur.get(aid),
                         stored_first=base[1](), stored_this=stored())
                if aid == ids['mirrorsite'] and (explained_by_pop(script, vocab, ids, base[0].get(aid, []), base[1]()) or
                                                 explained_by_pop(script, vocab, ids, cur.get(aid, []), stored())):
                    ctx.violation(MIRROR_KEY, 'two creation orders of the same slice give the same mirror-site attribute', w)
                else:
                    ctx.violation(f'C11/order-dependent:{short}', 'two creation orders of the same slice give the same attributes', w)
    for i in imps.values():
        i[0].delete_all_graphs()
    return True


def nontrivial(script):
    return bool(script['services']) or any(n['kind'] != 'node' or n['components'] for n in script['nodes'])


def run(ctx):
    vocab, ids, problems = discover(ctx)
    for p in problems:
        ctx.mark_inconclusive('vocabulary: ' + p)
    ctx.info['component_models'] = sorted(vocab['models'])
    ctx.info['attribute_ids'] = sorted(v for v in ids.values() if v)
    if problems:
        return
    rng = ctx.rng
    n = ctx.pick(25, 200)
    k = ctx.pick(4, 8)
    models = sorted(vocab['models'])
    for i in range(n):
        script = gen_script(rng, vocab, force_model=models[(i + ctx.shard) % len(models)] if i < 2 * len(models) else None)
        orders = [random_order(rng, script) for _ in range(k)]
        ctx.seen(script, nontrivial(script))
        if one_case(ctx, script, orders, vocab, ids):
            ctx.count('slices')
        if i < 2:
            ctx.sample({'script': script, 'first_order': orders[0]})
        if ctx.out_of_time():
            break
    used = {c[len('model:'):] for c in ctx.counters if c.startswith('model:')}
    if used >= set(models):
        ctx.count('all-component-models-used')


def replay(ctx, case):
    vocab, ids, problems = discover(ctx)
    w = case['witness']
    one_case(ctx, w['script'], w.get('orders') or [], vocab, ids, count_shapes=False)


LEVEL_TEXT = ('Runtime monitoring with a reference model: every generated slice is built through the public API, validated, and '
              'the real ResourceAuthZAttributes / LogCollector outputs are compared with a tally computed from the build script '
              '(multisets; sets for site lists), the PDP request is parsed back and checked against a pinned category/datatype per '
              'attribute, the slice is rebuilt under 4 (quick) / 8 (thorough) random creation orders and - in thorough - under 16 '
              'different PYTHONHASHSEEDs, and collection from the serialized model is compared with collection from the topology. '
              'Held on the executions observed.')
LEVEL_NOTE = ('Trusted: the harness generator and reference tally (vlib/tally_ref.py), the component catalogue read from a scratch '
              'topology (type string by model-name prefix, ports, built-in services). Not covered: collection before validate(), '
              'single slivers / single nodes as sources, TopologyDiff accounting, capacity_allocations, sub-interfaces, labels on '
              'peers of facility ports, lifetime formatting.')
TECHNIQUE = 'reference-model differential testing (independent tally from the build script) + metamorphic creation-order permutations'
