"""C16 - label, tag, name and data validation holds on every construction path.

Runtime monitoring of the real validators: a grammar-based generator produces members and one-edit
near-misses of every documented format; each candidate is pushed through EVERY entry point (constructor,
Labels.update, from_json (class / instance / forgiving), Delegation.set_details, Delegations.from_json,
model-element update_labels / set_property / set_properties / attribute assignment / add_node(**kw),
scalar and list form with the bad element at every list position; Tags positional / list / tuple / mixed /
from_json / element; set_name of every sliver class and add_node / add_component / add_network_service /
add_interface / add_link / add_child_interface / rename; boot script and JSON blobs through class, sliver
and element setters).  The accept/reject outcome is compared with the hand-written three-valued recognisers of
vlib/recognisers.py (no `re`, nothing taken from the library); after acceptance the stored value must equal
the input and encode -> decode must accept it again and give the same value.
"""
import json

from vlib import recognisers as R
from vlib.recognisers import IN, OUT, UNSPEC

PROPERTY = 'C16'
LEVEL = 'exploration'
SHARDS = {'quick': 4, 'thorough': 16}
TIME_BUDGET = {'quick': 150, 'thorough': 700}
TECHNIQUE = ('runtime monitoring of the real validators at every entry point against independent hand-written '
             'three-valued recognisers (differential accept/reject + stored-value + re-encode oracles), '
             'grammar-based member / one-edit near-miss workload')
RULE = ('per labels field (discovered from a fresh Labels()), tags, each sliver class name, boot script and each '
        'JSONData class: documented boundary strings + random members of the format + one-edit near-misses '
        '(append/embed/prepend newline, blanks, trailing junk, deleted/doubled/replaced character, wrong or doubled '
        'separator, group added/dropped, hex digit -> g, digits of another script, case swap, empty, lengths '
        'limit-1/limit/limit+1); every candidate goes through every entry point in scalar form and in list form '
        'at first/middle/last/only position. A case = (family, field, entry point, value); it is non-trivial when '
        'the recogniser decides it (IN or OUT), i.e. the accept/reject comparison was really made')
ASSUMPTIONS = [
    'values are str or list of str (tags: also non-str elements, which are documented as rejected); other types are '
    'outside the claimed domain',
    'strings the documentation does not decide (non-ASCII digits/letters for \\d and \\w, numa written with blanks/sign/'
    'leading zeros, the unescaped "." of the bdf pattern, ipv6 strings that are pattern-only or RFC-only, ipv4 prefix '
    '33-99, reversed ipv4 ranges, NaN/Infinity in JSON, byte size vs character size) are executed but not compared',
    'boot script limit is read as len < 1024, JSON blob limits as len <= 4096/2048/1024 (MeasurementData/UserData/'
    'LayoutData), as published in the code',
    'rejection = any exception (LabelException, ValueError, AssertionError, ...); assert-based checks vanish under '
    'python -O, which is not exercised',
    'held on the executions observed, not a proof',
]
LEVEL_TEXT = ('Runtime monitoring: every generated candidate string is pushed through each real entry point of FIM '
              '(labels: 12 entry points x scalar/list; tags: 8; names: set_name of every sliver class + 7 topology '
              'calls + rename of 5 element kinds; boot script and 3 JSON blob classes through class, sliver and '
              'element setters) and the accept/reject outcome, the stored value and the encode/decode round trip are '
              'judged against independent hand-written recognisers of the documented formats. Held on the executions '
              'observed.')
LEVEL_NOTE = ('Trusted: the hand-written recognisers (vlib/recognisers.py), stdlib json used by the harness to build '
              'input text, the harness generator. "Accepted" = no exception and the value is stored; an out-of-domain '
              'value that is silently dropped or normalised into the domain is not counted against the property. '
              'Not covered: Capacities/CapacityHints/Location/Flags fields, direct attribute assignment on a Labels '
              'object and the private _set_fields, python -O (assert-based checks), Neo4j-backed topologies, '
              'substrate/advertised topologies, add_facility/add_switch/add_storage/peer, names derived by the component '
              'catalogue for NIC components (only reported as information), replay of the repository tests under monitors.')

LABEL_ENTRIES = ['ctor', 'update', 'from_json', 'from_json_instance', 'from_json_forgiving',
                 'delegation_set_details', 'delegations_from_json',
                 'elem_update_labels', 'elem_set_property', 'elem_set_properties', 'elem_assign', 'add_node_kwargs']
ELEM_LABEL_ENTRIES = LABEL_ENTRIES[7:11]
TAG_ENTRIES = ['positional', 'list', 'tuple', 'mixed', 'from_json', 'elem_assign', 'elem_set_property',
               'add_node_kwargs']
NAME_SLIVER_ENTRIES = ['set_name', 'set_property', 'set_properties']
NAME_TOPO_ENTRIES = {  # entry -> sliver class whose documented pattern applies
    'topo.add_node': 'NodeSliver', 'node.add_component': 'ComponentSliver',
    'node.add_network_service': 'NetworkServiceSliver', 'topo.add_network_service': 'NetworkServiceSliver',
    'ns.add_interface': 'InterfaceSliver', 'topo.add_link': 'NetworkLinkSliver',
    'iface.add_child_interface': 'InterfaceSliver',
}
ELEM_KINDS = {'Node': 'NodeSliver', 'Component': 'ComponentSliver', 'Interface': 'InterfaceSliver',
              'NetworkService': 'NetworkServiceSliver', 'Link': 'NetworkLinkSliver'}
BOOT_ENTRIES = ['sliver.set_boot_script', 'sliver.set_property', 'sliver.set_properties', 'elem_assign',
                'elem_set_property', 'add_node_kwargs']
JSON_PROPS = {'user_data': 'UserData', 'layout_data': 'LayoutData', 'mf_data': 'MeasurementData'}
JSON_ENTRIES = ['class:text', 'class:object', 'sliver_setter', 'elem_assign:text', 'elem_assign:object',
                'elem_assign:instance', 'elem_set_property']


def _required():
    req = []
    for f in list(R.LABELS) + list(R.FREE_LABELS):
        for e in LABEL_ENTRIES:
            req.append(f'lab:{f}:{e}')
    for e in LABEL_ENTRIES:
        req += [f'labshape:{e}:scalar', f'labshape:{e}:list']
    req += ['listpos:only', 'listpos:first', 'listpos:middle', 'listpos:last', 'listpos:all-members']
    req += [f'tags:{e}' for e in TAG_ENTRIES]
    for k in R.NAMES:
        req += [f'name:{k}:{e}' for e in NAME_SLIVER_ENTRIES]
    req += [f'name:{e}' for e in NAME_TOPO_ENTRIES]
    req += [f'name:rename:{k}' for k in ELEM_KINDS]
    req += [f'boot:{e}' for e in BOOT_ENTRIES]
    for c in R.JSON_LIMITS:
        req += [f'json:{c}:{e}' for e in JSON_ENTRIES]
    req += ['verdict:in', 'verdict:out', 'verdict:unspecified', 'agree:accepted-in', 'agree:rejected-out',
            'clause:stored-equals-input', 'clause:reencode-accepted', 'clause:not-stored-after-rejection',
            'nl:labels', 'nl:tags', 'nl:names']
    return req


REQUIRED = _required()

MISSING = '<nothing stored>'
NEWLINE_FAMILIES = ('labels', 'tags', 'names')      # validator sites that anchor a pattern with '$'


# ======================================================================================== environment
class Env:
    """library handles + discovered vocabularies + topology fixture"""

    def __init__(self, ctx):
        self.ctx = ctx
        import fim.user as fu
        from fim.slivers.capacities_labels import Labels
        from fim.slivers.tags import Tags
        from fim.slivers.delegations import Delegation, Delegations, DelegationType, DelegationFormat
        from fim.graph.abc_property_graph_constants import ABCPropertyGraphConstants as C
        from fim.slivers.base_sliver import BaseSliver
        from fim.slivers import json_data
        self.fu, self.Labels, self.Tags = fu, Labels, Tags
        self.Delegation, self.Delegations = Delegation, Delegations
        self.DelegationType, self.DelegationFormat = DelegationType, DelegationFormat
        self.C = C
        self.BaseSliver = BaseSliver
        self.fx = None
        self.uniq = 0
        # ---- label fields
        self.fields = list(Labels().__dict__.keys())
        validated = set(Labels.VALIDATORS) | set(Labels.LAMBDA_VALIDATORS)     # names only
        known = set(R.LABELS) | set(R.FREE_LABELS)
        for f in self.fields:
            if f not in known and f in validated:
                ctx.mark_inconclusive(f'labels field {f} has a validator but no recogniser in vlib/recognisers.py')
        for f in known:
            if f not in self.fields:
                ctx.mark_inconclusive(f'labels field {f} known to the recognisers no longer exists')
        self.label_fields = [f for f in self.fields if f in known or f not in validated]
        # ---- sliver classes
        import importlib
        import pkgutil
        import fim.slivers as pkg
        for m in pkgutil.iter_modules(pkg.__path__):
            try:
                importlib.import_module('fim.slivers.' + m.name)
            except Exception:
                pass
        self.sliver_classes = {}
        todo = list(BaseSliver.__subclasses__())
        while todo:
            c = todo.pop()
            todo.extend(c.__subclasses__())
            try:
                c()
            except Exception:
                continue
            owner = next((k for k in c.__mro__ if 'NAME_REGEX' in k.__dict__), None)
            if owner is None:
                continue
            if owner.__name__ not in R.NAMES:
                ctx.mark_inconclusive(f'sliver class {c.__name__}: name pattern of {owner.__name__} has no recogniser')
                continue
            self.sliver_classes[c.__name__] = (c, owner.__name__)
        for k in R.NAMES:
            if k not in self.sliver_classes:
                ctx.mark_inconclusive(f'sliver class {k} not found')
        # ---- JSON blob classes
        self.json_classes = {}
        todo = list(json_data.JSONData.__subclasses__())
        while todo:
            c = todo.pop()
            todo.extend(c.__subclasses__())
            if c.__name__ not in R.JSON_LIMITS:
                ctx.mark_inconclusive(f'JSON blob class {c.__name__} has no documented limit in the recognisers')
                continue
            self.json_classes[c.__name__] = c
        props = BaseSliver.list_properties()
        for p in list(JSON_PROPS) + ['boot_script', 'labels', 'tags', 'name']:
            if p not in props:
                ctx.mark_inconclusive(f'sliver property {p} has no setter any more')
        ctx.info['label_fields'] = list(self.label_fields)
        ctx.info['sliver_classes'] = sorted(self.sliver_classes)
        ctx.info['json_classes'] = sorted(self.json_classes)

    # ------------------------------------------------------------------ fixture
    def fixture(self, fresh=False):
        if fresh or self.fx is None or self.fx.ops > 150:
            self.fx = Fixture(self)
        self.fx.ops += 1
        return self.fx

    def unique(self, prefix='u'):
        self.uniq += 1
        return f'{prefix}{self.uniq}'


class Fixture:
    def __init__(self, env):
        fu = env.fu
        from fim.user.topology import ExperimentTopology
        ExperimentTopology().graph_model.importer.delete_all_graphs()
        t = ExperimentTopology()
        self.t = t
        self.ops = 0
        MT = fu.ComponentModelType
        self.gpu_model, self.nic_model = MT.GPU_RTX6000, MT.SmartNIC_ConnectX_6
        n1 = t.add_node(name='fx-n1', site='FX')
        n2 = t.add_node(name='fx-n2', site='FX')
        gpu = n1.add_component(name='fx-gpu', model_type=self.gpu_model)
        nic1 = n1.add_component(name='fx-nic1', model_type=self.nic_model)
        nic2 = n2.add_component(name='fx-nic2', model_type=self.nic_model)
        nic3 = n2.add_component(name='fx-nic3', model_type=self.nic_model)
        ns = t.add_network_service(name='fx-ns', nstype=fu.ServiceType.L2Bridge)
        self.link_ifs = [nic1.interface_list[1], nic2.interface_list[1]]
        link = t.add_link(name='fx-link', ltype=fu.LinkType.Patch, interfaces=self.link_ifs)
        self.n1, self.n2, self.ns = n1, n2, ns
        self.parent_if = nic3.interface_list[0]          # DedicatedPort used for add_child_interface
        self.elems = {'Node': n1, 'Component': gpu, 'Interface': nic1.interface_list[0],
                      'NetworkService': ns, 'Link': link}
        self.used = set()
        self.vlan = 0

    def graph_prop(self, elem, prop):
        _, props = self.t.graph_model.get_node_properties(node_id=elem.node_id)
        return props.get(prop)


# ======================================================================================== generators
HEXL = '0123456789abcdef'
WORDCH = 'abcdefghijklmnopqrstuvwxyzABCDEFGHIJKLMNOPQRSTUVWXYZ0123456789_'


def hx(r, n):
    s = ''.join(r.choice(HEXL) for _ in range(n))
    return s.upper() if r.random() < 0.25 else s


def m_octet(r):
    v = r.choice([0, 1, 9, 10, 99, 100, 127, 199, 200, 249, 250, 255, r.randrange(256)])
    s = str(v)
    if r.random() < 0.15:
        s = s.zfill(r.choice([2, 3]))[-3:] if len(s) < 3 else s
    return s


def m_ipv4(r):
    return '.'.join(m_octet(r) for _ in range(4))


def m_ipv4_range(r):
    a = [r.randrange(256) for _ in range(4)]
    b = list(a)
    k = r.randrange(4)
    b[k] = r.randrange(a[k], 256)
    for j in range(k + 1, 4):
        b[j] = r.randrange(a[j], 256)
    return '.'.join(map(str, a)) + '-' + '.'.join(map(str, b))


def m_ipv6(r):
    m = r.random()
    g = lambda: hx(r, r.choice([1, 2, 3, 4, 4]))
    if m < 0.4:
        return ':'.join(g() for _ in range(8))
    if m < 0.5:
        return r.choice(['::', '::1', '1::', 'fe80::1', '2001:db8::', '::ffff:0:1'])
    k = r.randrange(1, 7)
    h = r.randrange(0, k + 1)
    return ':'.join(g() for _ in range(h)) + '::' + ':'.join(g() for _ in range(k - h))


def m_ipv6_subnet(r):
    if r.random() < 0.4:
        a = ':'.join(hx(r, r.choice([1, 4, 4])) for _ in range(r.randrange(1, 8)))
    else:
        a = m_ipv6(r)
    return a + '/' + str(r.choice([0, 1, 9, 10, 48, 64, 99, r.randrange(100)]))


def m_num(r, vals, lo, hi, pad):
    v = r.choice(vals + [r.randrange(lo, hi + 1)])
    s = str(v)
    if r.random() < 0.2:
        s = s.zfill(pad(len(s)))
    return s


def m_vlan(r):
    return m_num(r, [0, 1, 2, 100, 999, 1000, 4094, 4095, 4096], 0, 4096, lambda n: 4)


def m_vlan_range(r):
    a = r.choice([0, 1, 100, 4095, 4096, r.randrange(4097)])
    b = r.choice([a, 4096, r.randrange(a, 4097)])
    return f'{a}-{b}'


def m_asn(r):
    return m_num(r, [1, 2, 64512, 65535, 65536, 2 ** 31 - 1, 2 ** 31, 2 ** 32 - 2, 2 ** 32 - 1], 1, 2 ** 32 - 1,
                 lambda n: n + r.choice([1, 2, 5]))


def m_word(r, extra, lo, hi):
    n = r.choice([lo, lo + 1, hi - 1, hi, r.randrange(lo, min(hi, 24) + 1), r.randrange(lo, min(hi, 24) + 1)])
    alpha = WORDCH + extra * 4
    return ''.join(r.choice(alpha) for _ in range(n))


def m_free(r):
    if r.random() < 0.5:
        return r.choice(['p1', 'HundredGigE0/0/0/26', 'a b', 'x\ny', '\u00e9t\u00e9', '', '0', 'vol 1\n', ' '])
    return ''.join(r.choice(WORDCH + ' -/:.\n\t"\\{}[]\u00e9\u4e2d') for _ in range(r.randrange(0, 20)))


MEMBERS = {
    'bdf': lambda r: f'{hx(r, r.choice([1, 2, 4, 4]))}:{hx(r, 2)}:{hx(r, 2)}.{hx(r, r.choice([1, 1, 2]))}',
    'mac': lambda r: ':'.join(hx(r, 2) for _ in range(6)),
    'ipv4': m_ipv4,
    'ipv4_range': m_ipv4_range,
    'ipv4_subnet': lambda r: m_ipv4(r) + '/' + str(r.choice([0, 1, 8, 9, 10, 24, 31, 32, r.randrange(33)])),
    'ipv6': m_ipv6,
    'ipv6_range': lambda r: m_ipv6(r) + '-' + m_ipv6(r),
    'ipv6_subnet': m_ipv6_subnet,
    'asn': m_asn,
    'vlan': m_vlan,
    'inner_vlan': m_vlan,
    'vlan_range': m_vlan_range,
    'bgp_key': lambda r: m_word(r, *R.WORD_FIELDS['bgp_key']),
    'account_id': lambda r: m_word(r, *R.WORD_FIELDS['account_id']),
    'region': lambda r: m_word(r, *R.WORD_FIELDS['region']),
    'usb_id': lambda r: ''.join(r.choice(HEXL) for _ in range(4)) + ':' + ''.join(r.choice(HEXL) for _ in range(4)),
    'numa': lambda r: str(r.randrange(-1, 8)),
}

NUMS = ['-1', '0', '1', '7', '8', '-2', '9', '10', '4094', '4095', '4096', '4097', '9999', '10000', '00000', '0000',
        '04096', '004096', '65535', '65536', '4294967294', '4294967295', '4294967296', '4294967297',
        '04294967295', '004294967296', '99999999999999999999', '-0', '00', '07', '+1', ' 1', '1 ', '1\n', '\n1',
        '1\n\n', '1_0', '1e2', '0x10', '1.0', '\u0661\u0660\u0660', '\u0967', '\uff11', '\u00b2', '', ' ', '\n',
        '100\n', '10\n0', '100\r', '100\r\n', '100\x00', '١٠٠\n']
SPECIALS = {
    'vlan': NUMS, 'inner_vlan': NUMS, 'asn': NUMS, 'numa': NUMS,
    'vlan_range': ['0-0', '0-4096', '4096-4096', '0-4097', '4097-4097', '1-0', '200-100', '100-100', '100-', '-100',
                   '100', '100--200', '100-200-300', '100:200', '100 - 200', '00000-1', '1-00000', '0000-0001',
                   '100-200\n', '100\n-200', '-1-5', '١-٢', '', '-'],
    'bdf': ['0000:00:00.0', '0:00:00.0', '00000:00:00.0', '0000:0:00.0', '0000:00:0.0', '0000:00:00.', '0000:00:00',
            '0000:00:00:0', '0000:00:00,0', '0000:00:00 0', '0000:00:00\n0', '0000:00:00.0\n', '0000:00:00.g',
            'g000:00:00.0', '0000.00.00.0', '0000::00:00.0', '0000:00:00.00000000', ''],
    'mac': ['00:11:22:33:44:55', 'aa:bb:cc:dd:ee:ff', 'AA:BB:CC:DD:EE:FF', '00:11:22:33:44:55\n', '00:11:22:33:44',
            '00:11:22:33:44:55:66', '00-11-22-33-44-55', '00:11:22:33:44:5', '00:11:22:33:44:555', '00:11:22:33:44:5g',
            '00:11::22:33:44:55', '001122334455', '0011.2233.4455', ':00:11:22:33:44:55', '00:11:22:33:44:55:', '',
            '00:11:22:33:44\n:55'],
    'ipv4': ['0.0.0.0', '255.255.255.255', '256.0.0.1', '1.2.3.256', '1.2.3', '1.2.3.4.5', '1.2.3.4.', '.1.2.3.4',
             '1..2.3', '1.2.3.4\n', '01.02.03.04', '001.002.003.004', '0001.2.3.4', '1,2,3,4', '1.2.3.4/24', '1.2.3.-4',
             '1.2.3.4 ', ' 1.2.3.4', '300.1.1.1', '1.2.3.a', '', '1.2.3.\n4', '١.٢.٣.٤'],
    'ipv4_range': ['192.168.1.1-192.168.1.10', '192.168.1.1-192.168.1.1', '192.168.1.10-192.168.1.1',
                   '192.168.1.1-192.168.1.256', '192.168.1.1', '192.168.1.1-', '-192.168.1.1', '1.1.1.1--1.1.1.2',
                   '1.1.1.1-1.1.1.2-1.1.1.3', '1.1.1.1:1.1.1.2', '1.1.1.1-1.1.1.2\n', '1.1.1.1\n-1.1.1.2',
                   '1.1.1.1 - 1.1.1.2', ''],
    'ipv4_subnet': ['192.168.1.0/24', '0.0.0.0/0', '10.0.0.0/32', '10.0.0.0/33', '10.0.0.0/99', '10.0.0.0/100',
                    '10.0.0.0/', '10.0.0.0', '10.0.0.0//24', '10.0.0.0/24/24', '10.0.0.0\\24', '10.0.0.0/24\n',
                    '10.0.0.0/2\n4', '10.0.0.0/-1', '10.0.0.0/2a', '10.0.0.256/24', '10.0.0.0/٢٤', '10.0.0.0/08', ''],
    'ipv6': ['2001:0db8:85a3:0000:0000:8a2e:0370:7334', '::', '::1', '1::', '1:2:3:4:5:6:7:8', '1:2:3:4:5:6:7:8:9',
             '1:2:3:4:5:6:7', '1:2:3:4:5:6:7::', '::2:3:4:5:6:7:8', '1::8', '1:::8', '12345::', 'g::1', '::1\n',
             '::\n1', '1:2:3:4:5:6:7:8\n', '::ffff:1.2.3.4', '1.2.3.4', 'fe80::1%eth0', '2001:db8::/32', ':', ':::',
             '', '\n', ' ::1', '::1 ', '2001:DB8::1', '0:0:0:0:0:0:0:0', '::-::'],
    'ipv6_range': ['2001:0db8:85a3:0000:0000:8a2e:0370:7334-2001:0db8:85a3:0000:0000:8a2e:0370:8334', '::1-::2',
                   '::1', '::1-', '-::1', '::1--::2', '::1-::2-::3', '::1-::2\n', '::1\n-::2', '::1-::g',
                   '1:2:3:4:5:6:7:8-1:2:3:4:5:6:7:8:9', '::1 - ::2', '-', ''],
    'ipv6_subnet': ['2001:0db8:85a3:0000:0000/48', '2001:db8::/32', '::/0', '::1/99', '::1/100', '::1/128', '::1/129',
                    '::1/', '::1', '::1//64', '::1/64/64', '::1/64\n', '::1/6\n4', '::1/-1', '::1/6a', 'g::/64',
                    '1:2:3:4:5:6:7:8:9/64', '2001:db8/32', '/48', '::1/٦٤', ''],
    'usb_id': ['1234:abcd', '0000:0000', 'ffff:ffff', '1234:ABCD', 'ABCD:1234', '1234:abcg', '123:abcd', '12345:abcd',
               '1234:abc', '1234:abcde', '1234abcd', '1234-abcd', '1234::abcd', '1234:abcd\n', '1234\n:abcd',
               ' 1234:abcd', '1234:abcd:', ''],
}


def edits(r, m, seps):
    """one-edit near-misses of a member (the recogniser, not the generator, decides what they are)"""
    out = [m + '\n', m + '\n\n', '\n' + m, m + '\r\n', m + '\r', m + ' ', ' ' + m, m + r.choice('\t\x00\x0b\u2028\u0085')]
    junk = 'xg:.-/0;,_+'
    out.append(m + r.choice(junk))
    out.append(r.choice(junk) + m)
    if len(m) >= 2:
        k = r.randrange(1, len(m))
        out.append(m[:k] + '\n' + m[k:])
    if m:
        k = r.randrange(len(m))
        out.append(m[:k] + m[k + 1:])
        k = r.randrange(len(m))
        out.append(m[:k] + m[k] + m[k:])
        k = r.randrange(len(m))
        out.append(m[:k] + r.choice('gGzZ -_:./,@\u0663\u00e9') + m[k + 1:])
        hexpos = [i for i, c in enumerate(m) if c in '0123456789abcdefABCDEF']
        if hexpos:
            k = r.choice(hexpos)
            out.append(m[:k] + 'g' + m[k + 1:])
            k = r.choice(hexpos)
            out.append(m[:k] + '\u0663' + m[k + 1:])
        sp = [i for i, c in enumerate(m) if c in seps]
        if sp:
            k = r.choice(sp)
            out.append(m[:k] + m[k] + m[k:])                       # doubled separator
            out.append(m[:k] + r.choice([c for c in ':.-/,; _' if c != m[k]]) + m[k + 1:])   # wrong separator
            out.append(m[:k] + m[k + 1:])                          # missing separator
            main = m[sp[0]]
            parts = m.split(main)
            out.append(main.join(parts[:-1]))                      # one group fewer
            out.append(main.join(parts + [parts[-1]]))             # one group more
            out.append(m + main)                                   # trailing separator
        if m.upper() != m:
            out.append(m.upper())
        if m.lower() != m:
            out.append(m.lower())
    return out


SEPS = ':.-/'


def length_specials(extra, lo, hi):
    out = ['a' * (lo - 1), 'a' * lo, 'a' * hi, 'a' * (hi + 1), 'a' * hi + '\n', 'a' * (hi - 1) + '\n',
           'a' * (lo - 1) + '\n', '\u00e9' * hi, 'a' * (2 * hi), '', '\n', ' ' * lo]
    for c in extra:
        out.append(c * lo)
        out.append('a' * lo + c)
    for c in ' !"#$%&\'()*+,-./:;<=>?@[\\]^_`{|}~\t\n\x00':
        out.append('ab' + 'a' * lo + c + 'cd')
    return out


def label_candidates(r, field, nmembers, nedits):
    c = list(SPECIALS.get(field, []))
    gen = MEMBERS.get(field, m_free)
    if field in R.WORD_FIELDS:
        c += length_specials(*R.WORD_FIELDS[field])
    members = [gen(r) for _ in range(nmembers)]
    c += members
    for m in members[:nedits]:
        c += edits(r, m, SEPS)
    seen, out = set(), []
    for s in c:
        if s not in seen:
            seen.add(s)
            out.append(s)
    return out


def in_members(r, fn, gen, n):
    out = []
    for _ in range(40):
        m = gen(r)
        if fn(m) == IN:
            out.append(m)
            if len(out) == n:
                break
    return out


# ======================================================================================== judging
def verdict_of(fn, value, aslist=None):
    if aslist is None:
        aslist = isinstance(value, (list, tuple))
    if aslist:
        vs = [fn(x) for x in value]
        if OUT in vs:
            return OUT
        if UNSPEC in vs or not vs:
            return UNSPEC
        return IN
    return fn(value)


def only_member_newline(rawfn, fn, value, aslist=None):
    """every OUT element of the value is `<member>\\n`"""
    if aslist is None:
        aslist = isinstance(value, (list, tuple))
    xs = list(value) if aslist else [value]
    off = [x for x in xs if fn(x) == OUT]
    return bool(off) and all(R.is_member_newline(rawfn, x) for x in off)


def judge(ctx, fam, subject, keybase, rawfn, fn, case, accepted, stored, exc, reenc, aslist=None):
    """Compare one execution with the oracle.  keybase e.g. 'labels-vlan', 'tags', 'names-NodeSliver'.
    reenc: None (not applicable / not accepted) or ('ok', value) | ('rejected', text)."""
    value = case['value']
    v = verdict_of(fn, value, aslist)
    ctx.count('verdict:' + v)
    ctx.seen([fam, subject, case['entry'], value], v != UNSPEC)
    w = dict(case, verdict=v, accepted=accepted, exception=exc)
    if accepted:
        w['stored'] = stored
    where = f'{fam} {subject} via {case["entry"]}'
    same = accepted and _same(stored, value)
    if v == OUT and accepted:
        if same:
            if fam in NEWLINE_FAMILIES and only_member_newline(rawfn, fn, value, aslist):
                d = ctx.info.setdefault('newline_accepted', {})
                k = f'{fam}:{subject}:{case["entry"]}'
                d[k] = d.get(k, 0) + 1
                ctx.violation(f'C16/trailing-newline-accepted-{fam}',
                              f'{where}: "<member>\\n" is outside the documented whole-string format but was accepted '
                              f'and stored ($ also matches before a final newline)', w)
            else:
                ctx.violation(f'C16/{keybase}-accepts-out-of-domain',
                              f'{where}: a value outside the documented domain was accepted and stored', w)
        elif isinstance(stored, (str, list)) and not str(stored).startswith(MISSING) and \
                verdict_of(fn, stored, aslist) == OUT:
            ctx.violation(f'C16/{keybase}-accepts-out-of-domain',
                          f'{where}: no error was raised and a (different) value outside the documented domain was stored', w)
        else:
            ctx.count('agree:out-not-stored')       # silently dropped or normalised into the domain: nothing bad stored
    elif v == IN and not accepted:
        ctx.violation(f'C16/{keybase}-rejects-in-domain',
                      f'{where}: a value inside the documented domain was rejected', w)
    elif v == IN:
        ctx.count('agree:accepted-in')
    elif v == OUT:
        ctx.count('agree:rejected-out')
    if accepted and v == IN:
        ctx.count('clause:stored-equals-input')
        if not same:
            ctx.violation(f'C16/{keybase}-stored-differs',
                          f'{where}: no error was raised but the stored value differs from the in-domain input', w)
    if accepted and v != OUT and reenc is not None:
        ctx.count('clause:reencode-accepted')
        if reenc[0] == 'rejected':
            ctx.violation(f'C16/{keybase}-reencode-rejected',
                          f'{where}: an accepted value is rejected when encoded and decoded again',
                          dict(w, reencode=reenc[1]))
        elif v == IN and same and not _same(reenc[1], value):
            ctx.violation(f'C16/{keybase}-reencode-differs',
                          f'{where}: encode/decode of an accepted value gives a different value',
                          dict(w, reencode=reenc[1]))
    return v


def _plain(v):
    return list(v) if isinstance(v, tuple) else v


def _same(a, b):
    if isinstance(a, tuple):
        a = list(a)
    if isinstance(b, tuple):
        b = list(b)
    return type(a) is type(b) and a == b


def exc_text(e):
    return f'{type(e).__name__}: {str(e)[:160]}'


# ======================================================================================== labels
def drive_label(env, r, entry, field, value, elem_kind):
    """returns (labels_object_or_None, stored value, reencode result).  Raises on rejection."""
    L = env.Labels
    kw = {field: value}
    lab = None
    if entry == 'ctor':
        lab = L(**kw)
        stored = getattr(lab, field)
    elif entry == 'update':
        m = r.randrange(3)
        base = L() if m == 0 else L(instance='i1', local_name=['a', 'b'])
        before = dict(base.__dict__)
        try:
            lab = L.update(base, **kw)
        except Exception:
            env.ctx.count('clause:not-stored-after-rejection')
            if base.__dict__ != before:
                env.ctx.violation(f'C16/labels-{field}-stored-despite-rejection',
                                  'Labels.update rejected the value but changed the original object',
                                  {'family': 'labels', 'field': field, 'entry': entry, 'value': value,
                                   'before': before, 'after': dict(base.__dict__)})
            raise
        stored = getattr(lab, field)
    elif entry == 'from_json':
        lab = L.from_json(json.dumps(kw))
        stored = getattr(lab, field)
    elif entry == 'from_json_instance':
        lab = L(instance='zz').from_json(json.dumps(kw, ensure_ascii=False))
        stored = getattr(lab, field)
    elif entry == 'from_json_forgiving':
        d = {'zz_future_field': 'x'}
        if r.random() < 0.5:
            d = dict(kw, **d)
        else:
            d.update(kw)
        lab = L.from_json(json.dumps(d))
        stored = getattr(lab, field)
        if hasattr(lab, 'zz_future_field'):
            stored = MISSING + ' (unknown field was stored)'
    elif entry == 'delegation_set_details':
        d = env.Delegation(atype=env.DelegationType.LABEL, delegation_id='del1')
        d.set_details(L(**kw))
        stored = getattr(d.get_details(), field)
        ds = env.Delegations(atype=env.DelegationType.LABEL)
        ds.add_delegations(d)
        try:
            back = env.Delegations.from_json(json_str=ds.to_json(), atype=env.DelegationType.LABEL)
            return None, stored, ('ok', getattr(back.get_by_delegation_id('del1').get_details(), field))
        except Exception as e:
            return None, stored, ('rejected', exc_text(e))
    elif entry == 'delegations_from_json':
        C = env.C
        pool = C.SINGLE_POOL_NAME if r.random() < 0.5 else 'pool1'
        text = json.dumps({'del1': {C.FIELD_POOL_ID: pool, C.FIELD_LABELS: kw}})
        ds = env.Delegations.from_json(json_str=text, atype=env.DelegationType.LABEL)
        lab = ds.get_by_delegation_id('del1').get_details()
        stored = getattr(lab, field)
    elif entry in ELEM_LABEL_ENTRIES:
        fx = env.fixture()
        elem = fx.elems[elem_kind]
        env.ctx.count('elem-kind:' + elem_kind)
        raw_before = fx.graph_prop(elem, env.C.PROP_LABELS)
        if raw_before is not None and r.random() < 0.3:
            elem.set_property('labels', None)          # start from "no labels" (update_labels then constructs)
            raw_before = fx.graph_prop(elem, env.C.PROP_LABELS)
        try:
            if entry == 'elem_update_labels':
                elem.update_labels(**kw)
            elif entry == 'elem_set_property':
                elem.set_property('labels', L(**kw))
            elif entry == 'elem_set_properties':
                elem.set_properties(labels=L(**kw))
            else:
                elem.labels = L(**kw)
        except Exception:
            env.ctx.count('clause:not-stored-after-rejection')
            raw_after = fx.graph_prop(elem, env.C.PROP_LABELS)
            if raw_after != raw_before:
                env.ctx.violation(f'C16/labels-{field}-stored-despite-rejection',
                                  'the element rejected the labels value but its stored labels changed',
                                  {'family': 'labels', 'field': field, 'entry': entry, 'value': value,
                                   'elem_kind': elem_kind, 'before': raw_before, 'after': raw_after})
            raise
        # reading back decodes the stored text (from_json)
        try:
            got = elem.labels
            return None, getattr(got, field) if got is not None else MISSING, None
        except Exception as e:
            return None, value, ('rejected', 'reading the element back: ' + exc_text(e))
    elif entry == 'add_node_kwargs':
        fx = env.fixture()
        nm = env.unique('kwn')
        n = fx.t.add_node(name=nm, site='FX', labels=L(**kw))
        try:
            got = n.labels
            res = (None, getattr(got, field) if got is not None else MISSING, None)
        except Exception as e:
            res = (None, value, ('rejected', 'reading the element back: ' + exc_text(e)))
        fx.t.remove_node(name=nm)
        return res
    else:
        raise RuntimeError('unknown entry ' + entry)
    # generic re-encode of a Labels object
    try:
        t = lab.to_json()
        lab2 = L.from_json(t)
        return lab, stored, ('ok', getattr(lab2, field) if lab2 is not None else MISSING)
    except Exception as e:
        return lab, stored, ('rejected', exc_text(e))


def label_fn(field):
    return lambda s: R.label(field, s)


def label_rawfn(field):
    return R.LABELS.get(field, R.free_form)


def eval_label(env, r, case):
    ctx = env.ctx
    field, entry, value = case['field'], case['entry'], case['value']
    shape = 'list' if isinstance(value, list) else 'scalar'
    ctx.count(f'lab:{field}:{entry}')
    ctx.count(f'labshape:{entry}:{shape}')
    inp = list(value) if isinstance(value, list) else value
    accepted, stored, exc, reenc = False, None, None, None
    try:
        _, stored, reenc = drive_label(env, r, entry, field, inp, case.get('elem_kind', 'Node'))
        accepted = True
    except Exception as e:
        exc = exc_text(e)
    if isinstance(value, list) and inp != value:
        ctx.violation('C16/labels-input-list-mutated', 'the caller\'s list was modified', dict(case, now=inp))
    v = judge(ctx, 'labels', field, f'labels-{field}', label_rawfn(field), label_fn(field), case, accepted, stored,
              exc, reenc)
    if v == OUT and only_member_newline(label_rawfn(field), label_fn(field), value):
        ctx.count('nl:labels')


def labels_round(env, r, quick):
    ctx = env.ctx
    kinds = list(ELEM_KINDS)
    kk = 0
    for field in env.label_fields:
        fn = label_fn(field)
        gen = MEMBERS.get(field, m_free)
        cands = label_candidates(r, field, 6 if quick else 10, 3 if quick else 6)
        mem = in_members(r, fn, gen, 3) or ['x']
        for ci, s in enumerate(cands):
            forms = [('scalar', s)]
            v = fn(s)
            if v == IN:
                forms.append(('all-members', [mem[0], s, mem[-1]]))
            else:
                forms.append(('only', [s]))
                pos = ('first', 'middle', 'last')
                # every position for specials, a rotating one for the rest (all three are hit many times per field)
                for p in (pos if ci % 3 == 0 else (pos[r.randrange(3)],)):
                    if p == 'first':
                        forms.append((p, [s, mem[0], mem[-1]]))
                    elif p == 'middle':
                        forms.append((p, [mem[0], s, mem[-1]]))
                    else:
                        forms.append((p, [mem[0], mem[-1], s]))
            for fi, (fname, value) in enumerate(forms):
                if fname != 'scalar':
                    ctx.count('listpos:' + fname)
                for ei, entry in enumerate(LABEL_ENTRIES):
                    if entry in ELEM_LABEL_ENTRIES:
                        # one element entry per (candidate, form), rotating; all four are hit for every field
                        if (ci + fi) % 4 != ei - 7:
                            continue
                    if entry == 'add_node_kwargs' and (ci + fi) % 7 != 0:
                        continue
                    kk += 1
                    case = {'family': 'labels', 'field': field, 'entry': entry, 'value': value,
                            'elem_kind': kinds[kk % len(kinds)]}
                    if fname == 'middle' and entry == 'update' and field == 'vlan' and s.endswith('\n'):
                        ctx.sample(case, limit=1)
                    eval_label(env, r, case)
        if ctx.out_of_time():
            return


# ======================================================================================== tags
def drive_tags(env, r, entry, value, elem_kind):
    T = env.Tags
    lst = list(value)
    t = None
    if entry == 'positional':
        t = T(*lst)
    elif entry == 'list':
        t = T(lst)
    elif entry == 'tuple':
        t = T(tuple(lst))
    elif entry == 'mixed':
        k = len(lst) // 2
        t = T(*lst[:k], lst[k:]) if r.random() < 0.5 else T(lst[:k], *lst[k:])
    elif entry == 'from_json':
        t = T.from_json(json.dumps(lst))
        if t is None:
            return MISSING, None
    elif entry in ('elem_assign', 'elem_set_property'):
        fx = env.fixture()
        elem = fx.elems[elem_kind]
        raw_before = fx.graph_prop(elem, env.C.PROP_TAGS)
        try:
            if entry == 'elem_assign':
                elem.tags = T(*lst)
            else:
                elem.set_property('tags', T(lst))
        except Exception:
            env.ctx.count('clause:not-stored-after-rejection')
            if fx.graph_prop(elem, env.C.PROP_TAGS) != raw_before:
                env.ctx.violation('C16/tags-stored-despite-rejection',
                                  'the element rejected the tags but its stored tags changed',
                                  {'family': 'tags', 'entry': entry, 'value': value, 'elem_kind': elem_kind})
            raise
        try:
            got = elem.tags
            return (list(got.tags) if got is not None else MISSING), None
        except Exception as e:
            return lst, ('rejected', 'reading the element back: ' + exc_text(e))
    elif entry == 'add_node_kwargs':
        fx = env.fixture()
        nm = env.unique('kwt')
        n = fx.t.add_node(name=nm, site='FX', tags=T(*lst))
        try:
            got = n.tags
            res = ((list(got.tags) if got is not None else MISSING), None)
        except Exception as e:
            res = (lst, ('rejected', 'reading the element back: ' + exc_text(e)))
        fx.t.remove_node(name=nm)
        return res
    stored = list(t.tags)
    try:
        t2 = T.from_json(t.to_json())
        return stored, ('ok', list(t2.tags) if t2 is not None else MISSING)
    except Exception as e:
        return stored, ('rejected', exc_text(e))


def eval_tags(env, r, case):
    ctx = env.ctx
    entry, value = case['entry'], case['value']
    ctx.count('tags:' + entry)
    accepted, stored, exc, reenc = False, None, None, None
    try:
        stored, reenc = drive_tags(env, r, entry, value, case.get('elem_kind', 'Node'))
        accepted = True
    except Exception as e:
        exc = exc_text(e)
    fn = R.tag
    raw = lambda s: R.tag_raw(s) if isinstance(s, str) else OUT
    v = judge(ctx, 'tags', 'tags', 'tags', raw, fn, case, accepted, stored, exc, reenc, True)
    if v == OUT and only_member_newline(raw, fn, value, True):
        ctx.count('nl:tags')


def tag_candidates(r, quick):
    extra, lo, hi = R.TAG
    c = ['abc', 'a', 'A-b_9', '-', '_', 'abc\n', 'a\n', '\nabc', 'a\nb', 'abc\n\n', 'abc\r\n', 'abc ', ' abc', 'a b',
          'a.b', 'a/b', 'a:b', 'a+b', '\u00e9t\u00e9', '\u4e2d', 'a' * 254, 'a' * 255, 'a' * 256, 'a' * 255 + '\n',
          'a' * 254 + '\n', '']
    c += length_specials(extra, lo, hi)
    members = [m_word(r, extra, lo, hi) for _ in range(4 if quick else 10)]
    c += members
    for m in members[:2 if quick else 6]:
        c += edits(r, m, '-_')
    seen, out = set(), []
    for s in c:
        if s not in seen:
            seen.add(s)
            out.append(s)
    out += [5, None, 1.5, b'ab', {'a': 1}, True]     # "it is a string": non-strings are documented as rejected
    return out


def tags_round(env, r, quick):
    ctx = env.ctx
    kinds = list(ELEM_KINDS)
    mem = ['m1', 'tag-2', 'T_3']
    kk = 0
    for ci, s in enumerate(tag_candidates(r, quick)):
        good = R.tag(s) == IN
        forms = [[s]]
        if good:
            forms.append([mem[0], s, mem[1]])
        else:
            forms += [[s, mem[0], mem[1]], [mem[0], s, mem[1]], [mem[0], mem[1], s]]
        for fi, value in enumerate(forms):
            for ei, entry in enumerate(TAG_ENTRIES):
                if entry == 'from_json' and not all(isinstance(x, (str, int, float, dict, bool, type(None)))
                                                    for x in value):
                    continue
                if entry == 'add_node_kwargs' and (ci + fi) % 5 != 0:
                    continue
                if entry in ('elem_assign', 'elem_set_property') and (ci + fi + ei) % 2 != 0:
                    continue
                kk += 1
                eval_tags(env, r, {'family': 'tags', 'entry': entry, 'value': value,
                                   'elem_kind': kinds[kk % len(kinds)]})
        if ctx.out_of_time():
            return
    # the empty tag list is a member
    for entry in ('positional', 'list', 'from_json', 'elem_assign'):
        eval_tags(env, r, {'family': 'tags', 'entry': entry, 'value': [], 'elem_kind': 'Node'})


# ======================================================================================== names
def name_candidates(r, kind, quick):
    extra, lo, hi = R.NAMES[kind]
    c = ['ab', 'a', 'ab\n', 'a\n', 'node-1', 'Node1', 'n.1', 'a b', 'a/b', 'a:b', 'a+b', 'a_b', 'ab\n\n', '\nab',
          'a\nb', 'ab\r\n', 'ab ', ' ab', 'HundredGigE0/0/0/26', 'nic1-p1', '\u00e9t\u00e9', '\u4e2d\u6587',
          'a' * (hi - 1) + '\n', 'a' * hi + '\n', 'x' * hi, 'x' * (hi + 1)]
    c += length_specials(extra, lo, hi)
    members = [m_word(r, extra, lo, hi) for _ in range(3 if quick else 8)]
    c += members
    for m in members[:2 if quick else 5]:
        c += edits(r, m, extra)
    seen, out = set(), []
    for s in c:
        if s not in seen:
            seen.add(s)
            out.append(s)
    return out


def drive_name(env, r, entry, kind, s, cls_name=None):
    """returns (stored, reencode).  Raises on rejection."""
    C = env.C
    if entry in NAME_SLIVER_ENTRIES:
        sl = env.sliver_classes[cls_name][0]()
        if entry == 'set_name':
            sl.set_name(s)
        elif entry == 'set_property':
            sl.set_property('name', s)
        else:
            sl.set_properties(name=s)
        return sl.get_name(), None
    fx = env.fixture()
    fu = env.fu
    t = fx.t
    if entry.startswith('rename:'):
        elem = fx.elems[entry.split(':')[1]]
        old = fx.graph_prop(elem, C.PROP_NAME)
        try:
            elem.rename(s)
        except Exception:
            env.ctx.count('clause:not-stored-after-rejection')
            now = fx.graph_prop(elem, C.PROP_NAME)
            if now != old:
                env.ctx.violation(f'C16/names-{kind}-stored-despite-rejection',
                                  'rename rejected the name but the stored name changed',
                                  {'family': 'names', 'kind': kind, 'entry': entry, 'value': s, 'stored': now})
            # ... and the handle does not answer with the rejected name either
            env.ctx.count('clause:handle-name-after-rejection')
            if elem.name != old:
                env.ctx.violation(f'C16/names-{kind}-handle-reports-rejected-name',
                                  'rename rejected the name but the element handle now reports it as its name',
                                  {'family': 'names', 'kind': kind, 'entry': entry, 'value': s, 'handle_name': elem.name, 'stored': now})
                env.fixture(fresh=True)
                raise
            # the same name offered again through the same handle (a caller retrying) is refused again
            env.ctx.count('clause:rejected-again-on-retry')
            try:
                elem.rename(s)
                second = 'accepted'
            except Exception:
                second = 'rejected'
            now2 = fx.graph_prop(elem, C.PROP_NAME)
            if second == 'accepted' or now2 != old:
                env.ctx.violation(f'C16/names-{kind}-accepted-on-second-attempt',
                                  'a name outside the documented domain is never stored - also when the rejected call is repeated',
                                  {'family': 'names', 'kind': kind, 'entry': entry, 'value': s, 'second_attempt': second, 'stored': now2})
                env.fixture(fresh=True)
            raise
        stored = fx.graph_prop(elem, C.PROP_NAME)
        try:
            re_ = ('ok', elem.get_property('name'))
        except Exception as e:
            re_ = ('rejected', 'reading the element back: ' + exc_text(e))
        try:
            elem.rename(old)
        except Exception:
            env.fixture(fresh=True)
        return stored, re_
    if (entry, s) in fx.used:
        raise _Skip()
    fx.used.add((entry, s))
    if entry == 'topo.add_node':
        e = t.add_node(name=s, site='FX')
    elif entry == 'node.add_component':
        e = fx.n2.add_component(name=s, model_type=fx.gpu_model)
    elif entry == 'node.add_network_service':
        e = fx.n2.add_network_service(name=s, nstype=fu.ServiceType.L2Bridge)
    elif entry == 'topo.add_network_service':
        e = t.add_network_service(name=s, nstype=fu.ServiceType.L2Bridge)
    elif entry == 'ns.add_interface':
        e = fx.ns.add_interface(name=s, itype=fu.InterfaceType.ServicePort)
    elif entry == 'topo.add_link':
        e = t.add_link(name=s, ltype=fu.LinkType.Patch, interfaces=fx.link_ifs)
    elif entry == 'iface.add_child_interface':
        fx.vlan += 1
        e = fx.parent_if.add_child_interface(name=s, labels=env.Labels(vlan=str(fx.vlan)))
    else:
        raise RuntimeError('unknown entry ' + entry)
    fx.ops += 2
    stored = fx.graph_prop(e, C.PROP_NAME)
    try:
        re_ = ('ok', e.get_property('name'))
    except Exception as ex:
        re_ = ('rejected', 'reading the element back: ' + exc_text(ex))
    return stored, re_


class _Skip(Exception):
    pass


def eval_name(env, r, case):
    ctx = env.ctx
    entry, kind, s = case['entry'], case['kind'], case['value']
    accepted, stored, exc, reenc = False, None, None, None
    try:
        stored, reenc = drive_name(env, r, entry, kind, s, case.get('cls'))
        accepted = True
    except _Skip:
        return
    except Exception as e:
        exc = exc_text(e)
    ctx.count(f'name:{kind}:{entry}' if entry in NAME_SLIVER_ENTRIES else f'name:{entry}')
    fn = lambda x: R.name(kind, x)
    raw = lambda x: R.name_raw(kind, x)
    v = judge(ctx, 'names', kind, f'names-{kind}', raw, fn, case, accepted, stored, exc, reenc, False)
    if v == OUT and only_member_newline(raw, fn, s, False):
        ctx.count('nl:names')


def nic_probe(env, s):
    """Informational only (never a violation): a component name inside the documented component-name domain can
    still be refused for NIC models, because the catalogue derives network-service / interface names from it and
    those have narrower patterns (no blank, 255 characters including the suffix)."""
    fx = env.fixture()
    env.ctx.count('info:nic-component-name-tried')
    try:
        fx.n1.add_component(name=s, model_type=fx.nic_model)
    except Exception as e:
        d = env.ctx.info.setdefault('nic_component_in_domain_name_refused', {})
        d['count'] = d.get('count', 0) + 1
        if 'example' not in d:
            d['example'] = {'name': s if len(s) < 60 else {'len': len(s)}, 'error': exc_text(e)}
        return
    try:
        fx.n1.remove_component(name=s)
    except Exception:
        env.fixture(fresh=True)


def names_round(env, r, quick):
    ctx = env.ctx
    # sliver setters: every concrete sliver class
    for cls_name, (_, kind) in sorted(env.sliver_classes.items()):
        for s in name_candidates(r, kind, quick):
            for entry in NAME_SLIVER_ENTRIES:
                case = {'family': 'names', 'kind': kind, 'cls': cls_name, 'entry': entry, 'value': s}
                eval_name(env, r, case)
                if cls_name != kind:
                    ctx.count(f'name-subclass:{cls_name}')
    # topology calls
    for entry, kind in NAME_TOPO_ENTRIES.items():
        env.fixture(fresh=True)
        for s in name_candidates(r, kind, quick):
            if s.startswith('fx-'):
                continue
            case = {'family': 'names', 'kind': kind, 'entry': entry, 'value': s}
            if entry == 'topo.add_link' and ' ' in s:
                ctx.sample(case, limit=2)
            eval_name(env, r, case)
            if entry == 'node.add_component' and R.name(kind, s) == IN:
                nic_probe(env, s)
        if ctx.out_of_time():
            return
    env.fixture(fresh=True)
    for ek, kind in ELEM_KINDS.items():
        for s in name_candidates(r, kind, quick):
            if s.startswith('fx-'):
                continue
            eval_name(env, r, {'family': 'names', 'kind': kind, 'entry': 'rename:' + ek, 'value': s})
        if ctx.out_of_time():
            return


# ======================================================================================== boot script
def boot_candidates(r):
    L = R.BOOT_SCRIPT_LIMIT
    c = ['', '#!/bin/bash\necho hi\n', 'x', '\n', 'a' * (L - 2), 'a' * (L - 1), 'a' * L, 'a' * (L + 1), 'a' * (2 * L),
         '\n' * (L - 1), '\n' * L, 'a' * (L - 1) + '\n', 'a' * (L - 2) + '\n', '\u00e9' * (L - 1), '\u00e9' * (L // 2 - 1),
         '\u00e9' * L, '\x00' * (L - 1), ' ' * L]
    for _ in range(4):
        n = r.choice([r.randrange(0, 64), r.randrange(L - 3, L + 3), r.randrange(0, 2 * L)])
        c.append(''.join(r.choice('ab \n\t#!/$"\'\\;') for _ in range(n)))
    c += [5, b'echo', ['x'], 1.5]
    return c


def drive_boot(env, r, entry, s, cls_name, elem_kind):
    if entry.startswith('sliver.'):
        sl = env.sliver_classes[cls_name][0]()
        if entry == 'sliver.set_boot_script':
            sl.set_boot_script(s)
        elif entry == 'sliver.set_property':
            sl.set_property('boot_script', s)
        else:
            sl.set_properties(boot_script=s)
        return sl.get_boot_script(), None
    fx = env.fixture()
    if entry == 'add_node_kwargs':
        nm = env.unique('kwb')
        n = fx.t.add_node(name=nm, site='FX', boot_script=s)
        got = n.boot_script
        fx.t.remove_node(name=nm)
        return got, None
    elem = fx.elems[elem_kind]
    before = fx.graph_prop(elem, env.C.PROP_BOOT_SCRIPT)
    try:
        if entry == 'elem_assign':
            elem.boot_script = s
        else:
            elem.set_property('boot_script', s)
    except Exception:
        env.ctx.count('clause:not-stored-after-rejection')
        if fx.graph_prop(elem, env.C.PROP_BOOT_SCRIPT) != before:
            env.ctx.violation('C16/boot-script-stored-despite-rejection',
                              'the element rejected the boot script but the stored one changed',
                              {'family': 'boot', 'entry': entry, 'value_len': len(s) if hasattr(s, '__len__') else None})
        raise
    stored = fx.graph_prop(elem, env.C.PROP_BOOT_SCRIPT)
    try:
        return stored, ('ok', elem.boot_script)
    except Exception as e:
        return stored, ('rejected', 'reading the element back: ' + exc_text(e))


def eval_boot(env, r, case):
    ctx = env.ctx
    entry, s = case['entry'], case['value']
    ctx.count('boot:' + entry)
    accepted, stored, exc, reenc = False, None, None, None
    try:
        stored, reenc = drive_boot(env, r, entry, s, case.get('cls', 'NodeSliver'), case.get('elem_kind', 'Node'))
        accepted = True
    except Exception as e:
        exc = exc_text(e)
    judge(ctx, 'boot', 'boot-script', 'boot-script', R.boot_script, R.boot_script, case, accepted, stored, exc, reenc, False)


def boot_round(env, r, quick):
    kinds = list(ELEM_KINDS)
    classes = sorted(env.sliver_classes)
    kk = 0
    for s in boot_candidates(r):
        for entry in BOOT_ENTRIES:
            kk += 1
            eval_boot(env, r, {'family': 'boot', 'entry': entry, 'value': s, 'cls': classes[kk % len(classes)],
                               'elem_kind': kinds[kk % len(kinds)]})


# ======================================================================================== JSON blobs
def gen_obj(r, depth=0):
    m = r.random()
    if depth > 3 or m < 0.35:
        return r.choice([0, 1, -1, 12345678901234567890, True, False, None, '', 'a', 'x y', 'q"uote', 'back\\slash',
                         'nl\n', 'tab\t', '\u00e9', '\u4e2d', '\U0001f600', 1.5, -0.25, 1e20])
    if m < 0.65:
        return [gen_obj(r, depth + 1) for _ in range(r.randrange(0, 4))]
    return {r.choice(['a', 'b', 'key', '', 'k k', '\u00e9']): gen_obj(r, depth + 1) for _ in range(r.randrange(0, 4))}


def json_text_candidates(r, limit, quick):
    M = limit
    c = ['{}', '[]', 'null', 'true', '0', '-0', '1.5e3', '"s"', ' {} ', '{}\n', '\n{}', '{"a": 1}', '{"a": 1}\n',
         '[1, 2]', '', ' ', '\n', '{', '}', '[', '[1,]', '{"a": 1,}', '{"a" 1}', '{a: 1}', "{'a': 1}", '{1: 2}', '"abc',
         '"\\x"', '"\\u12"', '"\\u12g4"', '"\\u0041"', '"a\nb"', '"a\tb"', '"a\\nb"', '01', '+1', '.5', '1.', '1e', '0x10',
         '1 2', '[] []', 'True', 'None', 'nul', 'NaN', '[NaN]', 'Infinity', '-Infinity', '\ufeff{}', '{}\x00',
         '{"a": {"b": [1, {"c": null}]}}', '[' * 10 + ']' * 10, '[' * 10 + ']' * 9, '[' * 100 + ']' * 100,
         '"\ud800"', '\u0663', '[\u0663]', '{"a": 1} x', '// c\n{}', '{"a": 1, "a": 2}']
    # size boundary: members and non-members at limit-1, limit, limit+1 characters
    for n in (M - 1, M, M + 1, 2 * M):
        c.append('["' + 'a' * (n - 4) + '"]')               # valid, n characters
        c.append('{}' + ' ' * (n - 2))                      # valid, padded with blanks
        c.append('{"k": "' + 'b' * (n - 9) + '"}')
        c.append('[' + 'a' * (n - 2) + ']')                 # invalid, n characters
        c.append('["' + 'a' * (n - 4) + '"')                # invalid (unterminated), n-1 characters
    c.append('["' + '\u00e9' * (M - 4) + '"]')              # limit characters, more bytes: undecided
    c.append('["' + '\u00e9' * (M // 2 - 2) + '"]')
    for _ in range(4 if quick else 12):
        o = gen_obj(r)
        kw = r.choice([{}, {'ensure_ascii': False}, {'indent': 1}, {'separators': (',', ':')}])
        t = json.dumps(o, **kw)
        c.append(t)
        for _ in range(3):
            k = r.randrange(len(t) + 1)
            m = r.randrange(3)
            ch = r.choice('{}[],:"\\\n 0a\u00e9')
            if m == 0:
                c.append(t[:k] + ch + t[k:])
            elif m == 1 and t:
                c.append(t[:k] + t[k + 1:])
            else:
                c.append(t[:k] + ch + t[k + 1:])
        c.append(t + '\n')
        c.append(t[:-1])
    seen, out = set(), []
    for s in c:
        if s not in seen:
            seen.add(s)
            out.append(s)
    return out


def json_obj_candidates(r, limit):
    """(object, encoded length by construction or None for 'not encodable', comparable)"""
    M = limit
    c = []
    for n in (M - 1, M, M + 1, 2 * M, 0, 1):
        c.append((['a' * max(n - 4, 0)], max(n, 4)))        # ["aaa"]        -> n characters
        c.append(({'k': 'a' * max(n - 9, 0)}, max(n, 9)))   # {"k": "aaa"}   -> n characters
    for n in (M // 3 - 1, M // 3, M // 3 + 1):
        c.append(([0] * n, 3 * n))                          # [0, 0, 0]      -> 3n characters
    c += [({}, 2), ([], 2), ({'a': [1, 2, {'b': None}]}, 26), (0, 1), (True, 4), ({'n': 1}, 8)]
    c += [({1, 2}, None), (b'bytes', None), (object(), None), ({'a': {1, 2}}, None), ([b'x'], None)]
    return c


def json_eval(env, case, kind, verdict, accepted, stored_ok, exc, reenc_bad):
    ctx = env.ctx
    ctx.count(f'json:{kind}:{case["entry"]}')
    ctx.count('verdict:' + verdict)
    ctx.seen(['json', kind, case['entry'], case['repr']], verdict != UNSPEC)
    w = dict(case, verdict=verdict, accepted=accepted, exception=exc)
    where = f'{kind} via {case["entry"]}'
    if verdict == OUT and accepted:
        ctx.violation(f'C16/json-{kind}-accepts-out-of-domain', f'{where}: invalid or oversized data was accepted', w)
    elif verdict == IN and not accepted:
        ctx.violation(f'C16/json-{kind}-rejects-in-domain', f'{where}: valid data within the size limit was rejected', w)
    elif verdict == IN:
        ctx.count('agree:accepted-in')
    elif verdict == OUT:
        ctx.count('agree:rejected-out')
    if accepted:
        ctx.count('clause:stored-equals-input')
        if stored_ok is not True:
            ctx.violation(f'C16/json-{kind}-stored-differs', f'{where}: stored data differs from the accepted input',
                          dict(w, stored=stored_ok))
        ctx.count('clause:reencode-accepted')
        if reenc_bad and verdict != OUT:
            ctx.violation(f'C16/json-{kind}-reencode-rejected',
                          f'{where}: accepted data is rejected or changed when decoded again', dict(w, reencode=reenc_bad))


def short(s):
    if isinstance(s, str) and len(s) > 120:
        return {'len': len(s), 'head': s[:60], 'tail': s[-30:]}
    return s


def rebuild_text(rep):
    if isinstance(rep, dict) and 'parts' in rep:
        return ''.join(p if isinstance(p, str) else p[0] * p[1] for p in rep['parts'])
    return rep


def compress(s):
    """replayable compact description of a long string: runs of one character become [c, n]"""
    if not isinstance(s, str) or len(s) <= 200:
        return s
    parts, i = [], 0
    while i < len(s):
        j = i
        while j < len(s) and s[j] == s[i]:
            j += 1
        if j - i > 8:
            parts.append([s[i], j - i])
        elif parts and isinstance(parts[-1], str):
            parts[-1] += s[i:j]
        else:
            parts.append(s[i:j])
        i = j
    return {'parts': parts}


def sibling_blob(env, src_kind, n):
    """a blob object of another JSON class whose text is n characters long"""
    return env.json_classes[src_kind](['a' * (n - 4)])


def json_case(env, r, kind, prop, entry, data, verdict, expect_obj, elem_kind, obj_index=None, sibling=None):
    """run one JSON blob case; data is text or object"""
    cls = env.json_classes[kind]
    case = {'family': 'json', 'kind': kind, 'entry': entry, 'repr': compress(data) if isinstance(data, str) else repr(data)[:200],
            'elem_kind': elem_kind}
    if obj_index is not None:
        case['obj_index'] = obj_index
    if sibling is not None:
        case['sibling'] = list(sibling)
        case['repr'] = '%s object of %d characters' % tuple(sibling)
    accepted, exc, stored_ok, reenc_bad = False, None, True, None
    is_text = isinstance(data, str)
    try:
        if entry in ('class:text', 'class:object', 'sliver_setter'):
            inst = cls(data)
            if entry == 'sliver_setter':
                sl = env.sliver_classes['NodeSliver'][0]()
                sl.set_property(prop, inst)
                inst = sl.get_property(prop)
            accepted = True
            if is_text:
                if inst.json != data:
                    stored_ok = short(inst.json)
            elif expect_obj is not None and inst.data != expect_obj:
                stored_ok = short(inst.json)
            try:
                again = cls(inst.json)
                if again.json != inst.json:
                    reenc_bad = 'decoded again differs'
            except Exception as e:
                reenc_bad = exc_text(e)
        else:
            fx = env.fixture()
            elem = fx.elems[elem_kind]
            gp = {'user_data': env.C.PROP_USER_DATA, 'layout_data': env.C.PROP_LAYOUT_DATA,
                  'mf_data': env.C.PROP_MEAS_DATA}[prop]
            before = fx.graph_prop(elem, gp)
            try:
                if entry == 'elem_set_property':
                    elem.set_property(prop, cls(data))
                elif entry == 'elem_assign:instance':
                    setattr(elem, prop, cls(data))
                else:
                    setattr(elem, prop, data)
            except Exception:
                env.ctx.count('clause:not-stored-after-rejection')
                if fx.graph_prop(elem, gp) != before:
                    env.ctx.violation(f'C16/json-{kind}-stored-despite-rejection',
                                      'the element rejected the data but the stored data changed', case)
                raise
            accepted = True
            raw = fx.graph_prop(elem, gp)
            if is_text and raw != data:
                stored_ok = short(raw)
            try:
                got = getattr(elem, prop)
                if expect_obj is not None and got != expect_obj:
                    stored_ok = short(repr(got))
            except Exception as e:
                reenc_bad = 'reading the element back: ' + exc_text(e)
    except Exception as e:
        exc = exc_text(e)
    json_eval(env, case, kind, verdict, accepted, stored_ok, exc, reenc_bad)


def json_round(env, r, quick):
    ctx = env.ctx
    kinds = list(ELEM_KINDS)
    kk = 0
    for prop, kind in JSON_PROPS.items():
        if kind not in env.json_classes:
            continue
        limit = R.JSON_LIMITS[kind]
        for ti, text in enumerate(json_text_candidates(r, limit, quick)):
            v = R.json_text(kind, text)
            expect = None
            if v == IN:
                try:
                    expect = json.loads(text)      # harness side: only to compare .data of an accepted member
                except Exception:
                    expect = None
            for j, entry in enumerate(('class:text', 'sliver_setter', 'elem_assign:text', 'elem_assign:instance',
                                       'elem_set_property')):
                if entry.startswith('elem') and ti > 40 and (ti + j) % 3 != 0:
                    continue
                kk += 1
                json_case(env, r, kind, prop, entry, text, v, expect, kinds[kk % len(kinds)])
        for oi, (obj, n) in enumerate(json_obj_candidates(r, limit)):
            v = OUT if n is None or n > limit else IN
            for entry in ('class:object', 'elem_assign:object'):
                kk += 1
                json_case(env, r, kind, prop, entry, obj, v, obj if n is not None else None, kinds[kk % len(kinds)], oi)
        # a blob object of one of the other classes offered as the data: whether that is taken is left open, but what is
        # stored never exceeds the limit of the class it is stored as
        for src_kind in JSON_PROPS.values():
            if src_kind == kind or src_kind not in env.json_classes:
                continue
            for n in sorted({8, limit, limit + 1, R.JSON_LIMITS[src_kind]}):
                if n > R.JSON_LIMITS[src_kind]:
                    continue
                v = OUT if n > limit else UNSPEC
                for entry in ('class:object', 'sliver_setter', 'elem_assign:object', 'elem_set_property'):
                    kk += 1
                    ctx.count('json:sibling-blob')
                    src = sibling_blob(env, src_kind, n)
                    json_case(env, r, kind, prop, entry, src, v, src.data, kinds[kk % len(kinds)], sibling=(src_kind, n))
        # None means "no data": documented default is an empty JSON object
        inst = env.json_classes[kind](None)
        if inst.json != '{}':
            ctx.violation(f'C16/json-{kind}-stored-differs', 'no data must be stored as {}', {'kind': kind, 'stored': inst.json})
        if ctx.out_of_time():
            return


# ======================================================================================== driver
def run(ctx):
    env = Env(ctx)
    r = ctx.rng
    rounds = ctx.pick(1, 8)
    for i in range(rounds):
        quick = ctx.quick
        labels_round(env, r, quick)
        tags_round(env, r, quick)
        names_round(env, r, quick)
        boot_round(env, r, quick)
        json_round(env, r, quick)
        ctx.info['rounds_completed'] = i + 1
        if ctx.out_of_time():
            break


def replay(ctx, case):
    env = Env(ctx)
    r = ctx.rng
    w = dict(case['witness'])
    fam = w.get('family')
    for k in ('verdict', 'accepted', 'exception', 'stored', 'reencode'):
        w.pop(k, None)
    if fam == 'labels':
        eval_label(env, r, w)
    elif fam == 'tags':
        eval_tags(env, r, w)
    elif fam == 'names':
        eval_name(env, r, w)
    elif fam == 'boot':
        eval_boot(env, r, w)
    elif fam == 'json':
        kind = w['kind']
        prop = next(p for p, k in JSON_PROPS.items() if k == kind)
        if w.get('sibling'):
            src_kind, n = w['sibling']
            src = sibling_blob(env, src_kind, n)
            json_case(env, r, kind, prop, w['entry'], src, OUT if n > R.JSON_LIMITS[kind] else UNSPEC, src.data,
                      w.get('elem_kind', 'Node'), sibling=(src_kind, n))
        elif w.get('obj_index') is not None:
            limit = R.JSON_LIMITS[kind]
            data, n = json_obj_candidates(r, limit)[w['obj_index']]
            v = OUT if n is None or n > limit else IN
            json_case(env, r, kind, prop, w['entry'], data, v, data if n is not None else None,
                      w.get('elem_kind', 'Node'), w['obj_index'])
        else:
            data = rebuild_text(w['repr'])
            json_case(env, r, kind, prop, w['entry'], data, R.json_text(kind, data), None, w.get('elem_kind', 'Node'))
    else:
        ctx.mark_inconclusive('cannot replay this witness')
