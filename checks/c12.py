"""C12 - delegations and pools survive encoding and regrouping unchanged.

Oracle = structural equality through the public getters against the harness' own
bookkeeping of what the generator built (plain dicts/lists; never the library's
__eq__), in four workloads:

 1. round trip of generated Delegations (all three DelegationFormat values, both
    DelegationType values, 1..4 ids) through to_json/from_json (+ re-encoding);
 2. rejection probes (mixing label/capacity content, duplicate ids, details on a
    reference) - any exception is a rejection, the exact class is recorded;
 3. pool families: Pools -> build_index_by_delegation_id/validate_pools ->
    generate_delegations_by_node_id -> per node to_json/from_json ->
    incorporate_delegation into fresh Pools;
 4. the same through a graph: SubstrateTopology.single_delegation and
    ARM.annotate_delegations_and_pools, read back by three paths.
"""
import json
import os

PROPERTY = 'C12'
LEVEL = 'exploration'
SHARDS = {'quick': 4, 'thorough': 16}
TIME_BUDGET = {'quick': 45, 'thorough': 700}
RULE = ('(1) delegation sets: 1..4 delegation ids per set, each entry SinglePool / PoolDefinition / PoolReference, type '
        'LABEL or CAPACITY, ids and pool names from a hostile alphabet (unicode, quotes, JSON keywords, the wire-format '
        'key names, empty string), details over all Labels/Capacities fields discovered at run time (non-empty values, '
        'scalars and lists); (2) rejection probes over the same generators; (3) pool families: 1..4 pools x LABEL/CAPACITY '
        'x defining node x non-empty reference sets over 2..6 nodes x 1..3 delegation ids, built through the Pool '
        'constructor / setters / Pools.get_pool_by_id auto-creation, about half representable (per type and delegation id '
        'the node sets of the pools are disjoint) and half random, plus single-resource delegations under other ids on the '
        'same nodes; (4) small SubstrateTopology (1..2 servers with GPU/SmartNIC components, a stitch switch with 2..5 '
        'ports) delegated with single_delegation or annotate_delegations_and_pools. A case is distinct by its full '
        'generated specification; non-trivial = a set with >=1 entry / a probe that reached the guarded call / a family '
        'with >=1 pool with >=1 reference node / a graph with >=1 delegated node.')
REQUIRED = ['op:roundtrip', 'fmt:SinglePool', 'fmt:PoolDefinition', 'fmt:PoolReference', 'type:LABEL', 'type:CAPACITY',
            'clause:roundtrip-equal', 'clause:reencode-same-text', 'clause:empty-set',
            'rej:label-into-capacity', 'rej:capacity-into-label', 'rej:details-on-reference', 'rej:duplicate-id',
            'rej:other-type-delegation', 'rej:xtype-json', 'rej:pool-into-other-pools',
            'rej:delegations-into-other-pools', 'rej:pool-details-wrong-type',
            'op:family', 'fam:representable', 'fam:unrepresentable', 'fam:defines-one-references-another',
            'fam:pools-sharing-delegation-id', 'clause:per-node-definition-and-references',
            'clause:node-roundtrip', 'clause:reconstruct-equal', 'clause:delegation-id-after-each-node',
            'clause:regenerate-equal',
            'op:graph-single_delegation', 'op:graph-annotate', 'clause:graph-readback', 'clause:graph-pools-reconstruct',
            'graph:overlap-probe']
ASSUMPTIONS = ['delegation ids, pool names and node ids are str; detail values are valid for Labels/Capacities and '
               'non-empty (an all-zero Capacities has no wire representation: to_json asserts)',
               'a pool named "_" (the wire sentinel of a single-resource delegation) is probed separately under its own '
               'mechanism key',
               'any exception counts as "rejected"; the class is recorded in the evidence, not demanded',
               'graphs are the in-memory NetworkX store; GraphML/Neo4j persistence of the JSON text is C01/C19',
               'held on the executions observed, not a proof']

FORMATS = ['SinglePool', 'PoolDefinition', 'PoolReference']
TYPES = ['LABEL', 'CAPACITY']
# C12_SENTINEL=0 downgrades the sentinel-name probe to a counter (used while validating the mutants, so that
# the always-firing finding does not mask whether the other oracle clauses catch a mutant)
SENTINEL_POOL_IS_VIOLATION = os.environ.get('C12_SENTINEL', '1') != '0'


# ----------------------------------------------------------------------------------------------
# library access (late imports: boot.setup() must have run)
def L():
    import fim.slivers.delegations as D
    import fim.slivers.capacities_labels as CL
    return D, CL


def T(name):
    return L()[0].DelegationType[name]


def F(name):
    return L()[0].DelegationFormat[name]


def other(tname):
    return 'CAPACITY' if tname == 'LABEL' else 'LABEL'


def defaults(tname):
    D, CL = L()
    return dict(vars(CL.Labels() if tname == 'LABEL' else CL.Capacities()))


def mk_details(tname, kw):
    D, CL = L()
    return CL.Labels(**kw) if tname == 'LABEL' else CL.Capacities(**kw)


def full(tname, kw):
    d = defaults(tname)
    d.update(kw)
    return d


def compact(kw):
    """what to_dict documents: the non-empty fields"""
    return {k: v for k, v in kw.items() if not (v is None or (isinstance(v, int) and v == 0))}


def _v(ctx, key, clause, witness):
    """clauses may quote exception messages with hostile ids: keep them printable on any stdout"""
    ctx.violation(key, str(clause).encode('ascii', 'backslashreplace').decode('ascii'), witness)


def is_lib_exc(e):
    return type(e).__module__.startswith('fim.')


# ----------------------------------------------------------------------------------------------
# generators
HOSTILE = ['del1', 'primary', 'a b', '', 'pool', 'pool_id', 'labels', 'capacities', 'None', 'null', 'true', '0',
           'éß', ' ', 'x"y', "x'y", 'x\\y', 'x\ny', '{}', '[]', '{"pool": "p"}', ' lead', 'trail ',
           '\U0001f600', '\ud800', 'A' * 200, '__', '_ ', 'Pool', '\u0000z', '\t']


def gen_name(rng, prefix, forbid=()):
    for _ in range(50):
        r = rng.random()
        if r < 0.45:
            s = f'{prefix}{rng.randrange(6)}'
        elif r < 0.75:
            s = rng.choice(HOSTILE)
        elif r < 0.9:
            s = '%08x-%04x-%04x' % (rng.getrandbits(32), rng.getrandbits(16), rng.getrandbits(16))
        else:
            s = ''.join(rng.choice('ab_-/ .:é中"\\') for _ in range(rng.randrange(1, 9)))
        if s not in forbid:
            return s
    return prefix + '-fallback-%d' % rng.getrandbits(30)


def gen_pool_name(rng, forbid=()):
    return gen_name(rng, 'pool', tuple(forbid) + ('_',))


FREE_TEXT = ['x', 'p1', 'HundredGigE0/0/0/25.1', 'a b', 'é', 'q"q', "q'q", 'b\\s', 'None', '0', '{"a": 1}', '中文',
             'line\nbreak', ' ']


def _ipv4(rng):
    return '.'.join(str(rng.randrange(256)) for _ in range(4))


def _ipv6(rng):
    return rng.choice(['2001:0db8:85a3:0000:0000:8a2e:0370:7334', '2001:db8::1', '::1', 'fe80::%x' % rng.getrandbits(16),
                       ':'.join('%x' % rng.getrandbits(16) for _ in range(8))])


def _vlan_range(rng):
    a = rng.randrange(0, 4097)
    b = rng.randrange(a, 4097)
    if len(str(a)) > 4 or len(str(b)) > 4:
        a, b = 1, 4096
    return f'{a}-{b}'


LABEL_GEN = {
    'bdf': lambda r: '%04x:%02x:%02x.%x' % (r.getrandbits(16), r.getrandbits(8), r.getrandbits(8), r.getrandbits(3)),
    'mac': lambda r: ':'.join('%02X' % r.getrandbits(8) for _ in range(6)),
    'ipv4': _ipv4,
    'ipv4_range': lambda r: _ipv4(r) + '-' + _ipv4(r),
    'ipv4_subnet': lambda r: _ipv4(r) + '/%d' % r.randrange(0, 33),
    'ipv6': _ipv6,
    'ipv6_range': lambda r: _ipv6(r) + '-' + _ipv6(r),
    'ipv6_subnet': lambda r: r.choice(['2001:0db8:85a3:0000:0000/48', '2001:db8::/32', 'fe80::/%d' % r.randrange(1, 99)]),
    'asn': lambda r: str(r.choice([1, 65000, 2 ** 32 - 1, r.randrange(1, 2 ** 32)])),
    'vlan': lambda r: str(r.randrange(0, 4097)),
    'vlan_range': _vlan_range,
    'inner_vlan': lambda r: str(r.randrange(0, 4097)),
    'bgp_key': lambda r: r.choice(['0xzsEwC7xk6c1fK_h.xHyAdx', 'abc:def/ghi+jkl-mno', 'kéy_wörd', 'A' * 150]),
    'account_id': lambda r: r.choice(['254766209814', '3e2480b2-b4d5-3456-976a-7b0de65a1b62',
                                      '7e51371e-1234-40b5-b844-2e3efefaee59/us-central1/2', 'abc']),
    'region': lambda r: r.choice(['us-east-1', 'us-central1', 'eu.west', 'abc']),
    'usb_id': lambda r: '%04x:%04x' % (r.getrandbits(16), r.getrandbits(16)),
    'numa': lambda r: str(r.randrange(-1, 8)),
}
for _f in ('instance', 'instance_parent', 'local_name', 'local_type', 'device_name'):
    LABEL_GEN[_f] = lambda r: r.choice(FREE_TEXT)
CAP_VALUES = [1, 1, 2, 7, 100, 4096, 2 ** 16, 2 ** 31, 2 ** 63, 2 ** 70]

_vocab = {}


def vocab(ctx=None):
    """Field lists discovered from fresh objects; a label field the generator cannot fill is reported."""
    if _vocab:
        return _vocab
    D, CL = L()
    _vocab['LABEL'] = list(vars(CL.Labels()))
    _vocab['CAPACITY'] = list(vars(CL.Capacities()))
    usable = []
    import random
    r = random.Random(1)
    for f in _vocab['LABEL']:
        g = LABEL_GEN.get(f, lambda rr: 'x1')
        try:
            for _ in range(20):
                CL.Labels(**{f: g(r)})
                CL.Labels(**{f: [g(r), g(r)]})
            usable.append(f)
        except Exception:
            pass
    _vocab['LABEL_USABLE'] = usable
    if ctx is not None:
        ctx.info['label_fields'] = _vocab['LABEL']
        ctx.info['capacity_fields'] = _vocab['CAPACITY']
        ctx.info['label_fields_not_generated'] = [f for f in _vocab['LABEL'] if f not in usable]
        ctx.info['formats'] = [m.name for m in D.DelegationFormat]
        if sorted(m.name for m in D.DelegationFormat) != sorted(FORMATS):
            ctx.mark_inconclusive('DelegationFormat has members the workload does not know: '
                                  + repr([m.name for m in D.DelegationFormat]))
        if sorted(m.name for m in D.DelegationType) != sorted(TYPES):
            ctx.mark_inconclusive('DelegationType has members the workload does not know')
        if len(usable) * 2 < len(_vocab['LABEL']):
            ctx.mark_inconclusive('fewer than half of the Labels fields could be generated')
    return _vocab


def gen_kw(rng, tname, fields=None):
    V = vocab()
    if tname == 'CAPACITY':
        fs = fields or V['CAPACITY']
        k = rng.randrange(1, min(len(fs), 5) + 1) if rng.random() < 0.8 else len(fs)
        kw = {}
        for f in rng.sample(fs, k):
            kw[f] = rng.choice(CAP_VALUES) if rng.random() < 0.6 else rng.randrange(1, 2 ** rng.randrange(1, 40))
        if rng.random() < 0.15:     # an explicitly zero field next to non-zero ones
            kw[rng.choice(fs)] = 0
            if not any(kw.values()):
                kw[fs[0]] = 1
        return kw
    fs = fields or V['LABEL_USABLE']
    k = rng.randrange(1, min(len(fs), 4) + 1) if rng.random() < 0.85 else len(fs)
    kw = {}
    for f in rng.sample(fs, k):
        g = LABEL_GEN.get(f, lambda rr: 'x1')
        kw[f] = g(rng) if rng.random() < 0.6 else [g(rng) for _ in range(rng.randrange(1, 4))]
    return kw


# ----------------------------------------------------------------------------------------------
# observation through public getters
def obs_details(det):
    if det is None:
        return None, None
    return type(det).__name__, dict(vars(det))


def obs_delegation(d):
    cls, det = obs_details(d.get_details())
    return {'id': d.get_delegation_id(), 'type': d.get_delegation_type().name, 'format': d.get_format().name,
            'pool': d.get_pool_name(), 'details_class': cls, 'details': det, 'details_dict': d.get_details_as_dict()}


def obs_delegations(ds):
    ids = ds.get_delegation_ids()
    by = {}
    for i in ids:
        d = ds.get_by_delegation_id(i)
        by[i] = obs_delegation(d) if d is not None else None
    return {'type': ds.type.name, 'ids': sorted(ids, key=repr), 'n_list': len(ds.get_delegations_as_list()), 'by_id': by}


def exp_delegation(tname, did, fmt, pool, kw):
    ref = fmt == 'PoolReference'
    return {'id': did, 'type': tname, 'format': fmt, 'pool': None if fmt == 'SinglePool' else pool,
            'details_class': None if ref else ('Labels' if tname == 'LABEL' else 'Capacities'),
            'details': None if ref else full(tname, kw), 'details_dict': None if ref else compact(kw)}


def exp_delegations(tname, entries):
    return {'type': tname, 'ids': sorted([e[0] for e in entries], key=repr), 'n_list': len(entries),
            'by_id': {e[0]: exp_delegation(tname, *e) for e in entries}}


def diff_delegations(exp, obs):
    """-> None or (clause, delegation id, format of the expected entry)"""
    if obs['type'] != exp['type']:
        return 'type', None, None
    if obs['ids'] != exp['ids'] or obs['n_list'] != exp['n_list']:
        return 'ids', None, None
    for i, e in exp['by_id'].items():
        o = obs['by_id'].get(i)
        if o is None:
            return 'ids', i, e['format']
        for clause, keys in (('id', ['id']), ('type', ['type']), ('format', ['format']), ('pool-name', ['pool']),
                             ('details', ['details_class', 'details', 'details_dict'])):
            if any(o[k] != e[k] for k in keys):
                return clause, i, e['format']
    return None


def build_delegation(tname, did, fmt, pool, kw):
    D, CL = L()
    d = D.Delegation(atype=T(tname), delegation_id=did, aformat=F(fmt), pool_id=None if fmt == 'SinglePool' else pool)
    if fmt != 'PoolReference':
        d.set_details(mk_details(tname, kw))
    return d


def build_delegations(tname, entries, batch=False):
    D, CL = L()
    ds = D.Delegations(atype=T(tname))
    objs = [build_delegation(tname, *e) for e in entries]
    if batch:
        ds.add_delegations(*objs)
    else:
        for o in objs:
            ds.add_delegations(o)
    return ds


# ----------------------------------------------------------------------------------------------
# 1. round trip
def gen_entries(rng, tname, n=None, formats=FORMATS, ids=None):
    n = n or rng.randrange(1, 5)
    out, used = [], set(ids or ())
    pools = [gen_pool_name(rng) for _ in range(2)]
    for _ in range(n):
        did = gen_name(rng, 'del', used)
        used.add(did)
        fmt = rng.choice(formats)
        pool = None if fmt == 'SinglePool' else (rng.choice(pools) if rng.random() < 0.6 else gen_pool_name(rng))
        kw = None if fmt == 'PoolReference' else gen_kw(rng, tname)
        out.append([did, fmt, pool, kw])
    return out


def gen_roundtrip(rng):
    tname = rng.choice(TYPES)
    return {'kind': 'roundtrip', 'type': tname, 'entries': gen_entries(rng, tname), 'batch': rng.random() < 0.3}


def case_roundtrip(ctx, spec):
    D, CL = L()
    tname, entries = spec['type'], spec['entries']
    ctx.count('op:roundtrip')
    ctx.count('type:' + tname)
    for e in entries:
        ctx.count('fmt:' + e[1])
    ctx.seen(spec, len(entries) >= 1)
    w = {'kind': 'roundtrip', 'spec': spec}
    exp = exp_delegations(tname, entries)
    try:
        ds = build_delegations(tname, entries, spec.get('batch', False))
    except Exception as e:
        _v(ctx, 'C12/build-raised', f'building a well-typed delegation set raised {type(e).__name__}: {e}', w)
        return
    pre = obs_delegations(ds)
    d = diff_delegations(exp, pre)
    if d:
        _v(ctx, f'C12/build-{d[0]}:{d[2] or "set"}', 'a freshly built delegation set reports what was put in',
                      dict(w, clause=d[0], delegation_id=d[1], expected=exp, observed=pre))
        return
    try:
        txt = ds.to_json()
    except Exception as e:
        _v(ctx, 'C12/roundtrip-encode-raised', f'to_json raised {type(e).__name__}: {e}', w)
        return
    if not isinstance(txt, str):
        _v(ctx, 'C12/roundtrip-encode-not-text', 'to_json returns text', dict(w, observed=repr(txt)))
        return
    if obs_delegations(ds) != pre:
        _v(ctx, 'C12/encode-mutates-set', 'to_json leaves the delegation set unchanged', dict(w, text=txt))
    try:
        back = D.Delegations.from_json(json_str=txt, atype=T(tname))
    except Exception as e:
        _v(ctx, 'C12/roundtrip-decode-raised', f'from_json(to_json(ds)) raised {type(e).__name__}: {e}',
                      dict(w, text=txt))
        return
    ctx.count('clause:roundtrip-equal')
    if back is None:
        _v(ctx, 'C12/roundtrip-decode-none', 'a non-empty set decodes to a set', dict(w, text=txt))
        return
    ob = obs_delegations(back)
    d = diff_delegations(exp, ob)
    if d:
        _v(ctx, f'C12/roundtrip-{d[0]}:{d[2] or "set"}', f'decoded set has the same {d[0]}',
                      dict(w, clause=d[0], delegation_id=d[1], text=txt, expected=exp, observed=ob))
        return
    ctx.count('clause:reencode-same-text')
    try:
        txt2 = back.to_json()
    except Exception as e:
        _v(ctx, 'C12/reencode-raised', f'to_json of the decoded set raised {type(e).__name__}: {e}', dict(w, text=txt))
        return
    if txt2 != txt:
        _v(ctx, 'C12/reencode-text-differs', 're-encoding the decoded set gives the same text',
                      dict(w, text=txt, text2=txt2))
    # a second generation decodes to the same again (whatever the library derived, judged against itself)
    try:
        back2 = D.Delegations.from_json(json_str=txt2, atype=T(tname))
        if back2 is None or obs_delegations(back2) != ob:
            _v(ctx, 'C12/second-generation-differs', 'decoding the re-encoded text gives the same set again',
               dict(w, text=txt, text2=txt2))
    except Exception as e:
        _v(ctx, 'C12/second-generation-raised', f'decoding the re-encoded text raised {type(e).__name__}: {e}',
           dict(w, text2=txt2))
        return
    # every decode gives a set of its own: editing list-valued details of one decoded set (the ordinary read-modify-write) does not
    # show in the next decode of the same text
    edited = 0
    import copy as _copy
    ob = _copy.deepcopy(ob)          # (the observation may hold the very list objects that are edited next)
    for dl in back.get_delegations_as_list():
        det = dl.get_details()
        for k, v in (det.__dict__.items() if det is not None else ()):
            if isinstance(v, list):
                v.append('__edited__')
                edited += 1
    if edited:
        ctx.count('clause:decodes-are-independent')
        try:
            again = D.Delegations.from_json(json_str=txt, atype=T(tname))
            if again is None or obs_delegations(again) != ob:
                _v(ctx, 'C12/decode-shares-details-with-earlier-decode', 'a delegation set decodes back to the same delegations with the same '
                   'details - whatever was done to a set decoded from that text earlier', dict(w, text=txt, observed=obs_delegations(again) if again else None))
        except Exception as e:
            _v(ctx, 'C12/roundtrip-decode-raised', f'decoding the same text again raised {type(e).__name__}: {e}', dict(w, text=txt))


def case_empty(ctx, spec):
    D, CL = L()
    tname = spec['type']
    ctx.count('clause:empty-set')
    ctx.seen(spec, False)
    w = {'kind': 'empty', 'spec': spec}
    try:
        ds = D.Delegations(atype=T(tname))
        txt = ds.to_json()
        back = D.Delegations.from_json(json_str=txt, atype=T(tname))
        if back is None:
            ctx.count('empty-set-decodes-to-None')
        else:
            ctx.count('empty-set-decodes-to-empty-set')
            if back.get_delegation_ids() or back.get_delegations_as_list():
                _v(ctx, 'C12/empty-set-not-empty', 'an empty set decodes to no delegations',
                              dict(w, text=txt, observed=obs_delegations(back)))
            elif back.to_json() != txt:
                _v(ctx, 'C12/empty-set-reencode-differs', 're-encoding an empty set gives the same text',
                              dict(w, text=txt, text2=back.to_json()))
        for absent in (None, '', 'None'):
            r = D.Delegations.from_json(json_str=absent, atype=T(tname))
            if r is not None and (r.get_delegation_ids() or r.get_delegations_as_list()):
                _v(ctx, 'C12/absent-text-decodes-to-delegations', 'absent text decodes to nothing',
                              dict(w, text=absent, observed=obs_delegations(r)))
    except Exception as e:
        _v(ctx, 'C12/empty-set-raised', f'empty-set convention raised {type(e).__name__}: {e}', w)


def case_sentinel(ctx, spec):
    """A pool whose name equals the wire sentinel of the single-resource format."""
    D, CL = L()
    tname, fmt = spec['type'], spec['format']
    sentinel = spec['pool']
    ctx.count('op:sentinel-pool-name')
    ctx.seen(spec, True)
    w = {'kind': 'sentinel', 'spec': spec}
    entries = [['del1', fmt, sentinel, None if fmt == 'PoolReference' else spec['kw']]]
    try:
        ds = build_delegations(tname, entries)
        txt = ds.to_json()
    except Exception as e:
        ctx.count('sentinel-pool-name-rejected')
        ctx.info['sentinel-pool-name-rejected-with'] = [type(e).__name__]
        return
    try:
        back = D.Delegations.from_json(json_str=txt, atype=T(tname))
        d = diff_delegations(exp_delegations(tname, entries), obs_delegations(back))
    except Exception as e:
        d = ('raised ' + type(e).__name__, None, fmt)
        back = None
    if d:
        ctx.count('sentinel-pool-name-changed')
        if SENTINEL_POOL_IS_VIOLATION:
            _v(ctx, f'C12/pool-named-like-single-sentinel:{fmt}',
                          f'a {fmt} for a pool named {sentinel!r} is accepted but decodes with a different {d[0]}',
                          dict(w, text=txt, clause=d[0], observed=obs_delegations(back) if back is not None else None))


# ----------------------------------------------------------------------------------------------
# 2. rejections
PROBES = ['label-into-capacity', 'capacity-into-label', 'details-on-reference', 'duplicate-id', 'other-type-delegation',
          'xtype-json', 'pool-into-other-pools', 'delegations-into-other-pools', 'pool-details-wrong-type',
          'text-details-on-reference', 'text-duplicate-id', 'text-mixed-content']


def gen_reject(rng, probe=None):
    probe = probe or rng.choice(PROBES)
    s = {'kind': 'reject', 'probe': probe}
    if probe in ('label-into-capacity', 'capacity-into-label'):
        target = 'CAPACITY' if probe == 'label-into-capacity' else 'LABEL'
        s.update(type=target, format=rng.choice(['SinglePool', 'PoolDefinition']), id=gen_name(rng, 'del'),
                 pool=gen_pool_name(rng), wrong=gen_kw(rng, other(target)),
                 right=gen_kw(rng, target) if rng.random() < 0.5 else None)
    elif probe == 'details-on-reference':
        t = rng.choice(TYPES)
        dt = t if rng.random() < 0.7 else other(t)
        s.update(type=t, id=gen_name(rng, 'del'), pool=gen_pool_name(rng), details_type=dt, kw=gen_kw(rng, dt))
    elif probe == 'duplicate-id':
        t = rng.choice(TYPES)
        entries = gen_entries(rng, t, n=rng.randrange(1, 4))
        k = rng.randrange(len(entries))
        dup = gen_entries(rng, t, n=1)[0]
        dup[0] = entries[k][0]
        if rng.random() < 0.3:      # an exact copy
            dup = list(entries[k])
        s.update(type=t, entries=entries, dup=dup, mode=rng.choice(['separate', 'same-call', 'same-object', 'batch-internal']))
    elif probe == 'other-type-delegation':
        t = rng.choice(TYPES)
        s.update(type=t, entries=gen_entries(rng, t, n=rng.randrange(0, 3)) if rng.random() < 0.7 else [],
                 alien=gen_entries(rng, other(t), n=1)[0])
        s['alien'][0] = gen_name(rng, 'alien', [e[0] for e in s['entries']])
    elif probe == 'xtype-json':
        t = rng.choice(TYPES)
        entries = gen_entries(rng, t)
        if all(e[1] == 'PoolReference' for e in entries):
            entries[0] = gen_entries(rng, t, n=1, formats=['SinglePool', 'PoolDefinition'], ids=[e[0] for e in entries[1:]])[0]
        s.update(type=t, entries=entries)
    elif probe in ('text-details-on-reference', 'text-duplicate-id', 'text-mixed-content'):
        # the same three rules when the delegations arrive as text: a well-formed set, edited as text
        t = rng.choice(TYPES)
        s.update(type=t, entries=gen_entries(rng, t, n=rng.randrange(1, 4)), at=rng.randrange(4), dt=t if rng.random() < 0.6 else other(t),
                 kw=gen_kw(rng, t), okw=gen_kw(rng, other(t)), pool=gen_pool_name(rng), id=gen_name(rng, 'tdel'))
    elif probe == 'pool-into-other-pools':
        t = rng.choice(TYPES)
        s.update(type=t, pool=gen_pool_name(rng), id=gen_name(rng, 'del'), kw=gen_kw(rng, other(t)),
                 with_details=rng.random() < 0.6)
    elif probe == 'delegations-into-other-pools':
        t = rng.choice(TYPES)
        s.update(type=t, node=gen_name(rng, 'node'),
                 entries=gen_entries(rng, other(t), formats=['PoolDefinition', 'PoolReference']))
    elif probe == 'pool-details-wrong-type':
        t = rng.choice(TYPES)
        s.update(type=t, pool=gen_pool_name(rng), id=gen_name(rng, 'del'), kw=gen_kw(rng, other(t)),
                 on='n0', for_=['n1', 'n2'][:rng.randrange(1, 3)])
    return s


def case_reject(ctx, s):
    D, CL = L()
    probe = s['probe']
    w = {'kind': 'reject', 'spec': s}
    ctx.seen(s, True)

    def rejected(e):
        ctx.count('rej:' + probe)
        key = 'rejected-with:' + probe
        cur = ctx.info.setdefault(key, [])
        if type(e).__name__ not in cur:
            cur.append(type(e).__name__)

    def accepted(what, **extra):
        ctx.count('rej:' + probe)
        _v(ctx, f'C12/accepted-{probe}' + (':' + extra.pop('shape') if 'shape' in extra else ''), what, dict(w, **extra))

    try:
        if probe in ('label-into-capacity', 'capacity-into-label'):
            t = s['type']
            d = D.Delegation(atype=T(t), delegation_id=s['id'], aformat=F(s['format']),
                             pool_id=None if s['format'] == 'SinglePool' else s['pool'])
            right = None
            if s['right'] is not None:
                right = mk_details(t, s['right'])
                d.set_details(right)
            wrong = mk_details(other(t), s['wrong'])
            try:
                d.set_details(wrong)
            except Exception as e:
                rejected(e)
                if d.get_details() is not right:
                    _v(ctx, f'C12/rejected-but-stored-{probe}', 'a rejected set_details leaves the details unchanged',
                                  dict(w, observed=obs_delegation(d)))
                return
            accepted(f'{other(t)} details are accepted by a {t} delegation', observed=obs_delegation(d))
        elif probe == 'details-on-reference':
            t = s['type']
            d = D.Delegation(atype=T(t), delegation_id=s['id'], aformat=F('PoolReference'), pool_id=s['pool'])
            try:
                d.set_details(mk_details(s['details_type'], s['kw']))
            except Exception as e:
                rejected(e)
                if d.get_details() is not None or d.get_details_as_dict() is not None:
                    _v(ctx, 'C12/rejected-but-stored-details-on-reference',
                                  'a rejected set_details leaves the reference without details',
                                  dict(w, observed=obs_delegation(d)))
                return
            accepted('details are accepted by a pool reference', observed=obs_delegation(d))
        elif probe == 'duplicate-id':
            t = s['type']
            ds = build_delegations(t, s['entries'])
            before = obs_delegations(ds)
            first = ds.get_by_delegation_id(s['dup'][0])
            dupo = first if s['mode'] == 'same-object' else build_delegation(t, *s['dup'])
            try:
                if s['mode'] == 'batch-internal':
                    # both duplicates arrive in ONE call and their id is not in the set yet
                    ctx.count('rej:duplicate-id:batch-internal')
                    fresh = gen_extra_entry(s)
                    d1 = build_delegation(t, *fresh)
                    second = list(s['dup'])
                    second[0] = fresh[0]
                    d2 = build_delegation(t, *second)
                    first = None
                    ds.add_delegations(d1, d2)
                elif s['mode'] == 'same-call':
                    extra = build_delegation(t, *gen_extra_entry(s))
                    ds.add_delegations(extra, dupo)
                else:
                    ds.add_delegations(dupo)
            except Exception as e:
                rejected(e)
                if first is not None and ds.get_by_delegation_id(s['dup'][0]) is not first:
                    _v(ctx, 'C12/rejected-but-stored-duplicate-id', 'a rejected duplicate leaves the first entry in place',
                                  dict(w, before=before, observed=obs_delegations(ds)))
                return
            accepted('a second delegation with an id already present is accepted', shape=s['mode'],
                     before=before, observed=obs_delegations(ds))
        elif probe == 'other-type-delegation':
            t = s['type']
            ds = build_delegations(t, s['entries'])
            before = obs_delegations(ds)
            alien = build_delegation(other(t), *s['alien'])
            try:
                ds.add_delegations(alien)
            except Exception as e:
                rejected(e)
                if obs_delegations(ds) != before:
                    _v(ctx, 'C12/rejected-but-stored-other-type-delegation',
                                  'a rejected delegation of the other type is not stored',
                                  dict(w, before=before, observed=obs_delegations(ds)))
                return
            accepted(f'a {other(t)} delegation is accepted by a {t} delegation set', shape=s['alien'][1],
                     observed=obs_delegations(ds))
        elif probe == 'xtype-json':
            t = s['type']
            txt = build_delegations(t, s['entries']).to_json()
            try:
                back = D.Delegations.from_json(json_str=txt, atype=T(other(t)))
            except Exception as e:
                rejected(e)
                return
            accepted(f'the text of a {t} delegation set with details decodes as a {other(t)} set', text=txt,
                     observed=obs_delegations(back) if back is not None else None)
        elif probe in ('text-details-on-reference', 'text-duplicate-id', 'text-mixed-content'):
            t = s['type']
            field = {'LABEL': 'labels', 'CAPACITY': 'capacities'}
            good = build_delegations(t, s['entries']).to_json()
            items = list(json.loads(good).items())            # [(id, entry dict)] in the library's own spelling
            det = json.loads(mk_details(t, s['kw']).to_json() or '{}')
            odet = json.loads(mk_details(other(t), s['okw']).to_json() or '{}')
            if not det or not odet:
                ctx.count('rej-skip:empty-details')
                return
            at = s['at'] % (len(items) + 1)
            if probe == 'text-details-on-reference':
                items.insert(at, (s['id'], {'pool': s['pool'], field[s['dt']]: det if s['dt'] == t else odet}))
            elif probe == 'text-duplicate-id':
                k = items[s['at'] % len(items)][0]
                items.insert(at, (k, {'pool_id': '_', field[t]: det}))
            else:
                items.insert(at, (s['id'], {'pool_id': '_', field[t]: det, field[other(t)]: odet}))
            txt = '{' + ', '.join(json.dumps(k) + ': ' + json.dumps(v) for k, v in items) + '}'
            try:
                back = D.Delegations.from_json(json_str=txt, atype=T(t))
            except Exception as e:
                rejected(e)
                return
            accepted({'text-details-on-reference': 'details on a reference are accepted when the delegations arrive as text',
                      'text-duplicate-id': 'a repeated delegation id is accepted when the delegations arrive as text',
                      'text-mixed-content': 'an entry carrying label and capacity content is accepted when the delegations arrive as text'}[probe],
                     text=txt, observed=obs_delegations(back) if back is not None else None)
        elif probe == 'pool-into-other-pools':
            t = s['type']
            ps = D.Pools(atype=T(t))
            p = D.Pool(atype=T(other(t)), pool_id=s['pool'], delegation_id=s['id'], defined_on='n0', defined_for=['n1'])
            if s['with_details']:
                p.set_pool_details(mk_details(other(t), s['kw']))
            try:
                ps.add_pool(pool=p)
            except Exception as e:
                rejected(e)
                if ps.get_pool_by_id(pool_id=s['pool'], strict=True) is not None:
                    _v(ctx, 'C12/rejected-but-stored-pool-into-other-pools', 'a rejected pool is not stored', w)
                return
            accepted(f'a {other(t)} pool is accepted by {t} Pools')
        elif probe == 'delegations-into-other-pools':
            t = s['type']
            ps = D.Pools(atype=T(t))
            ds = build_delegations(other(t), s['entries'])
            try:
                ps.incorporate_delegation(node_id=s['node'], deleg=ds)
            except Exception as e:
                rejected(e)
                if ps.pool_by_id:
                    _v(ctx, 'C12/rejected-but-stored-delegations-into-other-pools',
                                  'rejected delegations create no pools', dict(w, observed=repr(ps)))
                return
            accepted(f'{other(t)} delegations are incorporated into {t} Pools', observed=repr(ps))
        elif probe == 'pool-details-wrong-type':
            t = s['type']
            try:
                ps = D.Pools(atype=T(t))
                p = D.Pool(atype=T(t), pool_id=s['pool'], delegation_id=s['id'], defined_on=s['on'], defined_for=s['for_'])
                p.set_pool_details(mk_details(other(t), s['kw']))
                ps.add_pool(pool=p)
                ps.build_index_by_delegation_id()
                ps.validate_pools()
                by = ps.generate_delegations_by_node_id()
                txts = {n: ds.to_json() for n, ds in by.items()}
            except Exception as e:
                rejected(e)
                return
            accepted(f'a {t} pool with {other(t)} details is turned into node delegations', observed=txts)
    except Exception as e:
        _v(ctx, f'C12/probe-setup-raised:{probe}', f'the well-typed part of the probe raised {type(e).__name__}: {e}', w)


def gen_extra_entry(s):
    """a fresh, well-formed entry that precedes the duplicate in a same-call add"""
    used = [e[0] for e in s['entries']]
    i = 0
    while f'extra{i}' in used:
        i += 1
    return [f'extra{i}', 'PoolReference', 'xp', None]


def observations(ctx):
    """Hand-written wire text that is not the encoding of any delegation set: recorded, never a verdict."""
    D, CL = L()
    probes = {
        'json-reference-with-details': ('{"d": {"pool": "p1", "labels": {"vlan": "1"}}}', 'LABEL'),
        'json-entry-with-labels-and-capacities': ('{"d": {"pool_id": "_", "labels": {"vlan": "1"}, "capacities": {"cpu": 1}}}',
                                                  'CAPACITY'),
        'json-duplicate-keys': ('{"d": {"pool": "p1"}, "d": {"pool": "p2"}}', 'LABEL'),
        'json-entry-with-pool-and-pool_id': ('{"d": {"pool": "p1", "pool_id": "p2", "labels": {"vlan": "1"}}}', 'LABEL'),
        'json-references-only-decoded-as-other-type': ('{"d": {"pool": "p1"}}', 'CAPACITY'),
        'json-entry-without-pool-keys': ('{"d": {"labels": {"vlan": "1"}}}', 'LABEL'),
    }
    for name, (txt, t) in probes.items():
        try:
            r = D.Delegations.from_json(json_str=txt, atype=T(t))
            ctx.info['observation:' + name] = ['accepted: ' + repr(r)[:200]]
        except Exception as e:
            ctx.info['observation:' + name] = ['rejected with ' + type(e).__name__]
        ctx.count('observations')


# ----------------------------------------------------------------------------------------------
# 3. pool families
def node_sets(pools, tname):
    by = {}
    for p in pools:
        if p['type'] == tname:
            by.setdefault(p['deleg'], []).append(set(p['for']) - {p['on']} | {p['on']})
    return by


def representable(pools, tname):
    for did, sets in node_sets(pools, tname).items():
        seen = set()
        for s in sets:
            if seen & s:
                return False
            seen |= s
    return True


def gen_family(rng, nodes=None, force=None, types=TYPES, max_pools=4, eligible=None):
    """eligible: {type: [nodes usable for pools of that type]} (graph workload)."""
    if nodes is None:
        nodes = []
        for _ in range(rng.randrange(2, 7)):
            nodes.append(gen_name(rng, 'node', nodes))
    k = rng.randrange(1, max_pools + 1)
    delegs = []
    for _ in range(rng.randrange(1, 4)):
        delegs.append(gen_name(rng, 'del', delegs))
    want_rep = force if force is not None else rng.random() < 0.55
    pools, names = [], {t: [] for t in TYPES}
    shape = rng.random()
    for i in range(k):
        t = rng.choice(types)
        el = (eligible or {}).get(t, nodes)
        if len(el) < 2:
            continue
        pid = gen_pool_name(rng, names[t])
        if rng.random() < 0.25 and names[other(t)]:
            cand = rng.choice(names[other(t)])       # same pool name in the other type's container
            if cand not in names[t]:
                pid = cand
        names[t].append(pid)
        for attempt in range(30):
            on = rng.choice(el)
            others = [x for x in el if x != on]
            if shape < 0.35 and pools and attempt < 10:
                # a node that defines this pool and references an earlier one (or the reverse)
                prev = rng.choice(pools)
                if prev['type'] == t:
                    if rng.random() < 0.5 and set(prev['for']) - {prev['on']}:
                        on = rng.choice(sorted(set(prev['for']) - {prev['on']}, key=repr))
                        others = [x for x in el if x != on]
            fr = rng.sample(others, rng.randrange(1, len(others) + 1))
            did = rng.choice(delegs)
            via = rng.choice(['ctor', 'ctor', 'setters', 'autocreate'])
            passed = list(fr)
            if rng.random() < 0.4:
                passed.insert(rng.randrange(len(passed) + 1), on)     # the defining node is implied, naming it changes nothing
            if via == 'ctor' and rng.random() < 0.2:
                passed.append(passed[0])                              # duplicates in the list
            cand = {'type': t, 'pool': pid, 'deleg': did, 'on': on, 'for': passed, 'kw': gen_kw(rng, t), 'via': via}
            if not want_rep or representable(pools + [cand], t):
                pools.append(cand)
                break
            if attempt > 15:
                # cannot place under the existing ids: a fresh delegation id keeps the family representable
                nd = gen_name(rng, 'del', delegs)
                delegs.append(nd)
                cand['deleg'] = nd
                pools.append(cand)
                break
    extras = {}
    if rng.random() < 0.6 and eligible is None:
        for node in rng.sample(nodes, rng.randrange(1, len(nodes) + 1)):
            for t in TYPES:
                if rng.random() < 0.5:
                    used = [p['deleg'] for p in pools if p['type'] == t and (node == p['on'] or node in p['for'])]
                    lst = []
                    for _ in range(rng.randrange(1, 3)):
                        did = gen_name(rng, 'single', used + [x[0] for x in lst])
                        lst.append([did, gen_kw(rng, t)])
                    extras.setdefault(node, {})[t] = lst
    if rng.random() < 0.2 and eligible is None:
        nodes.append(gen_name(rng, 'bystander', nodes))
    return {'kind': 'family', 'nodes': nodes, 'pools': pools, 'extras': extras, 'order': rng.getrandbits(30)}


def build_pools(tname, pools):
    D, CL = L()
    ps = D.Pools(atype=T(tname))
    for p in pools:
        if p['type'] != tname:
            continue
        det = mk_details(tname, p['kw'])
        if p['via'] == 'ctor':
            po = D.Pool(atype=T(tname), pool_id=p['pool'], delegation_id=p['deleg'], defined_on=p['on'],
                        defined_for=list(p['for']))
            po.set_pool_details(det)
            ps.add_pool(pool=po)
        elif p['via'] == 'setters':
            po = D.Pool(atype=T(tname), pool_id=p['pool'])
            po.set_delegation_id(delegation_id=p['deleg'])
            # the reference-node set is given as generated (it may name the defining node, as the constructor allows),
            # before or after the defining node is known
            if len(p['for']) % 2:
                po.set_defined_on(p['on'])
                po.set_defined_for(list(p['for']))
            else:
                po.set_defined_for(list(p['for']))
                po.set_defined_on(p['on'])
            po.set_pool_details(det)
            ps.add_pool(pool=po)
        else:
            po = ps.get_pool_by_id(pool_id=p['pool'])
            po.set_pool_details(det)
            fr = list(p['for'])
            if len(fr) % 2:
                po.set_defined_on(p['on'])
            po.add_defined_for(fr[0])
            if len(fr) > 1:
                po.add_defined_for(fr[1:])
            if not len(fr) % 2:
                po.set_defined_on(p['on'])
            po.set_delegation_id(delegation_id=p['deleg'])
    return ps


def model_pools(tname, pools):
    return {p['pool']: {'type': tname, 'on': p['on'], 'for': sorted(set(p['for']) - {p['on']}, key=repr),
                        'deleg': p['deleg'], 'details_class': 'Labels' if tname == 'LABEL' else 'Capacities',
                        'details': full(tname, p['kw'])}
            for p in pools if p['type'] == tname}


def model_by_node(tname, pools):
    """{node: [entries]} a node may need two entries under one id when the family is not representable"""
    by = {}
    for p in pools:
        if p['type'] != tname:
            continue
        by.setdefault(p['on'], []).append([p['deleg'], 'PoolDefinition', p['pool'], p['kw']])
        for n in sorted(set(p['for']) - {p['on']}, key=repr):
            by.setdefault(n, []).append([p['deleg'], 'PoolReference', p['pool'], None])
    return by


def obs_pools(ps):
    out = {}
    for pid, p in ps.pool_by_id.items():
        cls, det = obs_details(p.get_pool_details())
        out[pid] = {'type': p.get_pool_type().name, 'on': p.get_defined_on(),
                    'for': sorted(set(p.get_defined_for()) - {p.get_defined_on()}, key=repr), 'deleg': p.get_delegation_id(),
                    'details_class': cls, 'details': det, 'pool_id_getter': p.get_pool_id()}
    return out


def diff_pools(exp, obs):
    if sorted(exp, key=repr) != sorted(obs, key=repr):
        return 'pool-ids', None
    for pid, e in exp.items():
        o = obs[pid]
        if o.get('pool_id_getter', pid) != pid:
            return 'pool-ids', pid
        for clause, keys in (('type', ['type']), ('defined-on', ['on']), ('defined-for', ['for']),
                             ('delegation-id', ['deleg']), ('details', ['details_class', 'details'])):
            if any(o[k] != e[k] for k in keys):
                return clause, pid
    return None


def case_family(ctx, spec, only_type=None):
    D, CL = L()
    pools = spec['pools']
    import random
    order_rng = random.Random(spec['order'])
    ctx.count('op:family')
    ctx.seen(spec, any(set(p['for']) - {p['on']} for p in pools))
    for t in TYPES:
        mine = [p for p in pools if p['type'] == t]
        if not mine or (only_type and t != only_type):
            continue
        w = {'kind': 'family', 'spec': spec, 'type': t}
        rep = representable(pools, t)
        ctx.count('fam:representable' if rep else 'fam:unrepresentable')
        ctx.count(f'fam:pools={len(mine)}')
        if len({p['deleg'] for p in mine}) < len(mine):
            ctx.count('fam:pools-sharing-delegation-id')
        if rep and any(p is not q and p['on'] in (set(q['for']) - {q['on']}) for p in mine for q in mine):
            ctx.count('fam:defines-one-references-another')
        sfx = '' if rep else '-unrepresentable'
        try:
            ps = build_pools(t, pools)
        except Exception as e:
            _v(ctx, 'C12/pools-build-raised', f'building well-formed pools raised {type(e).__name__}: {e}', w)
            continue
        exp_p = model_pools(t, pools)
        d = diff_pools(exp_p, obs_pools(ps))
        if d:
            _v(ctx, f'C12/pools-build-{d[0]}', 'freshly built pools report what was put in',
                          dict(w, clause=d[0], pool=d[1], expected=exp_p, observed=obs_pools(ps)))
            continue
        try:
            ps.build_index_by_delegation_id()
            ps.validate_pools()
            by_node = ps.generate_delegations_by_node_id()
        except Exception as e:
            if rep:
                _v(ctx, f'C12/pools-generate-raised:{type(e).__name__}',
                              f'turning a representable pool family into node delegations raised {type(e).__name__}: {e}', w)
            elif is_lib_exc(e):
                ctx.count('fam:unrepresentable-rejected')
                cur = ctx.info.setdefault('rejected-with:unrepresentable-family', [])
                if type(e).__name__ not in cur:
                    cur.append(type(e).__name__)
            else:
                _v(ctx, f'C12/unrepresentable-family-crash:{type(e).__name__}',
                              f'a family that needs two entries under one delegation id on a node fails with '
                              f'{type(e).__name__} instead of a library exception', w)
            continue
        if not rep:
            ctx.count('fam:unrepresentable-accepted')
        # --- per node: exactly what the model says
        mb = model_by_node(t, pools)
        ctx.count('clause:per-node-definition-and-references')
        bad = None
        ob_nodes = {n: obs_delegations(ds) for n, ds in by_node.items()}
        # explicit count of definitions/references per pool
        for p in mine:
            defs = [n for n, o in ob_nodes.items() for e in o['by_id'].values()
                    if e and e['format'] == 'PoolDefinition' and e['pool'] == p['pool']]
            refs = sorted([n for n, o in ob_nodes.items() for e in o['by_id'].values()
                           if e and e['format'] == 'PoolReference' and e['pool'] == p['pool']], key=repr)
            if defs != [p['on']]:
                bad = ('definition-placement', p['pool'], {'expected': [p['on']], 'observed': defs})
                break
            if refs != sorted(set(p['for']) - {p['on']}, key=repr):
                bad = ('reference-placement', p['pool'], {'expected': sorted(set(p['for']) - {p['on']}, key=repr),
                                                          'observed': refs})
                break
        if bad is None:
            if sorted(mb, key=repr) != sorted(ob_nodes, key=repr):
                bad = ('nodes', None, {'expected': sorted(mb, key=repr), 'observed': sorted(ob_nodes, key=repr)})
            else:
                for n, entries in mb.items():
                    if len({e[0] for e in entries}) != len(entries):
                        bad = ('merged-entries', n, {'needed': entries, 'observed': ob_nodes[n]})
                        break
                    dd = diff_delegations(exp_delegations(t, entries), ob_nodes[n])
                    if dd:
                        bad = (dd[0], n, {'expected': exp_delegations(t, entries), 'observed': ob_nodes[n]})
                        break
        if bad:
            if rep:
                _v(ctx, f'C12/pools-per-node-{bad[0]}', 'each pool has one definition on its defining node and one '
                              'reference on each other node it applies to, under its delegation id, with its details',
                              dict(w, clause=bad[0], where=bad[1], **bad[2]))
            else:
                _v(ctx, 'C12/unrepresentable-family-silently-merged',
                              'a family that needs two entries under one delegation id on one node is neither rejected '
                              'nor represented losslessly', dict(w, clause=bad[0], where=bad[1], **bad[2]))
            continue
        # --- a pool the container already holds changes (one more node it applies to): converting again shows it
        if rep and mine:
            ctx.count('clause:regroup-again-after-a-held-pool-changed')
            p0 = mine[0]
            late = 'late-node-' + str(p0['pool'])
            try:
                ps2 = build_pools(t, pools)           # a container of its own: the checks below still look at `ps` as built
                ps2.build_index_by_delegation_id()
                ps2.generate_delegations_by_node_id()
                ps2.get_pool_by_id(pool_id=p0['pool'], strict=True).add_defined_for(late)
                ps2.build_index_by_delegation_id()
                ps2.validate_pools()
                by2 = ps2.generate_delegations_by_node_id()
                ob2 = obs_delegations(by2[late]) if late in by2 else None
                ok = ob2 is not None and any(e and e['format'] == 'PoolReference' and e['pool'] == p0['pool'] for e in ob2['by_id'].values())
                same = all(n in by2 and obs_delegations(by2[n]) == ob_nodes[n] for n in ob_nodes)
                if not ok or not same:
                    _v(ctx, 'C12/pools-regroup-again-stale', 'turning pools into per-node delegations reflects the pools as they are now: '
                       'one reference on each node a pool applies to (a node added to a held pool since the last conversion included)',
                       dict(w, pool=p0['pool'], added_node=late, observed_for_added_node=ob2, other_nodes_unchanged=same))
                    continue
            except Exception as e:
                _v(ctx, f'C12/pools-regroup-again-raised:{type(e).__name__}', f'converting again after add_defined_for raised {type(e).__name__}: {e}', w)
                continue
        # --- single-resource delegations under other ids on the same nodes
        exp_nodes = {n: list(es) for n, es in mb.items()}
        try:
            for n, byt in spec.get('extras', {}).items():
                for did, kw in byt.get(t, []):
                    if n not in by_node:
                        by_node[n] = D.Delegations(atype=T(t))
                    by_node[n].add_delegations(build_delegation(t, did, 'SinglePool', None, kw))
                    exp_nodes.setdefault(n, []).append([did, 'SinglePool', None, kw])
        except Exception as e:
            _v(ctx, 'C12/pools-add-single-raised', f'adding a single-resource delegation under a new id raised '
                          f'{type(e).__name__}: {e}', w)
            continue
        # --- wire round trip per node
        ctx.count('clause:node-roundtrip')
        decoded, texts, failed = {}, {}, False
        for n, ds in by_node.items():
            try:
                texts[n] = ds.to_json()
                decoded[n] = D.Delegations.from_json(json_str=texts[n], atype=T(t))
                dd = diff_delegations(exp_delegations(t, exp_nodes[n]), obs_delegations(decoded[n]))
            except Exception as e:
                _v(ctx, f'C12/pools-node-roundtrip-raised{sfx}', f'encoding/decoding a node\'s delegations raised '
                              f'{type(e).__name__}: {e}', dict(w, node=n))
                failed = True
                break
            if dd:
                _v(ctx, f'C12/pools-node-roundtrip-{dd[0]}:{dd[2] or "set"}', 'a node\'s delegations decode to the same delegations',
                              dict(w, node=n, text=texts[n], expected=exp_delegations(t, exp_nodes[n]),
                                   observed=obs_delegations(decoded[n])))
                failed = True
                break
        if failed:
            continue
        # --- regroup into fresh pools, node by node in a random order
        fresh = D.Pools(atype=T(t))
        order = sorted(decoded, key=repr)
        order_rng.shuffle(order)
        ctx.count('clause:delegation-id-after-each-node')
        try:
            for n in order:
                fresh.incorporate_delegation(node_id=n, deleg=decoded[n])
                for did, fmt, pid, _ in exp_nodes[n]:
                    if fmt == 'SinglePool':
                        continue
                    fp = fresh.get_pool_by_id(pool_id=pid, strict=True)
                    if fp is None or fp.get_delegation_id() != did or \
                            (fmt == 'PoolReference' and not fp.is_defined_for(n)) or \
                            (fmt == 'PoolDefinition' and not fp.is_defined_on(n)):
                        _v(ctx, f'C12/pools-after-node-{fmt}', 'after reading one node the pool it mentions knows the '
                                      'delegation id and the node', dict(w, node=n, order=order, pool=pid, delegation_id=did,
                                                                         observed=obs_pools(fresh).get(pid)))
                        failed = True
                        break
                if failed:
                    break
        except Exception as e:
            _v(ctx, f'C12/pools-incorporate-raised:{type(e).__name__}',
                          f'incorporate_delegation raised {type(e).__name__}: {e}', dict(w, order=order))
            continue
        if failed:
            continue
        ctx.count('clause:reconstruct-equal')
        d = diff_pools(exp_p, obs_pools(fresh))
        if d:
            _v(ctx, f'C12/pools-reconstruct-{d[0]}', f'the reconstructed pools have the same {d[0]}',
                          dict(w, clause=d[0], pool=d[1], order=order, expected=exp_p, observed=obs_pools(fresh)))
            continue
        # the original is untouched by all of the above
        d = diff_pools(exp_p, obs_pools(ps))
        if d:
            _v(ctx, f'C12/pools-source-mutated-{d[0]}', 'generating node delegations leaves the pools unchanged',
                          dict(w, clause=d[0], pool=d[1]))
        # --- a second definition of a reconstructed pool (other node, other delegation id) is refused and changes nothing
        if mine:
            ctx.count('clause:redefinition-refused-leaves-pools')
            victim = mine[order_rng.randrange(len(mine))]
            intruder = build_delegations(t, [['intruder-' + str(victim['deleg']), 'PoolDefinition', victim['pool'], victim['kw']]])
            wr = dict(w, pool=victim['pool'], offered_under='intruder-' + str(victim['deleg']), order=order)
            try:
                fresh.incorporate_delegation(node_id='some-other-node', deleg=intruder)
            except Exception as e:
                if not is_lib_exc(e):
                    _v(ctx, f'C12/pools-redefinition-raised:{type(e).__name__}', 'a second definition of a pool is refused '
                                  f'with the library\'s own exception, not {type(e).__name__}: {e}', wr)
            else:
                _v(ctx, 'C12/pools-redefinition-accepted', 'a pool has one definition: a second one is refused', wr)
            d = diff_pools(exp_p, obs_pools(fresh))
            if d:
                _v(ctx, f'C12/pools-redefinition-refused-but-changed-{d[0]}', 'a refused second definition leaves the '
                              f'reconstructed pools as they were ({d[0]} changed)',
                              dict(wr, clause=d[0], expected=exp_p.get(d[1]), observed=obs_pools(fresh).get(d[1])))
                continue
        # --- the reconstructed pools index and regenerate identically
        ctx.count('clause:regenerate-equal')
        try:
            fresh.build_index_by_delegation_id()
            fresh.validate_pools()
            ids = fresh.get_delegation_ids()
            exp_ids = {p['deleg'] for p in mine}
            if ids != exp_ids:
                _v(ctx, 'C12/pools-index-delegation-ids', 'the index of the reconstructed pools lists the delegation ids',
                              dict(w, expected=sorted(exp_ids, key=repr), observed=sorted(ids, key=repr)))
            for did in exp_ids:
                en = set()
                for p in mine:
                    if p['deleg'] == did:
                        en |= set(p['for']) - {p['on']}
                on = fresh.get_node_ids(did)
                opl = sorted([p.get_pool_id() for p in fresh.get_pools_by_delegation_id(did)], key=repr)
                epl = sorted([p['pool'] for p in mine if p['deleg'] == did], key=repr)
                if on != en or opl != epl:
                    _v(ctx, 'C12/pools-index-by-delegation', 'pools and reference nodes by delegation id',
                                  dict(w, delegation_id=did, expected=[sorted(en, key=repr), epl],
                                       observed=[sorted(on, key=repr), opl]))
            again = fresh.generate_delegations_by_node_id()
            a = {n: json.loads(ds.to_json()) for n, ds in again.items()}
            b = {n: json.loads(build_delegations(t, es).to_json()) for n, es in mb.items()}
            if a != b:
                _v(ctx, 'C12/pools-regenerate-differs', 'the reconstructed pools generate the same node delegations',
                              dict(w, expected=b, observed=a))
        except Exception as e:
            _v(ctx, f'C12/pools-regenerate-raised:{type(e).__name__}', f'indexing/regenerating the reconstructed pools '
                          f'raised {type(e).__name__}: {e}', w)


# ----------------------------------------------------------------------------------------------
# 4. through a graph
PLAIN_IDS = ['primary', 'del1', 'del2', 'site-a', '0', 'a b', 'é', 'x"y', 'pool', 'None', '5f2b-11aa']


def gen_graph(rng):
    servers = []
    for i in range(rng.randrange(1, 3)):
        comps = []
        for j in range(rng.randrange(0, 3)):
            if rng.random() < 0.5:
                comps.append({'kind': 'gpu', 'caps': gen_kw(rng, 'CAPACITY', ['unit']),
                              'labels': {'bdf': LABEL_GEN['bdf'](rng)} if rng.random() < 0.5 else None})
            else:
                comps.append({'kind': 'nic', 'caps': gen_kw(rng, 'CAPACITY', ['unit']),
                              'labels': {'bdf': [LABEL_GEN['bdf'](rng), LABEL_GEN['bdf'](rng)]} if rng.random() < 0.7 else None,
                              'if_labels': [gen_kw(rng, 'LABEL', ['mac', 'vlan_range', 'ipv4_range', 'ipv6_subnet', 'asn'])
                                            for _ in range(2)]})
        servers.append({'caps': gen_kw(rng, 'CAPACITY', ['core', 'ram', 'disk', 'unit', 'cpu']),
                        'labels': gen_kw(rng, 'LABEL', ['instance_parent', 'device_name', 'local_type'])
                        if rng.random() < 0.5 else None,
                        'comps': comps})
    s = {'kind': 'graph', 'servers': servers, 'ports': rng.randrange(2, 6),
         'mode': rng.choice(['single', 'annotate']), 'deleg': rng.choice(PLAIN_IDS)}
    lay = graph_layout(s)
    elig = {'LABEL': [n for n, v in lay.items() if not v['labels']],
            'CAPACITY': [n for n, v in lay.items() if not v['caps']]}
    if s['mode'] == 'single':
        fam = gen_family(rng, nodes=list(lay), force=True, eligible=elig)
        s['pools'] = fam['pools']
        s['order'] = fam['order']
        s['dels'] = {}
    else:
        # own per-node delegation sets (1..4 ids, all formats) on some nodes, pools on the others
        dels = {t: {} for t in TYPES}
        taken = {t: set() for t in TYPES}
        for t in TYPES:
            for n in rng.sample(list(lay), rng.randrange(1, min(4, len(lay)) + 1)):
                dels[t][n] = gen_entries(rng, t)
                taken[t].add(n)
        elig = {t: [n for n in lay if n not in taken[t]] for t in TYPES}
        fam = gen_family(rng, nodes=list(lay), force=True, eligible=elig)
        s['pools'] = fam['pools']
        s['order'] = fam['order']
        s['dels'] = dels
        s['overlap'] = None
        if rng.random() < 0.25:
            for p in fam['pools']:
                # a node that is in a pool AND carries its own set of the same type
                s['overlap'] = [p['type'], p['on'] if rng.random() < 0.5 else sorted(set(p['for']) - {p['on']}, key=repr)[0]]
                break
    return s


def graph_layout(s):
    """node_id -> what the harness attaches there (walked = reached by single_delegation's walk)"""
    lay = {}
    for i, sv in enumerate(s['servers']):
        nid = f'SRV{i}'
        lay[nid] = {'caps': sv['caps'], 'labels': sv['labels'], 'walked': True}
        for j, c in enumerate(sv['comps']):
            cid = f'{nid}-c{j}'
            lay[cid] = {'caps': c['caps'], 'labels': c['labels'], 'walked': True}
            if c['kind'] == 'nic':
                lay[cid + '-sf'] = {'caps': None, 'labels': None, 'walked': False}
                for k in range(2):
                    # the catalog adds capacities and a local_name label to NIC ports
                    lay[f'{cid}-p{k}'] = {'caps': {'auto': True}, 'labels': c['if_labels'][k], 'walked': True}
    lay['SW'] = {'caps': None, 'labels': None, 'walked': True, 'stitch': True}
    lay['SW-ns'] = {'caps': None, 'labels': None, 'walked': True, 'stitch': True}
    for k in range(s['ports']):
        lay[f'SW-p{k}'] = {'caps': None, 'labels': None, 'walked': True, 'stitch': True}
    return lay


def build_topology(s):
    import fim.user as fu
    D, CL = L()
    topo = fu.SubstrateTopology()
    topo.graph_model.importer.delete_all_graphs()
    topo = fu.SubstrateTopology()
    for i, sv in enumerate(s['servers']):
        nid = f'SRV{i}'
        kw = {'capacities': CL.Capacities(**sv['caps'])}
        if sv['labels']:
            kw['labels'] = CL.Labels(**sv['labels'])
        node = topo.add_node(name=f'w{i}', model='R7525', site='S', node_id=nid, ntype=fu.NodeType.Server, **kw)
        for j, c in enumerate(sv['comps']):
            cid = f'{nid}-c{j}'
            ckw = {'capacities': CL.Capacities(**c['caps'])}
            if c['labels']:
                ckw['labels'] = CL.Labels(**c['labels'])
            if c['kind'] == 'gpu':
                node.add_component(name=f'w{i}-gpu{j}', model='RTX6000', node_id=cid, ctype=fu.ComponentType.GPU, **ckw)
            else:
                node.add_component(name=f'w{i}-nic{j}', model='ConnectX-6', node_id=cid,
                                   network_service_node_id=cid + '-sf',
                                   interface_node_ids=[f'{cid}-p0', f'{cid}-p1'],
                                   interface_labels=[CL.Labels(**x) for x in c['if_labels']],
                                   ctype=fu.ComponentType.SmartNIC, **ckw)
    sw = topo.add_node(name='sw', node_id='SW', site='S', ntype=fu.NodeType.Switch, stitch_node=True)
    ns = sw.add_network_service(name='sw-ns', node_id='SW-ns', nstype=fu.ServiceType.MPLS, stitch_node=True)
    for k in range(s['ports']):
        ns.add_interface(name=f'p{k}', itype=fu.InterfaceType.TrunkPort, node_id=f'SW-p{k}', stitch_node=True)
    return topo


def case_graph(ctx, s):
    D, CL = L()
    from fim.graph.abc_property_graph import ABCPropertyGraph as G
    import random
    PROP = {'LABEL': G.PROP_LABEL_DELEGATIONS, 'CAPACITY': G.PROP_CAPACITY_DELEGATIONS}
    RAW = {'LABEL': G.PROP_LABELS, 'CAPACITY': G.PROP_CAPACITIES}
    ctx.count('op:graph-' + ('single_delegation' if s['mode'] == 'single' else 'annotate'))
    w = {'kind': 'graph', 'spec': s}
    lay = graph_layout(s)
    try:
        topo = build_topology(s)
        gm = topo.graph_model
        all_ids = list(gm.list_all_node_ids())
        # what is attached to each element right now, read as plain JSON from the graph
        attached = {}
        for nid in all_ids:
            _, props = gm.get_node_properties(node_id=nid)
            attached[nid] = {t: (json.loads(props[RAW[t]]) if props.get(RAW[t]) not in (None, 'None', '') else None)
                             for t in TYPES}
    except Exception as e:
        ctx.mark_inconclusive(f'graph workload could not build its topology: {type(e).__name__}: {e}')
        return
    if sorted(all_ids) != sorted(lay):
        ctx.mark_inconclusive('graph workload: the topology has other nodes than the harness laid out: '
                              + repr(sorted(set(all_ids) ^ set(lay))))
        return
    for nid, v in lay.items():
        for t, key in (('LABEL', 'labels'), ('CAPACITY', 'caps')):
            mine = v[key]
            if mine and not mine.get('auto'):
                got = attached[nid][t] or {}
                if any(got.get(k) != val for k, val in compact(mine).items()):
                    ctx.mark_inconclusive(f'graph workload: element {nid} does not carry the {key} the harness attached')
                    return
    # expected delegations per node and type
    exp = {nid: {t: [] for t in TYPES} for nid in all_ids}
    pools = s['pools']
    for t in TYPES:
        for n, es in model_by_node(t, pools).items():
            exp[n][t].extend(es)
    overlap = s.get('overlap')
    try:
        if s['mode'] == 'single':
            for nid, v in lay.items():
                if v.get('stitch') or not v['walked']:
                    continue
                for t in TYPES:
                    if attached[nid][t] is not None:
                        exp[nid][t].append([s['deleg'], 'SinglePool', None, attached[nid][t]])
            lp, cp = build_pools('LABEL', pools), build_pools('CAPACITY', pools)
            lp.build_index_by_delegation_id()
            lp.validate_pools()
            cp.build_index_by_delegation_id()
            cp.validate_pools()
            topo.single_delegation(delegation_id=s['deleg'], label_pools=lp, capacity_pools=cp)
        else:
            arm = topo.as_arm()
            for t in TYPES:
                ps = build_pools(t, pools)
                ps.build_index_by_delegation_id()
                ps.validate_pools()
                dels = {n: build_delegations(t, es) for n, es in s['dels'][t].items()}
                for n, es in s['dels'][t].items():
                    exp[n][t].extend(es)
                if overlap and overlap[0] == t:
                    ctx.count('graph:overlap-probe')
                    extra = [['own', 'SinglePool', None, gen_kw(random.Random(s['order']), t)]]
                    dels[overlap[1]] = build_delegations(t, extra)
                    try:
                        arm.annotate_delegations_and_pools(dels=dels, pools=ps)
                    except Exception as e:
                        ctx.count('graph:overlap-rejected')
                        cur = ctx.info.setdefault('rejected-with:graph-node-with-own-set-and-pool', [])
                        if type(e).__name__ not in cur:
                            cur.append(type(e).__name__)
                        # nothing may have been written for this type
                        for nid in all_ids:
                            _, props = gm.get_node_properties(node_id=nid)
                            if props.get(PROP[t]) not in (None, 'None'):
                                ctx.count('graph:overlap-rejected-after-partial-write')
                                break
                        for nid in all_ids:
                            exp[nid][t] = None      # not judged
                        continue
                    # accepted: then both the pool entry and the own entry must be readable
                    exp[overlap[1]][t].extend(extra)
                else:
                    arm.annotate_delegations_and_pools(dels=dels, pools=ps)
    except Exception as e:
        _v(ctx, f'C12/graph-{s["mode"]}-raised:{type(e).__name__}',
                      f'attaching well-formed delegations and pools to a graph raised {type(e).__name__}: {e}', w)
        return
    # --- read back by three paths
    ctx.count('clause:graph-readback')
    arm = topo.as_arm()
    delegated = 0
    decoded = {t: {} for t in TYPES}
    for nid in all_ids:
        _, props = gm.get_node_properties(node_id=nid)
        for t in TYPES:
            if exp[nid][t] is None:
                continue
            es = exp[nid][t]
            raw = props.get(PROP[t])
            try:
                via_text = D.Delegations.from_json(json_str=raw, atype=T(t)) if raw is not None else None
                via_arm = arm.get_delegations(node_id=nid, delegation_type=T(t))
                via_json = gm.get_node_json_property_as_object(node_id=nid, prop_name=PROP[t])
            except Exception as e:
                _v(ctx, f'C12/graph-readback-raised:{type(e).__name__}',
                              f'reading delegations back from the graph raised {type(e).__name__}: {e}',
                              dict(w, node=nid, type=t, raw=raw))
                return
            if not es:
                if raw not in (None, 'None') or via_arm is not None:
                    _v(ctx, 'C12/graph-readback-invented', 'a node nothing was delegated on carries no delegations',
                                  dict(w, node=nid, type=t, raw=raw))
                    return
                continue
            delegated += 1
            if len({e[0] for e in es}) != len(es):
                _v(ctx, 'C12/graph-overlap-silently-lost', 'a node with a pool entry and an own entry under one id',
                              dict(w, node=nid, type=t, raw=raw))
                return
            e1 = exp_delegations(t, es)
            for path, got in (('text', via_text), ('arm', via_arm)):
                if got is None:
                    _v(ctx, f'C12/graph-readback-missing:{s["mode"]}', 'the delegations attached to a node can be read back',
                                  dict(w, node=nid, type=t, path=path, raw=raw, expected=e1))
                    return
                dd = diff_delegations(e1, obs_delegations(got))
                if dd and overlap and overlap[0] == t and overlap[1] == nid:
                    _v(ctx, 'C12/graph-overlap-silently-lost', 'a node that is in a pool and also carries its own '
                       'delegation set: accepted, but one of the two cannot be read back',
                       dict(w, node=nid, type=t, path=path, raw=raw, expected=e1, observed=obs_delegations(got)))
                    return
                if dd:
                    _v(ctx, f'C12/graph-readback-{dd[0]}:{dd[2] or "set"}:{s["mode"]}',
                                  f'delegations read back from the graph have the same {dd[0]}',
                                  dict(w, node=nid, type=t, path=path, raw=raw, expected=e1, observed=obs_delegations(got)))
                    return
            if via_json != json.loads(raw):
                _v(ctx, 'C12/graph-json-property-differs', 'get_node_json_property_as_object parses the stored text',
                              dict(w, node=nid, type=t, raw=raw, observed=via_json))
                return
            decoded[t][nid] = via_arm
    ctx.seen(s, delegated > 0)
    # the sliver path for the servers
    try:
        for i in range(len(s['servers'])):
            nid = f'SRV{i}'
            el = topo.nodes[f'w{i}']
            for t, pname in (('LABEL', 'label_delegations'), ('CAPACITY', 'capacity_delegations')):
                if exp[nid][t] is None:
                    continue
                got = el.get_property(pname)
                ctx.count('op:graph-sliver-readback')
                if not exp[nid][t]:
                    if got is not None and got.get_delegation_ids():
                        _v(ctx, 'C12/graph-sliver-invented', 'sliver of a node without delegations has none',
                                      dict(w, node=nid, type=t))
                    continue
                dd = diff_delegations(exp_delegations(t, exp[nid][t]), obs_delegations(got)) if got is not None else ('missing', None, None)
                if dd:
                    _v(ctx, f'C12/graph-sliver-readback-{dd[0]}', 'delegations read through the element\'s sliver are the same',
                                  dict(w, node=nid, type=t, expected=exp_delegations(t, exp[nid][t]),
                                       observed=obs_delegations(got) if got is not None else None))
    except Exception as e:
        _v(ctx, f'C12/graph-sliver-readback-raised:{type(e).__name__}', f'get_property raised {type(e).__name__}: {e}', w)
    # --- pools reconstructed from the graph
    ctx.count('clause:graph-pools-reconstruct')
    for t in TYPES:
        if any(exp[nid][t] is None for nid in all_ids):
            continue
        try:
            fresh = D.Pools(atype=T(t))
            # only the nodes of the pool family: the own sets of the annotate mode are arbitrary entries, not a family
            order = sorted(n for n in decoded[t] if n in model_by_node(t, pools))
            random.Random(s['order']).shuffle(order)
            for nid in order:
                fresh.incorporate_delegation(node_id=nid, deleg=decoded[t][nid])
        except Exception as e:
            _v(ctx, f'C12/graph-pools-incorporate-raised:{type(e).__name__}',
                          f'regrouping the graph\'s delegations into pools raised {type(e).__name__}: {e}', dict(w, type=t))
            continue
        exp_p = model_pools(t, pools)
        ob = obs_pools(fresh)
        d = diff_pools(exp_p, ob)
        if d:
            _v(ctx, f'C12/graph-pools-reconstruct-{d[0]}', f'pools regrouped from the graph have the same {d[0]}',
                          dict(w, type=t, pool=d[1], expected=exp_p, observed=ob))


# ----------------------------------------------------------------------------------------------
def dispatch(ctx, spec):
    k = spec['kind']
    if k == 'roundtrip':
        case_roundtrip(ctx, spec)
    elif k == 'empty':
        case_empty(ctx, spec)
    elif k == 'sentinel':
        case_sentinel(ctx, spec)
    elif k == 'reject':
        case_reject(ctx, spec)
    elif k == 'family':
        case_family(ctx, spec)
    elif k == 'graph':
        case_graph(ctx, spec)


def run(ctx):
    vocab(ctx)
    rng = ctx.rng
    observations(ctx)
    for t in TYPES:
        dispatch(ctx, {'kind': 'empty', 'type': t})
    for t in TYPES:
        for fmt in ('PoolDefinition', 'PoolReference'):
            dispatch(ctx, {'kind': 'sentinel', 'type': t, 'format': fmt, 'pool': '_', 'kw': gen_kw(rng, t)})
    n_rt = ctx.pick(1500, 40000)
    n_rej = ctx.pick(100, 2000)         # per probe
    n_fam = ctx.pick(800, 20000)
    n_gr = ctx.pick(240, 3000)
    shown = {}

    def go(spec):
        if shown.get(spec['kind'], 0) < 1 and len(ctx.samples) < 3 and spec['kind'] in ('roundtrip', 'family', 'graph'):
            shown[spec['kind']] = 1
            ctx.sample(spec)
        dispatch(ctx, spec)

    # interleave so that a soft time-out still leaves every workload evaluated
    rounds = 20
    for r in range(rounds):
        for _ in range(n_rt // rounds):
            go(gen_roundtrip(rng))
        for p in PROBES:
            for _ in range(max(1, n_rej // rounds)):
                go(gen_reject(rng, p))
        for _ in range(n_fam // rounds):
            go(gen_family(rng))
        for _ in range(n_gr // rounds):
            go(gen_graph(rng))
        if ctx.out_of_time():
            ctx.info['stopped_early_after_round'] = r
            break


def replay(ctx, case):
    vocab(ctx)
    w = case['witness']
    spec = w.get('spec')
    if spec is None:
        ctx.mark_inconclusive('witness carries no case specification')
        return
    dispatch(ctx, spec)


LEVEL_TEXT = ('Runtime monitoring of the real Delegation/Delegations/Pool/Pools code and of '
              'SubstrateTopology.single_delegation / ARM.annotate_delegations_and_pools with seeded generators; every '
              'execution is judged against the harness\' own bookkeeping (plain dicts) read back through public getters: '
              'round-trip equality of ids/formats/pool names/details field-wise, same text on re-encoding, nine rejection '
              'probes (exception class recorded), pools -> node delegations -> wire text -> pools identity including the '
              'state after each node, exactly one definition and the references per pool, families not representable in '
              'the id-keyed wire format must be rejected by a library exception, and the same through an in-memory graph '
              'read back by three paths. Held on the executions observed.')
LEVEL_NOTE = ('Trusted: json, the harness generator and its bookkeeping, Labels/Capacities constructors (C03 judges those). '
              'Not covered: Neo4j-backed graphs, GraphML persistence of the delegation text, generate_adms (C13), '
              'non-str ids, empty details, hand-written wire text that no delegation set encodes to (recorded as '
              'observations only).')
TECHNIQUE = 'randomized round-trip / reference-bookkeeping monitoring of the real code, rejection probes with recorded classes'
