"""C04 — graphs sharing the in-memory store are isolated; clones are independent.

Frame-condition hook: before and after every operation of an interleaved history over
2-4 graph ids the whole store is read directly (storage.graphs) and canonicalised per
GraphID; every graph outside the operation's declared target set must be unchanged, the
store must stay structurally sound (every node has GraphID+NodeID, no edge joins two graphs,
node count = sum over graphs), imports must land complete, clones must equal their source.
"""
import json

from vlib import canon, rawgraph

PROPERTY = 'C04'
LEVEL = 'exploration'
SHARDS = {'quick': 4, 'thorough': 16}
RULE = ('random interleaved histories (length 8-40) over 2-4 graph ids on both in-memory stores: add/delete node, add link, '
        'update/unset node and link properties singly and in bulk, whole-graph property update (any name but GraphID), import '
        'from GraphML/JSON text whose own node keys collide with stored ones, re-import under an existing id, direct import, '
        'delete graph, delete-then-reimport, clone, delete-all; the same NodeIDs are used in every graph on purpose. One '
        'evaluation = one history; distinct by op list; non-trivial if >=2 graphs were non-empty at some frame check')
REQUIRED = ['clone-with-exotic-values', 'frame-checks', 'frame-checks:2+graphs', 'op:import_string', 'op:reimport', 'op:import_direct', 'op:clone',
            'op:delete_graph', 'op:update_nodes_property', 'op:add_node', 'op:delete_node', 'clone-equal-checked',
            'import-content-checked', 'store:shared', 'store:disjoint', 'op:delete_then_reimport']
ASSUMPTIONS = ['re-homing a graph by rewriting GraphID and merge_nodes are C14/C05 territory and not generated here',
               'on the one-graph-per-store flavour a re-import under an id that was used before is documented as skipped; the '
               'content of the *target* is not judged there, only the other graphs']

NIDS = ['n0', 'n1', 'n2', 'n3', 'n4']
# values no text format can carry (carriage returns, control characters, containers): a store and an in-memory clone
# must keep them all the same - they only ever arrive through the API, never through an import text
EXOTIC = ['line1\r\nline2\r\n', 'cr\r', 'vt\x0bx', 'esc\x1b[0m', ['l1', 'l2'], {'k': 1, 'n': [1, 2]}, ('t', 1), 3.5, True, None]


def api_value(rng):
    if rng.random() < 0.3:
        v = rng.choice(EXOTIC)
        return v if v is not None else 'x'
    return rawgraph.gen_value(rng)
_cnt = [0]


def gen_small(rng):
    d = rawgraph.gen_graph(rng, 1, 5, maxprops=3)
    # reuse the common NodeIDs so that graphs overlap in ids
    m = {}
    for i, n in enumerate(d['nodes']):
        m[n['id']] = NIDS[i]
        n['id'] = NIDS[i]
    for e in d['edges']:
        e['a'], e['b'] = m[e['a']], m[e['b']]
    return d


def text_of(desc, fmt, key_style, graph_id=None, drop_id_of=None, drop_field='NodeID', stray=None):
    import networkx as nx
    g = rawgraph.to_nx(desc, key_style=key_style, graph_id=graph_id)
    if stray is not None:
        # an ill-formed model text: one node (not the first) says it belongs to another graph
        ks = list(g.nodes)
        g.nodes[ks[1 + stray[0] % (len(ks) - 1)]]['GraphID'] = stray[1]
    if drop_id_of is not None:
        # an ill-formed model text: the k-th node has no NodeID (the importers must refuse it) / no Class (they may not notice)
        k = list(g.nodes)[drop_id_of % len(g.nodes)]
        g.nodes[k].pop(drop_field, None)
    if fmt == 'graphml':
        return '\n'.join(nx.generate_graphml(g))
    return json.dumps(nx.readwrite.node_link_data(g))


def gen_op(rng, gids, live):
    # clones made under a new id are graphs like any other: they are addressed by later operations as well
    g = rng.choice(gids) if rng.random() < 0.8 else rng.choice(['clone-a', 'clone-b'])
    k = rng.randrange(100)
    n, a, b = rng.choice(NIDS), rng.choice(NIDS), rng.choice(NIDS)
    if k < 14:
        return {'op': 'add_node', 'g': g, 'nid': n, 'label': rng.choice(rawgraph.CLASSES), 'props': rawgraph.gen_props(rng, 2)}
    if k < 17:
        return {'op': 'delete_node', 'g': g, 'nid': n}
    if k < 20:
        # a node copied from another graph: its properties are read there and handed to add_node here
        return {'op': 'copy_node', 'g': g, 'from': rng.choice(gids), 'nid': n}
    if k < 30:
        return {'op': 'add_link', 'g': g, 'a': a, 'b': b, 'rel': rng.choice(rawgraph.RELS), 'props': rawgraph.gen_props(rng, 1)}
    if k < 36:
        return {'op': 'update_node_property', 'g': g, 'nid': n, 'name': rng.choice(['p0', 'Name', 'Type', 'BootScript']), 'val': api_value(rng)}
    if k < 40:
        return {'op': 'unset_node_property', 'g': g, 'nid': n, 'name': rng.choice(['p0', 'Name', 'X'])}
    if k < 44:
        return {'op': 'update_node_properties', 'g': g, 'nid': n, 'props': {'p0': api_value(rng), 'p1': api_value(rng)}}
    if k < 50:
        return {'op': 'update_nodes_property', 'g': g, 'name': rng.choice(['p0', 'Name', 'Site', 'NodeMap']), 'val': rawgraph.gen_value(rng)}
    if k < 54:
        return {'op': 'update_link_property', 'g': g, 'a': a, 'b': b, 'kind': rng.choice(rawgraph.RELS), 'name': 'p0', 'val': api_value(rng)}
    if k < 57:
        return {'op': 'unset_link_property', 'g': g, 'a': a, 'b': b, 'kind': rng.choice(rawgraph.RELS), 'name': 'p0'}
    if k < 60:
        return {'op': 'update_link_properties', 'g': g, 'a': a, 'b': b, 'kind': rng.choice(rawgraph.RELS), 'props': {'p1': rawgraph.gen_value(rng)}}
    if k < 69:
        return {'op': 'import_string', 'g': g, 'desc': gen_small(rng), 'fmt': rng.choice(['graphml', 'json']), 'keys': rng.randrange(3)}
    if k < 72:
        return {'op': 'import_illformed', 'g': g, 'desc': gen_small(rng), 'fmt': rng.choice(['graphml', 'json']), 'keys': rng.randrange(3),
                'drop': rng.randrange(5), 'direct': False, 'field': rng.choice(['NodeID', 'NodeID', 'Class'])}
    if k < 73:
        d = gen_small(rng)
        if len(d['nodes']) >= 2:
            return {'op': 'import_direct_stray', 'g': g, 'desc': d, 'fmt': rng.choice(['graphml', 'json']), 'keys': rng.randrange(3),
                    'stray': [rng.randrange(5), rng.choice([x for x in gids if x != g] or ['elsewhere'])]}
    if k < 78:
        return {'op': 'import_direct', 'g': g, 'desc': gen_small(rng), 'fmt': rng.choice(['graphml', 'json']), 'keys': rng.randrange(3)}
    if k < 84:
        return {'op': 'delete_graph', 'g': g, 'via': rng.choice(['graph', 'importer'])}
    if k < 90:
        return {'op': 'delete_then_reimport', 'g': g, 'desc': gen_small(rng), 'fmt': rng.choice(['graphml', 'json']), 'keys': rng.randrange(3)}
    if k < 98:
        return {'op': 'clone', 'g': g, 'to': rng.choice(gids + ['clone-a', 'clone-b'])}
    return {'op': 'delete_all', 'g': g}


def targets(op):
    if op['op'] == 'clone':
        return {op['to']}        # the source must stay unchanged as well
    if op['op'] == 'delete_all':
        return None              # everything
    return {op['g']}


def apply(imp, cls, op):
    if op.get('own_importer'):
        # a caller that makes an importer object of its own for this call (they all denote the one store)
        imp = type(imp)()
    g = cls(graph_id=op['g'], importer=imp)
    o = op['op']
    if o == 'add_node':
        return g.add_node(node_id=op['nid'], label=op['label'], props=dict(op['props']) or None)
    if o == 'delete_node':
        return g.delete_node(node_id=op['nid'])
    if o == 'copy_node':
        labels, props = cls(graph_id=op['from'], importer=imp).get_node_properties(node_id=op['nid'])
        return g.add_node(node_id=op['nid'], label=labels[0], props=props)
    if o == 'add_link':
        return g.add_link(node_a=op['a'], rel=op['rel'], node_b=op['b'], props=dict(op['props']) or None)
    if o == 'update_node_property':
        return g.update_node_property(node_id=op['nid'], prop_name=op['name'], prop_val=op['val'])
    if o == 'unset_node_property':
        return g.unset_node_property(node_id=op['nid'], prop_name=op['name'])
    if o == 'update_node_properties':
        return g.update_node_properties(node_id=op['nid'], props=dict(op['props']))
    if o == 'update_nodes_property':
        return g.update_nodes_property(prop_name=op['name'], prop_val=op['val'])
    if o == 'update_link_property':
        return g.update_link_property(node_a=op['a'], node_b=op['b'], kind=op['kind'], prop_name=op['name'], prop_val=op['val'])
    if o == 'unset_link_property':
        return g.unset_link_property(node_a=op['a'], node_b=op['b'], kind=op['kind'], prop_name=op['name'])
    if o == 'update_link_properties':
        return g.update_link_properties(node_a=op['a'], node_b=op['b'], kind=op['kind'], props=dict(op['props']))
    if o == 'import_string':
        return imp.import_graph_from_string(graph_string=text_of(op['desc'], op['fmt'], op['keys']), graph_id=op['g'])
    if o == 'import_direct':
        return imp.import_graph_from_string_direct(graph_string=text_of(op['desc'], op['fmt'], op['keys'], graph_id=op['g']))
    if o == 'import_illformed':
        if op['direct']:
            return imp.import_graph_from_string_direct(graph_string=text_of(op['desc'], op['fmt'], op['keys'], graph_id=op['g'],
                                                                            drop_id_of=op['drop']))
        return imp.import_graph_from_string(graph_string=text_of(op['desc'], op['fmt'], op['keys'], drop_id_of=op['drop'],
                                                                 drop_field=op.get('field', 'NodeID')), graph_id=op['g'])
    if o == 'import_direct_stray':
        return imp.import_graph_from_string_direct(graph_string=text_of(op['desc'], op['fmt'], op['keys'], graph_id=op['g'], stray=op['stray']))
    if o == 'delete_graph':
        return g.delete_graph() if op['via'] == 'graph' else imp.delete_graph(graph_id=op['g'])
    if o == 'delete_then_reimport':
        imp.delete_graph(graph_id=op['g'])
        return imp.import_graph_from_string(graph_string=text_of(op['desc'], op['fmt'], op['keys']), graph_id=op['g'])
    if o == 'clone':
        return g.clone_graph(new_graph_id=op['to'])
    if o == 'delete_all':
        return imp.delete_all_graphs()
    raise AssertionError(o)


def verdicts(imp, cls, snap):
    """What validate_graph() says about each graph of the store (part of a graph's observable content)."""
    out = {}
    for gid in snap:
        try:
            cls(graph_id=gid, importer=imp).validate_graph(validate_json=False)
            out[gid] = 'valid'
        except Exception as e:
            out[gid] = type(e).__name__
    return out


def run_history(ctx, store, imp, cls, hist):
    imp.delete_all_graphs()
    used_ids = set()       # ids ever used on this store in this history (disjoint store keeps emptied keys)
    nontriv = False
    before, facts = canon.store_snapshot(imp)
    verdict_before = verdicts(imp, cls, before)
    for step, op in enumerate(hist):
        ctx.count('op:' + op['op'])
        if op['op'] in ('import_string', 'delete_then_reimport') and op['g'] in before:
            ctx.count('op:reimport')
        w = {'store': store, 'step': step, 'op': op, 'history': hist[:step + 1]}
        try:
            res = apply(imp, cls, op)
            exc = None
        except Exception as e:
            res, exc = None, f'{type(e).__name__}: {str(e)[:150]}'
        after, facts = canon.store_snapshot(imp)
        verdict_after = verdicts(imp, cls, after)
        ctx.count('frame-checks')
        if len(before) >= 2:
            ctx.count('frame-checks:2+graphs')
            nontriv = True
        w['exception'] = exc
        if op['op'] == 'import_direct_stray':
            # a text whose nodes do not agree on the graph they belong to is refused by the direct importers, whole
            ctx.count('import-direct-stray:refused' if exc else 'import-direct-stray:accepted')
            if not canon.typed_equal(before, after):
                ctx.violation('C04/import_direct_stray-changes-the-store' if exc else 'C04/import_direct_stray-accepted',
                              'an import addressed to one graph leaves every other graph unchanged: a text in which one node claims to belong '
                              'to another graph is refused and nothing of it is stored',
                              dict(w, changed=sorted(k for k in set(before) | set(after) if not canon.typed_equal(before.get(k), after.get(k)))))
                return False
        if op['op'] == 'import_illformed':
            ctx.count('import-illformed:refused' if exc else 'import-illformed:accepted')
            if exc is not None and not canon.typed_equal(before.get(op['g']), after.get(op['g'])):
                ctx.violation('C04/import_illformed-refused-but-target-changed', 'each graph holds exactly the nodes added to it: an import that is '
                              'refused adds nothing to, and removes nothing from, the graph it was addressed to',
                              dict(w, diff=canon.diff(before.get(op['g']), after.get(op['g']))))
                return False
            if exc is None and op.get('field', 'NodeID') == 'NodeID':
                # (the *_direct entry points do not inspect node ids; only the checking importers are driven with such text)
                # a store holding a node without NodeID is outside the domain of the statement: the history ends here
                return True
        tg = targets(op)
        # ---- frame condition
        if tg is not None:
            for gid in set(before) | set(after):
                if gid in tg:
                    continue
                if gid in verdict_before and gid in verdict_after and verdict_before[gid] != verdict_after[gid]:
                    ctx.violation(f'C04/{op["op"]}-changes-validity-of-other-graph', 'an operation addressed to one graph leaves every other '
                                  'graph unchanged - what validate_graph() says about it included',
                                  dict(w, other=gid, before=verdict_before[gid], after=verdict_after[gid]))
                    return False
                if not canon.typed_equal(before.get(gid), after.get(gid)):
                    ctx.violation(f'C04/{op["op"]}-changes-other-graph', 'an operation addressed to one graph leaves every other '
                                  'graph unchanged', dict(w, other=gid, diff=canon.diff(before.get(gid), after.get(gid))))
                    return False
        # ---- structural soundness of the store
        if facts['no_graph_id'] or facts['cross_graph_edges'] or facts.get('mismatched_graph_id'):
            ctx.violation(f'C04/{op["op"]}-store-structure', 'every stored node carries a GraphID and no edge joins two graphs',
                          dict(w, facts={k: v for k, v in facts.items() if k != 'internal_ids'}))
            return False
        total = sum(len(c['nodes']) for c in after.values())
        if total != facts['total_nodes'] or any(c.get('anon') for c in after.values()):
            ctx.violation(f'C04/{op["op"]}-node-count', 'stored nodes = sum over graphs; every node has a NodeID',
                          dict(w, total=facts['total_nodes'], by_graph={g: len(c['nodes']) for g, c in after.items()}))
            return False
        # ---- a node added to a graph takes a new internal identity: everything the graph held before is still there
        if exc is None and op['op'] == 'add_node':
            ctx.count('add-node-own-graph-checked')
            b, a = before.get(op['g']) or {'nodes': {}, 'edges': {}}, after.get(op['g']) or {'nodes': {}, 'edges': {}}
            lost = sorted(set(b['nodes']) - set(a['nodes']))
            changed = sorted(k for k in set(b['nodes']) & set(a['nodes']) if b['nodes'][k] != a['nodes'][k])
            extra = sorted(set(a['nodes']) - set(b['nodes']) - {op['nid']})
            if lost or changed or extra or a['edges'] != b['edges']:
                ctx.violation('C04/add_node-takes-over-existing-identity', 'no two stored nodes ever share an internal identity: a node added '
                              'to a graph leaves the nodes and edges the graph already had exactly as they were',
                              dict(w, lost=lost, changed=changed, extra=extra, edges_changed=a['edges'] != b['edges']))
                return False
        # ---- imports land complete (collision of internal keys would show as a deficit)
        if exc is None and op['op'] in ('import_string', 'import_direct', 'delete_then_reimport'):
            # one-graph-per-store flavour: an import under the id of a graph that exists (holds nodes) is documented as
            # 'already present, skipping' - the target's content is not judged there
            skip = (store == 'disjoint' and op['op'] == 'import_string' and bool((before.get(op['g']) or {}).get('nodes')))
            if skip:
                ctx.count('import-content-not-judged(disjoint, graph exists)')
            if not skip:
                ctx.count('import-content-checked')
                exp = rawgraph.expected_canon(op['desc'])
                got = after.get(op['g'])
                if not canon.typed_equal(got, exp):
                    ctx.violation(f'C04/{op["op"]}-content', 'an imported graph holds exactly the imported nodes and edges',
                                  dict(w, diff=canon.diff(exp, got)))
                    return False
                if getattr(res, 'graph_id', op['g']) != op['g']:
                    ctx.violation(f'C04/{op["op"]}-graph-id', 'import returns a handle on the requested graph id', w)
                    return False
        if exc is None and op['op'] == 'clone' and op['to'] != op['g']:
            skip = (store == 'disjoint' and bool((before.get(op['to']) or {}).get('nodes')))
            if not skip and before.get(op['g']) is not None:
                ctx.count('clone-equal-checked')
                if any(not isinstance(v, (str, int)) or (isinstance(v, str) and any(ord(c) < 32 and c not in '\t\n' for c in v))
                       for sec in ('nodes', 'edges') for p in before[op['g']][sec].values() for v in p.values()):
                    ctx.count('clone-with-exotic-values')
                if not canon.typed_equal(after.get(op['to']), before.get(op['g'])):
                    ctx.violation('C04/clone-differs', 'a clone has the same content as its source under the new id',
                                  dict(w, diff=canon.diff(before.get(op['g']), after.get(op['to']))))
                    return False
                if not canon.typed_equal(after.get(op['g']), before.get(op['g'])):
                    ctx.violation('C04/clone-changes-source', 'cloning leaves the source unchanged', w)
                    return False
                # independence at the object level: no property dict shared between source and clone
                if shares_objects(imp, op['g'], op['to']):
                    ctx.violation('C04/clone-shares-objects', 'later changes to either do not show up in the other '
                                  '(clone holds its own property dictionaries)', w)
                    return False
        if op['op'] == 'clone':
            used_ids.add(op['to'])
        used_ids.add(op['g'])
        if op['op'] == 'delete_all' and exc is None and after:
            ctx.violation('C04/delete-all-leaves-graphs', 'delete_all_graphs empties the store', dict(w, left=sorted(after)))
            return False
        before = after
        verdict_before = verdict_after
    ctx.seen([store, hist], nontriv)
    return True


def shares_objects(imp, a, b):
    import networkx as nx
    st = canon.raw_storage(imp)

    def dicts(gid):
        if isinstance(st.graphs, nx.Graph):
            ns = [n for n, d in st.graphs.nodes(data=True) if d.get('GraphID') == gid]
            g = st.graphs
        else:
            g = st.graphs[gid]
            ns = list(g.nodes)
        out = {id(g.nodes[n]) for n in ns}
        for x, y, d in g.edges(ns, data=True):
            out.add(id(d))
        return out
    return bool(dicts(a) & dicts(b))


def scenario_clone_then_merge(ctx, imp, cls, rng, tag):
    """Later changes to a graph do not show up in its clone (nor the other way round) - the change being a node merged in with
    the 'combine' policy, which turns a property into a list that grows with every merge."""
    imp.delete_all_graphs()
    ids = {k: f'{k}-{ctx.shard}-{tag}' for k in ('A', 'B1', 'B2', 'B3', 'C')}
    h = {k: cls(graph_id=v, importer=type(imp)()) for k, v in ids.items()}
    prop = rng.choice(['Name', 'Site', 'p0'])
    h['A'].add_node(node_id='x', label='NetworkNode', props={prop: 'a', 'Type': 'Server'})
    h['A'].add_node(node_id='y', label='NetworkNode', props={prop: 'b'})
    h['A'].add_link(node_a='x', rel='connects', node_b='y')
    for k in ('B1', 'B2', 'B3'):
        h[k].add_node(node_id='x', label='NetworkNode', props={prop: 'from-' + k})
    w = {'scenario': 'clone-then-merge', 'store': 'shared', 'property': prop}
    ctx.count('scenario:clone-then-merge')
    try:
        h['A'].merge_nodes(node_id='x', other_graph=h['B1'], merge_properties={prop: 'combine'})
        h['A'].clone_graph(new_graph_id=ids['C'])
        for changed, other, src in (('A', 'C', 'B2'), ('C', 'A', 'B3')):
            before = canon.graph_snapshot(imp, ids[other])
            h[changed].merge_nodes(node_id='x', other_graph=h[src], merge_properties={prop: 'combine'})
            after = canon.graph_snapshot(imp, ids[other])
            ctx.count('clone-independence-after-merge-checked')
            if not canon.typed_equal(before, after):
                ctx.violation('C04/merge-into-one-shows-in-its-clone', 'a clone and its source are independent: later changes to either do '
                              'not show up in the other', dict(w, changed=changed, other=other, diff=canon.diff(before, after)))
                return
    except Exception as e:
        ctx.violation('C04/clone-then-merge-raises', f'{type(e).__name__}: {str(e)[:200]}', w)
    finally:
        imp.delete_all_graphs()


def run(ctx):
    imps = rawgraph.importers()
    rng = ctx.rng
    for k in range(ctx.pick(3, 40)):
        scenario_clone_then_merge(ctx, imps['shared'][0], imps['shared'][1], rng, k)
    n = ctx.pick(500, 6000)
    for i in range(n):
        store = 'shared' if i % 2 == 0 else 'disjoint'
        imp, cls = imps[store]
        _cnt[0] += 1
        gids = [f'g{j}-{ctx.shard}-{_cnt[0]}' for j in range(rng.randrange(2, 5))]
        hist = [gen_op(rng, gids, None) for _ in range(rng.randrange(8, 41))]
        # make sure graphs exist early on
        for j, g in enumerate(gids[:3]):
            hist.insert(j, {'op': 'import_string', 'g': g, 'desc': gen_small(rng), 'fmt': rng.choice(['graphml', 'json']), 'keys': rng.randrange(3)})
        if rng.random() < 0.35:
            # a graph that lost a node is cloned and the clone grows: the clone allocates new internal identities of its own
            g = rng.choice(gids[:3])
            at = rng.randrange(3, len(hist) + 1)
            to = rng.choice(['clone-a', 'clone-b'])
            hist[at:at] = [{'op': 'delete_node', 'g': g, 'nid': rng.choice(NIDS[:2])},
                           {'op': 'clone', 'g': g, 'to': to},
                           {'op': 'add_node', 'g': to, 'nid': 'grown-' + rng.choice(NIDS), 'label': rng.choice(rawgraph.CLASSES),
                            'props': rawgraph.gen_props(rng, 2)}]
            ctx.count('hist:shrunk-graph-cloned-and-grown')
        if rng.random() < 0.3:
            # a store that holds nodes but not a single link, throughout the history
            hist = [op for op in hist if op['op'] != 'add_link']
            for op in hist:
                if 'desc' in op:
                    op['desc'] = dict(op['desc'], edges=[])
            ctx.count('hist:store-without-links')
        for op in hist:
            if rng.random() < 0.25:
                op['own_importer'] = True
                ctx.count('op:through-an-importer-of-its-own')
        ctx.count('store:' + store)
        run_history(ctx, store, imp, cls, hist)
        if i < 1:
            ctx.sample({'store': store, 'history': hist[:6]})
        if ctx.out_of_time():
            break
    for imp, _ in imps.values():
        imp.delete_all_graphs()


def replay(ctx, case):
    imps = rawgraph.importers()
    w = case['witness']
    imp, cls = imps[w['store']]
    run_history(ctx, w['store'], imp, cls, w['history'])


LEVEL_TEXT = ('Runtime monitoring with an invariant/frame-condition hook at every quiescent point: before and after each operation of '
              'an interleaved multi-graph history the whole store object is canonicalised per GraphID; all graphs outside the '
              'operation\'s target must be unchanged, structural store invariants must hold, imports must land complete and '
              'clones must equal (and not share objects with) their source. Both store flavours. Held on what was observed.')
LEVEL_NOTE = ('Trusted: networkx containers, the harness generator. Not covered: merge_nodes / GraphID rewriting (C05, C14), '
              'concurrent use (C20).')
TECHNIQUE = 'frame-condition and structural-invariant hook on the live store after every operation of random multi-graph histories'
