"""C02 - sliver <-> graph / dictionary / JSON conversion preserves every settable field.

Oracle: field-wise canonical equality (vlib.slivergen.canon_sliver) between a generated sliver tree and what comes
back through four conversion paths, plus set/get/unset of every property through real topology elements.
"""
import json
import random

from vlib import slivergen as SG
from vlib import codecgen
from vlib import rawgraph
from vlib import topogen

PROPERTY = 'C02'
LEVEL = 'exploration'
SHARDS = {'quick': 4, 'thorough': 16}
TIME_BUDGET = {"quick": 100, "thorough": 800}

KINDS = SG.KINDS
ELEM = {'node': 'Node', 'component': 'Component', 'service': 'NetworkService', 'interface': 'Interface',
        'link': 'Link'}
PATHS = ('shallow', 'graph', 'dict', 'json')

RULE = ('(a) sliver cases: a sliver tree of one of the 5 kinds (node -> 0-3 components, catalogue-generated or '
        'hand-built -> 0-2 services -> 0-4 interfaces -> 0-3 sub-interfaces under DedicatedPorts; node-level services; '
        'stand-alone components, services, interfaces, links) whose property subset is: all set / none / exactly one '
        '(every property name of cls.list_properties() in turn) / a uniformly sized random subset (nested slivers '
        'always random), values from the typed hostile generators of vlib.codecgen; each tree goes through the '
        'shallow dict round trip + second generation, the graph round trip on both in-memory stores (NetworkxASM or '
        'the plain property graph class, fresh graph id), sliver_to_dict -> build_deep_*_from_dict and the JSON '
        'text form. (b) element cases: a real Experiment/SubstrateTopology on either store, one element of each '
        'kind, a property subset chosen the same way, set in random order (read back after each set and again '
        'after all), then unset one by one through unset_property or set_property(p, None). A case is distinct by '
        'the canonical content of the tree / the ordered (property, value) list; non-trivial when at least one '
        'non-identity property is set or the tree has a nested sliver.')

REQUIRED = (['case:sliver', 'case:element', 'clause:shallow-roundtrip', 'clause:shallow-second-generation',
             'clause:dict-roundtrip', 'clause:dict-second-generation', 'clause:json-roundtrip',
             'clause:graph-roundtrip:shared', 'clause:graph-roundtrip:disjoint', 'clause:graph-nested-rebuild',
             'clause:set-get', 'clause:final-readback', 'clause:unset:unset_property',
             'clause:unset:set_property_none', 'shape:sub-interfaces', 'shape:catalogue-component',
             'shape:handbuilt-component', 'shape:node-level-service', 'mode:all', 'mode:one', 'mode:random'] +
            [f'case:sliver:{k}' for k in KINDS] +
            [f'el:{fl}:{st}' for fl in ('experiment', 'substrate') for st in ('shared', 'disjoint')] +
            [f'set:{k}.{p}' for k in KINDS for p in SG.PINNED[k]] +
            [f'xset:{ELEM[k]}.{p}' for k in KINDS for p in SG.PINNED[k] if p not in SG.STRUCTURAL.get(k, ())])

ASSUMPTIONS = [
    'an attribute object without any value (e.g. Capacities()) is written as the empty string, which the library '
    'documents as "absent" (JSONField.to_json/from_json): such a value and None are the same canonical value',
    'Gateway(None) (an empty shell the constructor tolerates) is not generated; PathInfo/ERO always carry a payload',
    'attribute values are compared through their own to_json (codec fidelity itself is C03)',
    'image_ref/image_type are set together (the pair is stored as one text), image_type is comma-free; node_id is compared on the graph path only; node_map is '
    'compared as a sequence; sub-interfaces only under DedicatedPorts, one level',
    'unset is only demanded for names that are not identity (name, type) and not image_type (documented as unmapped)',
    'in-memory stores only (Neo4j not reachable); CompositeNodeSliver is not generated',
    'held on the executions observed, not a proof']

# names for which `unset_property` is documented NOT to work on its own
UNSET_EXEMPT = {'image_type'}       # "note lack of image type in this mapping"; image_ref removes the pair


def api():
    from fim.graph.abc_property_graph import ABCPropertyGraph as A
    return {
        'to': {'node': A.node_sliver_to_graph_properties_dict, 'component': A.component_sliver_to_graph_properties_dict,
               'service': A.network_service_sliver_to_graph_properties_dict,
               'interface': A.interface_sliver_to_graph_properties_dict, 'link': A.link_sliver_to_graph_properties_dict},
        'from': {'node': A.node_sliver_from_graph_properties_dict,
                 'component': A.component_sliver_from_graph_properties_dict,
                 'service': A.network_service_sliver_from_graph_properties_dict,
                 'interface': A.interface_sliver_from_graph_properties_dict,
                 'link': A.link_sliver_from_graph_properties_dict},
        'deep_from_dict': {'node': A.build_deep_node_sliver_from_dict, 'component': A.build_deep_component_sliver_from_dict,
                           'service': A.build_deep_ns_sliver_from_dict,
                           'interface': A.build_deep_interface_sliver_from_dict,
                           'link': A.build_deep_link_sliver_from_dict},
        'deep': {'node': 'build_deep_node_sliver', 'component': 'build_deep_component_sliver',
                 'service': 'build_deep_ns_sliver', 'interface': 'build_deep_interface_sliver',
                 'link': 'build_deep_link_sliver'},
        'sliver_to_dict': A.sliver_to_dict,
    }


# ----------------------------------------------------------------------------------------------
# vocabulary
def discover(ctx):
    """Discovered vocabulary per kind; inconclusive when a setter has no generator or the element classes
    disagree with the sliver classes."""
    from fim.user.node import Node
    from fim.user.component import Component
    from fim.user.interface import Interface
    from fim.user.network_service import NetworkService
    from fim.user.link import Link
    el = {'node': Node, 'component': Component, 'service': NetworkService, 'interface': Interface, 'link': Link}
    vocab, new, gone, nogen = {}, [], [], []
    for k in KINDS:
        v = tuple(SG.vocabulary(k))
        ev = tuple(el[k].list_properties())
        if sorted(ev) != sorted(v):
            ctx.mark_inconclusive(f'{ELEM[k]}.list_properties() {sorted(ev)} differs from the sliver class {sorted(v)}')
        vocab[k] = v
        new += [f'{k}.{p}' for p in v if p not in SG.PINNED[k]]
        gone += [f'{k}.{p}' for p in SG.PINNED[k] if p not in v]
        for p in v:
            if p in SG.STRUCTURAL.get(k, ()):
                continue
            if SG.generator_for(k, p) is None:
                nogen.append(f'{k}.{p}')
        g = SG.getters(SG.sliver_classes()[k])
        for p in v:
            if p not in g and p not in SG.STRUCTURAL.get(k, ()):
                nogen.append(f'{k}.{p} (no getter)')
    ctx.info['vocabulary'] = {k: list(vocab[k]) for k in KINDS}
    ctx.info['properties_new_since_pin'] = new
    ctx.info['properties_gone_since_pin'] = gone
    ctx.info['properties_without_generator'] = nogen
    for x in nogen:
        ctx.mark_inconclusive(f'settable property {x} has no typed value generator: it is NOT covered')
    for x in gone:
        ctx.mark_inconclusive(f'pinned property {x} is no longer listed by list_properties()')
    # the rest of the vocabulary is still exercised
    bad = {x.split(' ')[0] for x in nogen}
    return {k: tuple(p for p in vocab[k] if f'{k}.{p}' not in bad) for k in KINDS}


# ----------------------------------------------------------------------------------------------
# reporting
GW_NULL = {'cls': 'Gateway', 'json': None}


def key_for(path, d):
    """Mechanism key of one field difference."""
    if d['field'] == 'gateway' and d['expected'] is None and d['observed'] == GW_NULL:
        return 'C02/gateway-absent-decodes-to-object'
    return f"C02/{path}:{d['cls']}.{d['field']}"


def report(ctx, path, diffs, case, extra=None):
    seen = set()
    for d in diffs:
        k = key_for(path, d)
        if k in seen:
            continue
        seen.add(k)
        w = dict(case)
        w.update({'path': path, 'at': d['at'], 'class': d['cls'], 'field': d['field'],
                  'expected': SG.short(d['expected']), 'observed': SG.short(d['observed'])})
        if extra:
            w.update(extra)
        ctx.violation(k, f'{path} conversion: {d["cls"]}.{d["field"]} of the rebuilt sliver equals the original', w)


def raised(ctx, path, kind, e, case, op):
    ctx.violation(f'C02/{path}-raises:{kind}:{type(e).__name__}',
                  f'{op} must not raise on a sliver built through the public setters',
                  dict(case, path=path, op=op, exception=f'{type(e).__name__}: {str(e)[:300]}'))


DEEP_KEYS = ('components', 'network_services', 'interfaces')


def dict_diff(d1, d2, at=''):
    """Differences between two (deep) property dictionaries; '' is the documented spelling of absent."""
    out = []
    a = {k: v for k, v in d1.items() if v != '' and k not in DEEP_KEYS}
    b = {k: v for k, v in d2.items() if v != '' and k not in DEEP_KEYS}
    for k in sorted(set(a) | set(b)):
        if k not in a or k not in b or a[k] != b[k] or type(a[k]) != type(b[k]):
            out.append({'at': at, 'prop': k, 'first': a.get(k, '<absent>'), 'second': b.get(k, '<absent>')})
    for ck in DEEP_KEYS:
        la = {x.get('Name'): x for x in (d1.get(ck) or [])}
        lb = {x.get('Name'): x for x in (d2.get(ck) or [])}
        if set(la) != set(lb):
            out.append({'at': at, 'prop': ck, 'first': sorted(map(str, la)), 'second': sorted(map(str, lb))})
        for n in set(la) & set(lb):
            out.extend(dict_diff(la[n], lb[n], f'{at}/{ck}[{str(n)[:40]}]'))
    return out


def report_dict(ctx, path, kind, diffs, case):
    seen = set()
    for d in diffs:
        if d['prop'] == 'Gateway' and d['first'] == '<absent>' and d['second'] is None:
            k = 'C02/gateway-absent-decodes-to-object'
        else:
            k = f"C02/{path}-second-generation:{d['prop']}"
        if k in seen:
            continue
        seen.add(k)
        ctx.violation(k, f'{path}: the property dictionary of the rebuilt sliver equals the first one',
                      dict(case, path=path, at=d['at'], graph_property=d['prop'], first=SG.short(d['first']),
                           second=SG.short(d['second'])))


# ----------------------------------------------------------------------------------------------
# part (a): sliver conversion paths
def new_graph(store, flavour, gid):
    imp, plain = rawgraph.importers()[store]
    if flavour == 'asm':
        from fim.graph.slices.networkx_asm import NetworkxASM
        return imp, NetworkxASM(graph_id=gid, importer=imp)
    return imp, plain(graph_id=gid, importer=imp)


def sub_interfaces(s):
    """(parent interface sliver, child sliver) for every sub-interface in the tree."""
    out = []
    for _, x in SG.walk(s):
        if SG.kind_of(x) == 'interface' and x.interface_info is not None:
            for c in x.interface_info.interfaces.values():
                out.append((x, c))
    return out


def graph_path(ctx, s, kind, store, gflavour, case, C0):
    from fim.slivers.network_node import NodeType
    A = api()
    imp, g = new_graph(store, gflavour, f'c02-{store}-{case["case_seed"]}')
    imp.delete_all_graphs()
    case = dict(case, store=store, graph_class=type(g).__name__)
    tg = SG.TreeGen(random.Random('aux' + case['case_seed']))
    try:
        if kind == 'node':
            op = 'add_network_node_sliver'
            g.add_network_node_sliver(sliver=s)
        elif kind == 'link':
            op = 'add_network_link_sliver'
            ends = [tg.interface(mode='none', nsub=0) for _ in range(case.get('n_ends', 2))]
            for e in ends:
                e.node_id = 'end-' + e.node_id
                g.add_interface_sliver(parent_node_id=None, interface=e)
            g.add_network_link_sliver(lsliver=s, interfaces=[e.node_id for e in ends])
        else:
            parent = None
            if kind == 'component' or case.get('with_parent'):
                pk = {'component': 'node', 'service': 'node', 'interface': 'service'}[kind]
                p = tg.node(mode='none') if pk == 'node' else tg.service(mode='none', nifs=0)
                p.attached_components_info = None
                p.network_service_info = None
                p.node_id = 'parent-' + p.node_id
                if pk == 'node':
                    g.add_network_node_sliver(sliver=p)
                else:
                    g.add_network_service_sliver(parent_node_id=None, network_service=p)
                parent = p.node_id
            if kind == 'component':
                op = 'add_component_sliver'
                g.add_component_sliver(parent_node_id=parent, component=s)
            elif kind == 'service':
                op = 'add_network_service_sliver'
                g.add_network_service_sliver(parent_node_id=parent, network_service=s)
            else:
                op = 'add_interface_sliver'
                g.add_interface_sliver(parent_node_id=parent, interface=s)
    except Exception as e:
        raised(ctx, 'graph', kind, e, case, op)
        imp.delete_all_graphs()
        return
    # sub-interfaces: the nested add is expected to write them (statement: "any nesting ... sub-interfaces");
    # the documented way to put one into a graph is add_interface_sliver(parent=<port>, child)
    subs = sub_interfaces(s)
    if subs:
        ctx.count('clause:graph-write-sub-interfaces')
        present = set(g.list_all_node_ids())
        missing = [(p, c) for p, c in subs if c.node_id not in present]
        if missing:
            ctx.violation('C02/graph-write-drops-subinterfaces',
                          f'{op} writes the sub-interfaces of a dedicated port into the graph',
                          dict(case, op=op, missing=[c.node_id for _, c in missing][:6],
                               parents=[p.node_id for p, _ in missing][:6]))
            try:
                for p, c in missing:
                    g.add_interface_sliver(parent_node_id=p.node_id, interface=c)
            except Exception as e:
                raised(ctx, 'graph', 'interface', e, case, 'add_interface_sliver(parent=port)')
    try:
        r = getattr(g, A['deep'][kind])(node_id=s.node_id)
        ctx.count(f'clause:graph-roundtrip:{store}')
        ctx.count(f'graph-class:{type(g).__name__}')
        report(ctx, 'graph', SG.diff_canon(C0, SG.canon_sliver(r, with_id=True)), case, {'op': op})
    except Exception as e:
        raised(ctx, 'graph', kind, e, case, A['deep'][kind])
    # every nested sliver can be rebuilt on its own from its node id
    nested = [(p, x) for p, x in SG.walk(s) if p]
    tg.rng.shuffle(nested)
    for p, x in nested[:4]:
        xk = SG.kind_of(x)
        try:
            r = getattr(g, A['deep'][xk])(node_id=x.node_id)
            ctx.count('clause:graph-nested-rebuild')
            report(ctx, 'graph', SG.diff_canon(SG.canon_sliver(x, with_id=True), SG.canon_sliver(r, with_id=True), p),
                   case, {'op': A['deep'][xk], 'nested': p})
        except Exception as e:
            raised(ctx, 'graph', xk, e, dict(case, nested=p), A['deep'][xk])
    imp.delete_all_graphs()


def sliver_case(ctx, vocab, kind, mode, case_seed, idx=0):
    from fim.slivers.json import JSONSliver
    A = api()
    rng = random.Random(case_seed)
    tg = SG.TreeGen(rng, vocab)
    case = {'part': 'sliver', 'kind': kind, 'mode': list(mode) if isinstance(mode, tuple) else mode,
            'case_seed': case_seed, 'idx': idx}
    s = tg.build(kind, mode)
    if kind in ('service', 'interface'):
        case['with_parent'] = rng.random() < 0.5
    if kind == 'link':
        case['n_ends'] = rng.choice([0, 1, 2, 2, 3])
    for k, p in tg.set_log:
        ctx.count(f'set:{k}.{p}')
    ctx.count('case:sliver')
    ctx.count(f'case:sliver:{kind}')
    ctx.count('mode:' + (mode if isinstance(mode, str) else 'one'))
    C0 = SG.canon_sliver(s, with_id=True)
    C0n = SG.canon_sliver(s, with_id=False)
    all_slivers = list(SG.walk(s))
    nvals = sum(1 for k, p in tg.set_log if p not in SG.IDENTITY)
    for sh in tg.shapes:
        ctx.count('shape:' + sh)
    if kind == 'node' and s.network_service_info and s.network_service_info.network_services:
        ctx.count('shape:node-level-service')
    if sub_interfaces(s):
        ctx.count('shape:sub-interfaces')
    ctx.seen({'part': 'sliver', 'tree': C0}, nontrivial=(nvals > 0 or len(all_slivers) > 1))
    ctx.sample({'case': case, 'n_slivers': len(all_slivers), 'properties_set': nvals,
                'top_fields': {k: SG.short(v, 80) for k, v in C0['fields'].items() if v is not None}})
    case['n_slivers'] = len(all_slivers)
    case['properties_set'] = sorted({f'{k}.{p}' for k, p in tg.set_log})[:80]

    # path 1: shallow property dictionary of every sliver in the tree, and its second generation
    for p, x in all_slivers:
        xk = SG.kind_of(x)
        try:
            d = A['to'][xk](x)
            r = A['from'][xk](dict(d))
            ctx.count('clause:shallow-roundtrip')
            exp = SG.canon_sliver(x, with_id=False, deep=False)
            report(ctx, 'shallow', SG.diff_canon(exp, SG.canon_sliver(r, with_id=False, deep=False), p), case,
                   {'dictionary': SG.short(d, 600)})
            d2 = A['to'][xk](r)
            ctx.count('clause:shallow-second-generation')
            report_dict(ctx, 'shallow', xk, dict_diff(d, d2, p), case)
        except Exception as e:
            raised(ctx, 'shallow', xk, e, dict(case, at=p), f'{xk} to/from_graph_properties_dict')

    # path 2: the graph, on both stores
    for j, store in enumerate(('shared', 'disjoint')):
        graph_path(ctx, s, kind, store, 'asm' if (idx + j) % 2 == 0 else 'plain', case, C0)

    # path 3: deep dictionary
    d = None
    try:
        d = A['sliver_to_dict'](s)
        r = A['deep_from_dict'][kind](props=d)
        ctx.count('clause:dict-roundtrip')
        report(ctx, 'dict', SG.diff_canon(C0n, SG.canon_sliver(r, with_id=False)), case)
        d2 = A['sliver_to_dict'](r)
        ctx.count('clause:dict-second-generation')
        report_dict(ctx, 'dict', kind, dict_diff(d, d2), case)
    except Exception as e:
        raised(ctx, 'dict', kind, e, case, 'sliver_to_dict / build_deep_*_from_dict')

    # path 4: JSON text
    try:
        txt = JSONSliver.sliver_to_json(s)
        if kind == 'node':
            r = JSONSliver.node_sliver_from_json(txt)
        elif kind == 'service':
            r = JSONSliver.network_service_sliver_from_json(txt)
        else:       # no dedicated reader: the text is parsed and handed to the dictionary reader
            r = A['deep_from_dict'][kind](props=json.loads(txt))
        ctx.count('clause:json-roundtrip')
        report(ctx, 'json', SG.diff_canon(C0n, SG.canon_sliver(r, with_id=False)), case)
        if d is not None and json.loads(txt) != json.loads(json.dumps(d)):
            ctx.violation('C02/json-text-differs-from-dictionary', 'sliver_to_json is the JSON text of sliver_to_dict',
                          dict(case))
    except Exception as e:
        raised(ctx, 'json', kind, e, case, 'JSONSliver.sliver_to_json / *_from_json')

    # the conversions read the sliver, they do not change it
    C1 = SG.canon_sliver(s, with_id=True)
    if C1 != C0:
        report(ctx, 'input-changed', SG.diff_canon(C0, C1), case)


# ----------------------------------------------------------------------------------------------
# part (b): properties through real topology elements
def build_topology(rng, store, flavour):
    """A small real topology with one element of every kind. Returns (topology, {kind: element})."""
    import fim.user as f
    from fim.slivers.component_catalog import ComponentModelType
    imp, _ = rawgraph.importers()[store]
    imp.delete_all_graphs()
    if flavour == 'experiment':
        t = f.ExperimentTopology(importer=imp)
        n = t.add_node(name='n1', site='RENC')
        c = n.add_component(name='c1', model_type=ComponentModelType.SmartNIC_ConnectX_6)
        n2 = t.add_node(name='n2', site='UKY')
        c2 = n2.add_component(name='c2', model_type=ComponentModelType.SmartNIC_ConnectX_5)
        port = c.interface_list[0]
        if rng.random() < 0.4:
            i = port.add_child_interface(name='child1', labels=f.Labels(vlan='100'))
        else:
            i = port
        ns = t.add_network_service(name='s1', nstype=f.ServiceType.L2Bridge,
                                   interfaces=[c.interface_list[1]] if rng.random() < 0.5 else [])
        lk = t.add_link(name='l1', ltype=f.LinkType.Patch, interfaces=[c2.interface_list[0], c2.interface_list[1]])
    else:
        t = f.SubstrateTopology(importer=imp)
        n = t.add_node(name='w1', node_id='w1-id', site='RENC', ntype=f.NodeType.Server)
        c = n.add_component(name='nic1', node_id='nic1-id', model_type=ComponentModelType.SmartNIC_ConnectX_6,
                            network_service_node_id='nic1-ns', interface_node_ids=['nic1-p1', 'nic1-p2'],
                            interface_labels=[f.Labels(bdf='0000:41:00.0', mac='00:11:22:33:44:55'),
                                              f.Labels(bdf='0000:41:00.1', mac='00:11:22:33:44:56')])
        sw = t.add_node(name='sw1', node_id='sw1-id', site='RENC', ntype=f.NodeType.Switch)
        ns = sw.add_network_service(name='sw1-ns', node_id='sw1-ns-id', nstype=f.ServiceType.MPLS)
        i = ns.add_interface(name='HundredGigE0/0/0/1', node_id='sw1-p1', itype=f.InterfaceType.TrunkPort)
        i2 = ns.add_interface(name='HundredGigE0/0/0/2', node_id='sw1-p2', itype=f.InterfaceType.TrunkPort)
        lk = t.add_link(name='l1', node_id='l1-id', ltype=f.LinkType.Patch,
                        interfaces=[c.interface_list[0], i2])
        if rng.random() < 0.5:
            i = c.interface_list[1]
    return t, {'node': n, 'component': c, 'service': ns, 'interface': i, 'link': lk}


def reference(kind, assignments):
    """Canonical getter values a fresh sliver shows after the same assignments (the expected values)."""
    s = SG.sliver_classes()[kind]()
    for p, v in assignments.items():
        s.set_property(p, v)
    return {p: SG.canon_value(s.get_property(p)) for p in assignments}


def defaults(kind):
    s = SG.sliver_classes()[kind]()
    return {p: SG.canon_value(getattr(s, 'get_' + p)()) for p in SG.getters(type(s))}


def snapshot(topo, el, kind):
    """All getter values of the element, decoded once with the function its get_property uses."""
    A = api()
    _, props = topo.graph_model.get_node_properties(node_id=el.node_id)
    r = A['from'][kind](props)
    return {p: SG.canon_value(getattr(r, 'get_' + p)()) for p in SG.getters(type(r))}


def element_case(ctx, vocab, kind, mode, store, flavour, case_seed):
    rng = random.Random(case_seed)
    K = ELEM[kind]
    case = {'part': 'element', 'kind': kind, 'element': K, 'mode': list(mode) if isinstance(mode, tuple) else mode,
            'store': store, 'topology': flavour, 'case_seed': case_seed}
    topo, els = build_topology(rng, store, flavour)
    el = els[kind]
    ctx.count('case:element')
    ctx.count(f'el:{flavour}:{store}')
    ctx.count('mode:' + (mode if isinstance(mode, str) else 'one'))
    names = [p for p in vocab[kind] if p not in SG.STRUCTURAL.get(kind, ())]
    chosen = SG.choose_props(rng, kind, mode, names)
    rng.shuffle(chosen)
    # group the documented pair into one step
    steps, done = [], set()
    for p in chosen:
        if p in done:
            continue
        q = SG.PAIRS.get(p)
        grp = [p, q] if q and q in chosen else [p]
        done.update(grp)
        steps.append(grp)
    # (done on the element as built, before its other properties - its type among them - are set to arbitrary values)
    # the name, set back to a value the handle has seen before: (a) the name is changed with set_property (which leaves what the
    # handle itself remembers alone) or through a second handle of the element, (b) the first name is assigned again through the
    # first handle - by attribute or rename().  Reading it back gives the name assigned last.
    try:
        orig = el.get_property('name')
        if isinstance(orig, str) and 0 < len(orig) < 200:
            tmp = orig + 'x'
            route = rng.choice(['set_property', 'second-handle'])
            if route == 'set_property':
                el.set_property('name', tmp)
            else:
                type(el)(name=orig, node_id=el.node_id, topo=topo).name = tmp
            back = rng.choice(['attribute', 'rename'])
            if back == 'attribute':
                el.name = orig
            else:
                el.rename(orig)
            ctx.count('clause:name-set-back-get')
            got = el.get_property('name')
            if got != orig:
                ctx.violation(f'C02/name-set-back-get:{K}', 'setting a property on a model element and reading it back returns an equal '
                              'value - the name assigned last, whatever the handle remembered',
                              dict(case, first=orig, changed_to=tmp, changed_through=route, assigned_back_through=back, observed=got))
    except Exception as e:
        ctx.violation(f'C02/name-set-back-raises:{K}:{type(e).__name__}', 'renaming an element back to its first name must not raise',
                      dict(case, exception=f'{type(e).__name__}: {str(e)[:300]}',
                           where=[f'{f.filename.split("/")[-1]}:{f.lineno} {f.name}' for f in __import__('traceback').extract_tb(e.__traceback__)[:14]]))
    init = snapshot(topo, el, kind)
    expected = dict(init)
    trace = []
    try:
        for grp in steps:
            vals = {}
            for p in grp:
                g = SG.generator_for(kind, p)
                if g is None:
                    raise SG.NoGenerator(f'{kind}.{p}')
                vals[p] = g(rng)
            ref = reference(kind, vals)
            if len(grp) == 1:
                el.set_property(grp[0], vals[grp[0]])
                trace.append(['set_property', grp[0], SG.short(ref[grp[0]], 120)])
            else:
                el.set_properties(**vals)
                trace.append(['set_properties', grp, SG.short(ref, 160)])
            for p in grp:
                ctx.count(f'xset:{K}.{p}')
                ctx.count('clause:set-get')
                got = SG.canon_value(el.get_property(p))
                if not SG.G_typed_equal(got, ref[p]):
                    ctx.violation(f'C02/set-get:{K}.{p}', 'get_property(p) after set_property(p, v) equals v',
                                  dict(case, property=p, expected=SG.short(ref[p]), observed=SG.short(got),
                                       trace=trace[-6:]))
                    ref[p] = got
                expected[p] = ref[p]
    except SG.NoGenerator:
        raise
    except Exception as e:
        ctx.violation(f'C02/set-raises:{K}.{"+".join(grp)}:{type(e).__name__}',
                      'set_property/get_property with a value the sliver setter accepts must not raise',
                      dict(case, properties=grp, exception=f'{type(e).__name__}: {str(e)[:300]}', trace=trace[-6:]))
        return
    ctx.seen({'part': 'element', 'kind': kind, 'topology': flavour, 'store': store, 'trace': trace},
             nontrivial=any(p not in SG.IDENTITY for g in steps for p in g))
    # read everything back once all are set: a later set must not have changed an earlier one
    ctx.count('clause:final-readback')
    now = snapshot(topo, el, kind)
    for p in sorted(now):
        if not SG.G_typed_equal(now[p], expected.get(p)):
            if p == 'stitch_node' and expected.get(p) is True and now[p] is False:
                k = 'C02/set-resets-stitch_node'
            else:
                k = f'C02/set-clobbers:{K}.{p}'
            ctx.violation(k, 'a property keeps its value while OTHER properties of the element are set',
                          dict(case, victim=p, expected=SG.short(expected.get(p)), observed=SG.short(now[p]),
                               trace=[t[:2] for t in trace][-12:]))
    expected = now
    # what a read returns is the caller's own copy: editing it in place (the read-modify-write idiom, which the library itself uses
    # in add_child_interface) changes nothing until it is written back
    from fim.slivers.capacities_labels import JSONField
    probed = 0
    for p in sorted(now):
        try:
            v1 = el.get_property(p)
        except Exception:
            continue
        if isinstance(v1, JSONField) and any(x is not None for x in v1.__dict__.values()):
            for k in list(v1.__dict__):
                v1.__dict__[k] = None
            probed += 1
            again = SG.canon_value(el.get_property(p))
            if not SG.G_typed_equal(again, expected.get(p)):
                ctx.violation(f'C02/read-value-shared:{K}.{p}', 'reading a property back returns an equal value - whatever the caller did to '
                              'the object an earlier read returned', dict(case, property=p, expected=SG.short(expected.get(p)), observed=SG.short(again)))
    if probed:
        ctx.count('clause:read-value-independent')
    # set again: a property that already holds a value gets another one (True -> False, long -> short, ...)
    again = [g for g in steps if all(p not in SG.IDENTITY for p in g)]
    rng.shuffle(again)
    for grp in again[:3]:
        vals = {p: SG.generator_for(kind, p)(rng) for p in grp}
        for p in grp:
            if isinstance(expected.get(p), bool) and isinstance(vals[p], bool):
                vals[p] = not expected[p]
        ref = reference(kind, vals)
        try:
            if len(grp) == 1:
                el.set_property(grp[0], vals[grp[0]])
            else:
                el.set_properties(**vals)
            for p in grp:
                ctx.count('clause:set-again-get')
                got = SG.canon_value(el.get_property(p))
                if not SG.G_typed_equal(got, ref[p]):
                    ctx.violation(f'C02/set-again-get:{K}.{p}', 'get_property(p) after set_property(p, v) equals v - also when p already '
                                  'held another value', dict(case, property=p, value_before=SG.short(expected.get(p)),
                                                             expected=SG.short(ref[p]), observed=SG.short(got)))
        except Exception as e:
            ctx.violation(f'C02/set-raises:{K}.{"+".join(grp)}:{type(e).__name__}',
                          'set_property/get_property with a value the sliver setter accepts must not raise',
                          dict(case, properties=grp, exception=f'{type(e).__name__}: {str(e)[:300]}', second_write=True))
    expected = snapshot(topo, el, kind)
    # unset one by one
    dflt = defaults(kind)
    order = [p for g in steps for p in g if p not in SG.IDENTITY and p not in UNSET_EXEMPT]
    rng.shuffle(order)
    for p in order:
        if SG.G_typed_equal(expected.get(p), dflt.get(p)) and p != 'stitch_node':
            continue        # reads as absent already (empty attribute object, pair partner removed, ...)
        how = rng.choice(['unset_property', 'set_property_none'])
        ctx.count('clause:unset:' + how)
        before = expected.get(p)
        try:
            if how == 'unset_property':
                el.unset_property(p)
            else:
                el.set_property(p, None)
            got = SG.canon_value(el.get_property(p))
        except Exception as e:
            ctx.violation(f'C02/unset-raises:{K}.{p}:{type(e).__name__}', f'{how} of a set property must not raise',
                          dict(case, property=p, how=how, exception=f'{type(e).__name__}: {str(e)[:300]}'))
            expected = snapshot(topo, el, kind)
            continue
        if p == 'gateway' and got == GW_NULL and dflt.get(p) is None:
            ctx.violation('C02/gateway-absent-decodes-to-object',
                          'after unset the property reads as absent (None), not as an empty Gateway object',
                          dict(case, property=p, how=how, observed_after=got))
        elif not SG.G_typed_equal(got, dflt.get(p)):
            w = dict(case, property=p, how=how, value_before=SG.short(before), observed_after=SG.short(got),
                     expected_after=dflt.get(p), maps_to_graph_property=topo.graph_model.map_sliver_property_to_graph(p))
            if SG.G_typed_equal(got, before):
                k = f'C02/unset-noop:{p}'
                if how == 'set_property_none':
                    try:        # is it the None branch of set_property, or unset_property itself?
                        el.unset_property(p)
                        if SG.G_typed_equal(SG.canon_value(el.get_property(p)), dflt.get(p)):
                            k = f'C02/set-none-does-not-unset:{K}.{p}'
                    except Exception:
                        pass
                ctx.violation(k, 'after unset_property(p) / set_property(p, None) the property reads as absent', w)
            else:
                ctx.violation(f'C02/unset-wrong:{K}.{p}',
                              'after unset_property(p) / set_property(p, None) the property reads as absent', w)
        now = snapshot(topo, el, kind)
        for q in sorted(now):
            if q == p or (SG.PAIRS.get(p) == q):
                continue
            if not SG.G_typed_equal(now[q], expected.get(q)):
                ctx.violation(f'C02/unset-clobbers:{K}.{q}', 'unsetting one property leaves the others unchanged',
                              dict(case, unset=p, how=how, victim=q, expected=SG.short(expected.get(q)),
                                   observed=SG.short(now[q])))
        expected = now
    rawgraph.importers()[store][0].delete_all_graphs()


# ----------------------------------------------------------------------------------------------
def plan(vocab):
    """The systematic cases every run contains: (part, kind, mode[, store, flavour])."""
    out = []
    for k in KINDS:
        out.append(('sliver', k, 'all'))
        out.append(('sliver', k, 'none'))
        for p in SG.value_props(k, vocab[k]):
            out.append(('sliver', k, ('one', p)))
    n = 0
    combos = [(st, fl) for st in ('shared', 'disjoint') for fl in ('experiment', 'substrate')]
    for k in KINDS:
        for st, fl in combos:
            out.append(('element', k, 'all', st, fl))
        for p in vocab[k]:
            if p in SG.STRUCTURAL.get(k, ()):
                continue
            st, fl = combos[n % 4]
            n += 1
            out.append(('element', k, ('one', p), st, fl))
    return out


def run_one(ctx, vocab, item, case_seed, idx=0):
    topogen.seed_uuid(case_seed)        # ids the library draws from uuid4 are reproducible per case
    if item[0] == 'sliver':
        sliver_case(ctx, vocab, item[1], item[2], case_seed, idx)
    else:
        element_case(ctx, vocab, item[1], item[2], item[3], item[4], case_seed)


def run(ctx):
    SG.use_fast_strings()
    vocab = discover(ctx)
    try:
        items = plan(vocab)
        for i, item in enumerate(items):
            if i % ctx.nshards != ctx.shard:
                continue
            run_one(ctx, vocab, item, f'{ctx.seed}/sys/{i}', i)
        n = ctx.pick(300, 1600)
        combos = [(st, fl) for st in ('shared', 'disjoint') for fl in ('experiment', 'substrate')]
        for i in range(n):
            if ctx.out_of_time():
                break
            rng = ctx.rng
            kind = KINDS[i % len(KINDS)] if rng.random() < 0.5 else 'node'
            mode = 'random' if rng.random() < 0.9 else rng.choice(['all', 'none'])
            seed = f'{ctx.seed}/{ctx.shard}.{ctx.nshards}/r{i}'
            if i % 3 == 2:
                st, fl = combos[(i // 3) % 4]
                run_one(ctx, vocab, ('element', KINDS[(i // 3) % len(KINDS)], mode, st, fl), seed, i)
            else:
                run_one(ctx, vocab, ('sliver', kind, mode), seed, i)
    except SG.NoGenerator as e:
        ctx.mark_inconclusive(f'no value generator for settable property {e}')
    ug = codecgen.ungenerated_fields()
    if ug:
        ctx.info['attribute_fields_without_generator'] = ug
    ut = SG.unknown_value_types()
    if ut:
        ctx.info['getter_value_types_without_canonical_form'] = ut
        ctx.mark_inconclusive(f'getter value types without a canonical form: {ut}')


def replay(ctx, case):
    w = case['witness']
    SG.use_fast_strings()
    vocab = discover(ctx)
    mode = tuple(w['mode']) if isinstance(w['mode'], list) else w['mode']
    topogen.seed_uuid(w['case_seed'])
    if w.get('part') == 'element':
        element_case(ctx, vocab, w['kind'], mode, w['store'], w['topology'], w['case_seed'])
    else:
        sliver_case(ctx, vocab, w['kind'], mode, w['case_seed'], w.get('idx', 0))


LEVEL_TEXT = ('Runtime monitoring by round-trip oracle: generated sliver trees (every settable property of '
              'cls.list_properties(), discovered at run time and compared with a pinned list; all-set, one-at-a-time and '
              'random subsets; nested components/services/interfaces/sub-interfaces) are pushed through the real '
              'conversion functions (shallow property dictionary + second generation, graph write/rebuild on both '
              'in-memory stores, deep dictionary, JSON text) and compared field-wise in canonical form; every '
              'property is also set, read back and unset through real Experiment/Substrate topology elements. '
              'Held on the executions observed.')
LEVEL_NOTE = ('Trusted: the harness generators, the attribute classes\' own to_json used for canonicalisation (their '
              'fidelity is C03), NetworkX. Not covered: Neo4j backend, CompositeNodeSliver, GraphML/JSON file '
              'serialisation of the graph (C01), more than one level of sub-interfaces, Gateway(None).')
TECHNIQUE = 'round-trip / idempotence oracle over generated slivers + set/get/unset sweep on real topology elements'
