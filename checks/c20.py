"""C20 — store lock discipline and identifier allocation under concurrent use.

(1) sequential fault paths with an instrumented lock substituted for storage.lock and a per-call
    balance monitor, incl. source-free failpoints (sys.monitoring raises at every line of every
    critical section);
(2) controlled interleavings: a cooperative scheduler makes every source line of the two store
    files a yield point, runs one thread at a time, enumerates pre-emption placements depth-first up
    to a bound and samples randomly beyond it; final-state oracle + invariant hook at every release.
"""
import ast
import inspect
import json
import os

from vlib import canon, lockmon, rawgraph, sched

PROPERTY = 'C20'
LEVEL = 'exploration'
SHARDS = {'quick': 4, 'thorough': 16}
TIME_BUDGET = {'quick': 70, 'thorough': 1300}
RULE = ('(a) sequential operation sequences on both stores incl. failing ones (imports lacking node ids, duplicate graph ids, '
        'delete-then-reimport, extract of unknown id, delete-all) judged by the per-call lock balance; (b) one failpoint run per '
        '(store method, line of its critical section); (c) interleavings of 2-3 threads x 1-3 store operations '
        '(import_graph_from_string, add_node, clone_graph, add_blank_node_to_graph, delete/re-import) with pre-emption at '
        'every source line of the store files: all placements of up to B pre-emptions (quick B=1 plus a sample of B=2; '
        'thorough B=2 plus samples of B=3) and random schedules. One evaluation = one sequence / failpoint run / schedule; '
        'distinct by its content (schedule = list of (yield index, thread) switches); non-trivial when at least one lock '
        'acquire/release pair was observed')
REQUIRED = ['seq:cases', 'seq:store:shared', 'seq:store:disjoint', 'calls-judged', 'failpoint:runs', 'failpoint:fired',
            'sched:schedules', 'sched:preempted', 'sched:final-state-checked', 'invariant-hook-evaluations',
            'sched:lock-contended', 'first-use:schedules', 'first-use:preempted', 'stress:runs', 'sched:later-allocations-checked']
ASSUMPTIONS = ['pre-emption is explored at source lines of fim/graph/networkx_property_graph.py and '
               'networkx_property_graph_disjoint.py (as the property states); switches inside networkx / networkx_query calls are '
               'not explored',
               'failpoints are placed on lines of the critical section proper (after acquire(), incl. try/except bodies), never on a '
               'line of a finally: block nor on the release() statement itself',
               'the scheduler runs one thread at a time; the lock object is a harness stand-in with the same acquire/release '
               'contract as threading.Lock (release of a free lock raises RuntimeError)']


def store_files():
    import fim.graph.networkx_property_graph as a
    import fim.graph.networkx_property_graph_disjoint as b
    return [a.__file__, b.__file__]


class Env:
    def __init__(self, ctx, scheduler=None):
        self.ctx = ctx
        self.imps = rawgraph.importers()
        for imp, _ in self.imps.values():
            imp.storage.lock  # make sure singletons exist
        self.mons = {
            'shared': lockmon.StoreMonitor(self.imps['shared'][0], 'shared', scheduler, lockmon.shared_invariant),
            'disjoint': lockmon.StoreMonitor(self.imps['disjoint'][0], 'disjoint', scheduler, lockmon.disjoint_invariant),
        }
        self.hook_evals = 0

    def set_sched(self, s):
        for m in self.mons.values():
            m.lock.sched = s

    def reset(self):
        for name, (imp, _) in self.imps.items():
            m = self.mons[name]
            m.lock.force_free()
            m.problems.clear()
            m.lock.hook_problems.clear()
            m.lock.log.clear()
            imp.delete_all_graphs()
            m.problems.clear()
            m.lock.log.clear()

    def close(self):
        for m in self.mons.values():
            m.uninstall()


def graphml_of(desc, graph_id=None, drop_node_id=None):
    import networkx as nx
    g = rawgraph.to_nx(desc, key_style=0, graph_id=graph_id)
    if drop_node_id is not None:
        k = list(g.nodes)[drop_node_id % len(g.nodes)]
        del g.nodes[k]['NodeID']
    return '\n'.join(nx.generate_graphml(g))


def small(rng, n=None, prefix='n'):
    d = rawgraph.gen_graph(rng, n or 1, n or 4, maxprops=1, ints=False)
    m = {}
    for i, x in enumerate(d['nodes']):
        m[x['id']] = f'{prefix}{i}'
        x['id'] = f'{prefix}{i}'
    for e in d['edges']:
        e['a'], e['b'] = m[e['a']], m[e['b']]
    return d


# =========================================================================== (1) sequential
def seq_op(rng, gids):
    g = rng.choice(gids)
    k = rng.randrange(100)
    if k < 18:
        return {'op': 'import', 'g': g, 'desc': small(rng)}
    if k < 28:
        return {'op': 'import_missing_nodeid', 'g': g, 'desc': small(rng), 'drop': rng.randrange(4)}
    if k < 36:
        return {'op': 'import_direct', 'g': g, 'desc': small(rng)}
    if k < 46:
        return {'op': 'delete_graph', 'g': g}
    if k < 56:
        return {'op': 'delete_then_reimport', 'g': g, 'desc': small(rng)}
    if k < 62:
        return {'op': 'extract', 'g': rng.choice(gids + ['unknown'])}
    if k < 66:
        return {'op': 'delete_all'}
    if k < 80:
        return {'op': 'add_node', 'g': g, 'nid': f'x{rng.randrange(6)}'}
    if k < 86:
        return {'op': 'add_blank', 'g': g, 'nid': f'b{rng.randrange(100)}'}
    if k < 92:
        return {'op': 'clone', 'g': g, 'to': rng.choice(gids)}
    if k < 96:
        return {'op': 'serialize', 'g': g}
    return {'op': 'get_graph', 'g': g}


def do_seq(imp, cls, op):
    o = op['op']
    if o == 'import':
        return imp.import_graph_from_string(graph_string=graphml_of(op['desc']), graph_id=op['g'])
    if o == 'import_missing_nodeid':
        return imp.import_graph_from_string(graph_string=graphml_of(op['desc'], drop_node_id=op['drop']), graph_id=op['g'])
    if o == 'import_direct':
        return imp.import_graph_from_string_direct(graph_string=graphml_of(op['desc'], graph_id=op['g']))
    if o == 'delete_graph':
        return imp.delete_graph(graph_id=op['g'])
    if o == 'delete_then_reimport':
        imp.delete_graph(graph_id=op['g'])
        return imp.import_graph_from_string(graph_string=graphml_of(op['desc']), graph_id=op['g'])
    if o == 'extract':
        return imp.storage.extract_graph(op['g'])
    if o == 'delete_all':
        return imp.delete_all_graphs()
    if o == 'add_node':
        return cls(graph_id=op['g'], importer=imp).add_node(node_id=op['nid'], label='NetworkNode', props={'Name': op['nid']})
    if o == 'add_blank':
        return imp.storage.add_blank_node_to_graph(op['g'], Class='NetworkNode', NodeID=op['nid'])
    if o == 'clone':
        return cls(graph_id=op['g'], importer=imp).clone_graph(new_graph_id=op['to'])
    if o == 'serialize':
        return cls(graph_id=op['g'], importer=imp).serialize_graph()
    if o == 'get_graph':
        return imp.storage.get_graph(op['g'])
    raise AssertionError(o)


def classify_lock_problem(store, kind, d, op=None):
    m = d['method']
    if kind == 'double-release' and store == 'disjoint' and m == 'add_graph':
        return 'C20/disjoint-add-graph-existing-id-double-release'
    return f'C20/{store}-{m}-{kind}'


def report_lock_problems(ctx, env, store, w):
    mon = env.mons[store]
    bad = False
    for kind, d in list(mon.problems):
        ctx.violation(classify_lock_problem(store, kind, d), 'every store operation leaves the lock released exactly once on '
                      'every path (normal return, early return, exception)', dict(w, problem=kind, call=d))
        bad = True
    for call, p in mon.lock.hook_problems:
        ctx.violation(f'C20/{store}-invariant-at-release', 'store invariant at release (ids in use below the allocation counter, '
                      'every node has GraphID and NodeID)', dict(w, call=call, problems=p))
        bad = True
    mon.problems.clear()
    mon.lock.hook_problems.clear()
    return bad


def run_sequential(ctx, env, n):
    rng = ctx.subrng('seq')
    for i in range(n):
        store = 'shared' if i % 2 == 0 else 'disjoint'
        imp, cls = env.imps[store]
        env.reset()
        gids = [f's{j}' for j in range(rng.randrange(1, 4))]
        hist = [seq_op(rng, gids) for _ in range(rng.randrange(3, 15))]
        ctx.count('seq:cases')
        ctx.count('seq:store:' + store)
        mon = env.mons[store]
        calls0 = mon.calls
        ok = True
        for step, op in enumerate(hist):
            ctx.count('seq-op:' + op['op'])
            try:
                do_seq(imp, cls, op)
                exc = None
            except lockmon.WouldBlock as e:
                exc = f'WouldBlock: {e}'
            except Exception as e:
                exc = f'{type(e).__name__}: {str(e)[:120]}'
            w = {'mode': 'sequential', 'store': store, 'history': hist[:step + 1], 'step': step, 'exception': exc}
            if mon.lock.locked():
                if not mon.problems:
                    mon.problems.append(('lock-left-held', {'store': store, 'method': '?', 'outcome': exc, 'acquires': 0,
                                                            'releases': 0, 'events': []}))
            if report_lock_problems(ctx, env, store, w):
                ok = False
                break
        ctx.count('calls-judged', mon.calls - calls0)
        ctx.seen(['seq', store, hist], mon.calls > calls0)
        if i < 1:
            ctx.sample({'mode': 'sequential', 'store': store, 'history': hist[:4]})
        if ctx.out_of_time():
            break
    ctx.count('invariant-hook-evaluations', sum(1 for m in env.mons.values() for e in m.lock.log if e[2] == 'release'))


# =========================================================================== failpoints
def critical_lines(cls):
    """{method name: (qualname, [line numbers])} for every method of the storage class that takes the lock."""
    src = inspect.getsource(cls)
    import textwrap
    tree = ast.parse(textwrap.dedent(src))
    base = inspect.getsourcelines(cls)[1] - 1
    out = {}

    def is_lock_call(node, what):
        return (isinstance(node, ast.Expr) and isinstance(node.value, ast.Call) and
                isinstance(node.value.func, ast.Attribute) and node.value.func.attr == what and
                isinstance(node.value.func.value, ast.Attribute) and node.value.func.value.attr == 'lock')

    def collect(stmts, acc, in_final=False):
        for s in stmts:
            if is_lock_call(s, 'release') or is_lock_call(s, 'acquire'):
                continue
            if isinstance(s, ast.Try):
                collect(s.body, acc)
                for h in s.handlers:
                    collect(h.body, acc)
                collect(s.orelse, acc)
                # finalbody: never a failpoint
                continue
            if isinstance(s, ast.Pass) or (isinstance(s, ast.Return) and
                                           (s.value is None or isinstance(s.value, (ast.Constant, ast.Name)))):
                # `return <name|constant>` / `pass` cannot raise; inside try/finally CPython attributes the line event
                # of such a return to an instruction *outside* the protected range (the inlined finally copy follows),
                # so injecting there would manufacture a path the program cannot have
                continue
            acc.append(s.lineno + base)
            for fld in ('body', 'orelse'):
                sub = getattr(s, fld, None)
                if isinstance(sub, list) and sub and isinstance(sub[0], ast.stmt):
                    collect(sub, acc)
    cdef = tree.body[0]
    for f in cdef.body:
        if not isinstance(f, ast.FunctionDef):
            continue
        idx = next((i for i, s in enumerate(f.body) if is_lock_call(s, 'acquire')), None)
        if idx is None:
            continue
        acc = []
        collect(f.body[idx + 1:], acc)
        fn = cls.__dict__.get(f.name)
        fn = getattr(fn, '__wrapped__', fn)
        out[f.name] = sorted(set(acc))
    return out


def failpoint_calls(imp, cls, gid):
    """For each store method a call (with set-up) that reaches it, along several paths."""
    d1, d2 = small(__import__('random').Random(1), 3), small(__import__('random').Random(2), 2)
    st = imp.storage
    import networkx as nx
    return {
        'add_graph': [lambda: st.add_graph(gid, rawgraph.to_nx(d1, 0)),                      # fresh id
                      lambda: (st.add_graph(gid, rawgraph.to_nx(d1, 0)), st.add_graph(gid, rawgraph.to_nx(d2, 0))),  # existing id
                      lambda: st.add_graph(gid, nx.Graph([(1, 2)]))],                       # nodes without NodeID
        'add_graph_direct': [lambda: st.add_graph_direct(gid, rawgraph.to_nx(d1, 0, gid)),
                             lambda: (st.add_graph_direct(gid, rawgraph.to_nx(d1, 0, gid)),
                                      st.add_graph_direct(gid, rawgraph.to_nx(d2, 0, gid)))],
        'del_graph': [lambda: (st.add_graph(gid, rawgraph.to_nx(d1, 0)), st.del_graph(gid)), lambda: st.del_graph('nope')],
        'extract_graph': [lambda: (st.add_graph(gid, rawgraph.to_nx(d1, 0)), st.extract_graph(gid)),
                          lambda: st.extract_graph('nope')],
        'get_graph': [lambda: st.get_graph(gid)],
        'del_all_graphs': [lambda: (st.add_graph(gid, rawgraph.to_nx(d1, 0)), st.del_all_graphs())],
        'add_blank_node_to_graph': [lambda: st.add_blank_node_to_graph(gid, Class='X', NodeID='b')],
    }


def run_failpoints(ctx, env):
    files = store_files()
    for store in ('shared', 'disjoint'):
        imp, cls = env.imps[store]
        mon = env.mons[store]
        scls = mon.cls
        lines = critical_lines(scls)
        ctx.info.setdefault('critical_section_lines', {})[store] = {k: len(v) for k, v in lines.items()}
        calls = failpoint_calls(imp, cls, 'fp')
        qual = {m: mon.orig[m].__qualname__ for m in mon.orig}
        fname = mon.orig[next(iter(mon.orig))].__code__.co_filename
        n = 0
        for m, lns in lines.items():
            if m not in calls:
                ctx.info.setdefault('failpoint_methods_without_driver', []).append(f'{store}.{m}')
                continue
            for ci, call in enumerate(calls[m]):
                # which of the critical lines does this call reach?
                env.reset()
                rec = sched.LineRecorder()
                sched.activate([fname], rec)
                try:
                    try:
                        call()
                    except Exception:
                        pass
                finally:
                    sched.deactivate()
                reached = sorted({ln for q, ln in rec.seen if q == qual[m] and ln in lns})
                for ln in reached:
                    n += 1
                    if n % ctx.nshards != ctx.shard:
                        continue
                    env.reset()
                    fp = sched.Failpoint(fname, qual[m], ln)
                    sched.activate([fname], fp)
                    exc = None
                    try:
                        try:
                            call()
                        except sched.Injected as e:
                            exc = str(e)
                        except lockmon.WouldBlock as e:
                            exc = f'WouldBlock: {e}'
                        except Exception as e:
                            exc = f'{type(e).__name__}: {str(e)[:100]}'
                    finally:
                        sched.deactivate()
                    ctx.count('failpoint:runs')
                    if fp.fired:
                        ctx.count('failpoint:fired')
                    w = {'mode': 'failpoint', 'store': store, 'method': m, 'path': ci, 'line': ln, 'exception': exc}
                    ctx.seen(['fp', store, m, ci, ln], True)
                    if ctx.counters['failpoint:runs'] <= 1:
                        ctx.sample(w)
                    held = mon.lock.locked()
                    # the next call must not block: probe the inner lock without waiting
                    free = mon.lock.inner.acquire(False)
                    if free:
                        mon.lock.inner.release()
                    if held or not free:
                        k = f'C20/{store}-{m}-exception-leaves-lock-held'
                        ctx.violation(k, 'an exception inside a store operation leaves the lock released (later callers do not '
                                      'block)', dict(w, held_by=mon.lock.owner_call))
                        mon.problems.clear()
                    else:
                        # the allocation invariant is not judged after an injected exception in the middle of a
                        # critical section (the property asks for lock discipline there, not for transactions)
                        mon.lock.hook_problems.clear()
                        report_lock_problems(ctx, env, store, w)
    env.reset()


# =========================================================================== (2) interleavings
REFUSED_IN_THREAD = [0]


def thread_programs(rng, store):
    """2-3 threads x 1-3 operations with pairwise distinct node ids; returns (programs, expectation builder)."""
    nthreads = rng.choice([2, 2, 2, 3])
    progs = []
    for t in range(nthreads):
        ops = []
        for k in range(rng.choice([1, 2, 2, 3]) if nthreads == 2 else rng.choice([1, 2])):
            r = rng.random()
            if r < 0.35:
                ops.append({'op': 'add_node', 'g': rng.choice(['G0', 'G1']), 'nid': f't{t}k{k}'})
            elif r < 0.55:
                ops.append({'op': 'add_blank', 'g': rng.choice(['G0', 'G1']), 'nid': f't{t}b{k}'})
            elif r < 0.8:
                ops.append({'op': 'import', 'g': f'I{t}{k}', 'desc': small(rng, rng.randrange(1, 4), prefix=f't{t}i{k}n')})
            elif r < 0.88:
                ops.append({'op': 'clone', 'g': 'G0', 'to': f'C{t}{k}'})
            else:
                ops.append({'op': 'reimport', 'g': rng.choice(['G1', 'G2', 'G2']) if store == 'shared' else f'R{t}{k}',
                            'desc': small(rng, 2, prefix=f't{t}r{k}n')})
        if rng.random() < 0.3:
            # an import the store refuses (a node without NodeID): the exception path of the critical section, pre-empted like any other
            ops.insert(rng.randrange(len(ops) + 1), {'op': 'import_missing_nodeid', 'g': f'F{t}', 'desc': small(rng, 3, prefix=f't{t}f'),
                                                     'drop': rng.randrange(1, 3)})
        progs.append(ops)
    if rng.random() < 0.2:
        # one thread empties the whole store while the others work (what is left afterwards depends on the order; the store's
        # bookkeeping must not)
        p = rng.choice(progs)
        p.insert(rng.randrange(len(p) + 1), {'op': 'delete_all'})
    return progs


def expected_final(progs, base):
    """Per graph the set of NodeIDs that must be there after all threads finished, for graphs
    whose final content does not depend on the interleaving; others are returned as 'order-dependent'."""
    exp = {g: set(ids) for g, ids in base.items()}
    dep = set()
    reimported = {op['g'] for p in progs for op in p if op['op'] == 'reimport'}
    clones = [op for p in progs for op in p if op['op'] == 'clone']
    for p in progs:
        for op in p:
            if op['op'] in ('add_node', 'add_blank'):
                exp.setdefault(op['g'], set()).add(op['nid'])
            elif op['op'] in ('import', 'reimport'):
                exp[op['g']] = {x['id'] for x in op['desc']['nodes']} | (set() if op['op'] == 'import' else set())
    for g in reimported:
        # adds racing with a replace, or two replaces: content depends on the order.  A graph replaced by one thread and touched
        # by nobody else ends up with exactly the nodes of the replacement.
        touching = [op for p in progs for op in p if op.get('g') == g]
        if len(touching) > 1:
            dep.add(g)
    for c in clones:
        dep.add(c['to'])    # snapshot of G0 at some moment
    if any(op['op'] == 'delete_all' for p in progs for op in p):
        dep |= set(exp)     # whatever was there before the store was emptied is gone, whatever came after stays
    return exp, dep


def run_schedule(ctx, env, store, progs, plan=None, chooser=None):
    imp, cls = env.imps[store]
    env.set_sched(None)
    env.reset()
    base_desc = {'G0': small(__import__('random').Random(5), 2, prefix='g0n'), 'G1': small(__import__('random').Random(6), 2, prefix='g1n'),
                 'G2': small(__import__('random').Random(7), 3, prefix='g2n')}
    for g, d in base_desc.items():
        imp.import_graph_from_string(graph_string=graphml_of(d), graph_id=g)
    env.mons[store].problems.clear()
    base = {g: {x['id'] for x in d['nodes']} for g, d in base_desc.items()}
    s = sched.Scheduler(plan=plan, chooser=chooser)
    env.set_sched(s)
    blank_ids = []

    def body(ops):
        def run():
            for op in ops:
                o = op['op']
                if o == 'add_blank':
                    blank_ids.append((op['g'], imp.storage.add_blank_node_to_graph(op['g'], Class='NetworkNode', NodeID=op['nid'])))
                elif o == 'reimport':
                    imp.import_graph_from_string(graph_string=graphml_of(op['desc']), graph_id=op['g'])
                elif o == 'import_missing_nodeid':
                    try:
                        do_seq(imp, cls, op)
                    except RuntimeError:
                        raise                       # a lock error is an outcome to judge
                    except Exception:
                        REFUSED_IN_THREAD[0] += 1   # the refusal itself is expected
                else:
                    do_seq(imp, cls, op)
        return run
    sched.activate(store_files(), s.on_line)
    try:
        finished = s.run({f'T{i}': body(p) for i, p in enumerate(progs)})
    finally:
        sched.deactivate()
        env.set_sched(None)
    return s, finished, base, blank_ids


def judge_schedule(ctx, env, store, progs, s, finished, base, blank_ids, w):
    imp, cls = env.imps[store]
    mon = env.mons[store]
    if not finished:
        ctx.mark_inconclusive('a scheduled run hit the 60 s watchdog')
        return False
    if s.deadlock:
        ctx.violation(f'C20/{store}-deadlock', 'no interleaving leaves a thread blocked forever on the store lock', w)
        return False
    if s.abort:
        ctx.mark_inconclusive('scheduled run aborted (step limit)')
        return False
    bad = report_lock_problems(ctx, env, store, w)
    if s.errors:
        # an exception in a thread is an outcome; only lock errors are judged (above). RuntimeError from the lock itself:
        for t, e in s.errors.items():
            if 'release unlocked lock' in e and not bad:
                ctx.violation(f'C20/{store}-release-error-in-thread', 'no call fails with a lock error', dict(w, thread=t, error=e))
                bad = True
    if bad:
        return False
    ctx.count('sched:final-state-checked')
    snap, facts = canon.store_snapshot(imp)
    exp, dep = expected_final(progs, base)
    errs = set(s.errors)
    for g, ids in exp.items():
        if g in dep:
            continue
        got = set(snap.get(g, {'nodes': {}})['nodes'])
        if got != ids and not errs:
            ctx.violation(f'C20/{store}-lost-or-extra-node', 'each graph ends up with exactly the nodes added to it',
                          dict(w, graph=g, missing=sorted(ids - got), extra=sorted(got - ids)))
            return False
    total = sum(len(c['nodes']) for c in snap.values())
    if total != facts['total_nodes'] or facts['no_graph_id']:
        ctx.violation(f'C20/{store}-store-structure', 'stored nodes = sum over graphs', dict(w, facts=str(facts)[:300]))
        return False
    by_graph = {}
    for g, i in blank_ids:
        key = g if store == 'disjoint' else '*'
        if i in by_graph.setdefault(key, set()):
            ctx.violation(f'C20/{store}-internal-id-handed-out-twice', 'no internal identifier is handed out twice', dict(w, id=i))
            return False
        by_graph[key].add(i)
    # identifiers handed out AFTER the threads are done must be new as well: every graph gets a few more nodes, one caller at a time,
    # and keeps all it had
    ctx.count('sched:later-allocations-checked')
    mon.problems.clear()
    for g in sorted(snap):
        had = set(snap[g]['nodes'])
        new = [f'epilogue-{g}-{j}' for j in range(3)]
        try:
            for nid in new:
                imp.storage.add_blank_node_to_graph(g, Class='NetworkNode', NodeID=nid)
        except Exception as e:
            ctx.violation(f'C20/{store}-later-allocation-raises', f'creating a node after the threads finished raised {type(e).__name__}: {e}',
                          dict(w, graph=g))
            return False
        now = set((canon.graph_snapshot(imp, g) or {'nodes': {}})['nodes'])
        if now != had | set(new):
            ctx.violation(f'C20/{store}-later-allocation-overwrites-a-node', 'no internal identifier is handed out twice: nodes created after '
                          'the threads finished take the place of nodes the graph already had',
                          dict(w, graph=g, missing=sorted((had | set(new)) - now)))
            return False
    if report_lock_problems(ctx, env, store, dict(w, phase='later allocations')):
        return False
    return True


def explore(ctx, env, nprog):
    rng = ctx.subrng('sched')
    for pi in range(nprog):
        store = 'shared' if pi % 2 == 0 else 'disjoint'
        progs = thread_programs(rng, store)
        # baseline run: no pre-emption; learn the choice points
        s0, fin, base, blanks = run_schedule(ctx, env, store, progs, plan={})
        w0 = {'mode': 'schedule', 'store': store, 'programs': progs, 'plan': {}}
        ctx.count('sched:schedules')
        ctx.seen(['sched', store, progs, []], True)
        judge_schedule(ctx, env, store, progs, s0, fin, base, blanks, w0)
        if pi < 1:
            ctx.sample({'mode': 'schedule', 'store': store, 'programs': progs, 'yield_points': s0.step,
                        'choice_points': len(s0.choice_points)})
        ctx.count('sched:yield-points', s0.step)
        cps = list(s0.choice_points)
        # depth 1: every placement of one pre-emption
        budget1 = ctx.pick(140, 100000)
        stride = max(1, len(cps) * 1 // budget1)
        depth1 = []
        for ci, (step, cur, others) in enumerate(cps):
            if ci % stride:
                continue
            for to in others:
                plan = {step: to}
                s1, fin, base, blanks = run_schedule(ctx, env, store, progs, plan=plan)
                ctx.count('sched:schedules')
                if s1.switches:
                    ctx.count('sched:preempted')
                w = dict(w0, plan={str(k): v for k, v in plan.items()})
                ctx.seen(['sched', store, progs, sorted(plan.items())], True)
                judge_schedule(ctx, env, store, progs, s1, fin, base, blanks, w)
                depth1.append((plan, s1))
            if ctx.out_of_time():
                return
        # depth 2 (and 3 in thorough): second pre-emption after the first, sampled
        n2 = ctx.pick(40, 1500)
        for _ in range(n2):
            if not depth1:
                break
            plan, s1 = rng.choice(depth1)
            later = [c for c in s1.choice_points if c[0] > max(plan)]
            if not later:
                continue
            step, cur, others = rng.choice(later)
            plan2 = dict(plan)
            plan2[step] = rng.choice(others)
            if not ctx.quick and rng.random() < 0.3:
                more = [c for c in later if c[0] > step]
                if more:
                    st3, _, oth3 = rng.choice(more)
                    plan2[st3] = rng.choice(oth3)
            s2, fin, base, blanks = run_schedule(ctx, env, store, progs, plan=plan2)
            ctx.count('sched:schedules')
            ctx.count(f'sched:preemptions-{len(plan2)}')
            if s2.switches:
                ctx.count('sched:preempted')
            w = dict(w0, plan={str(k): v for k, v in plan2.items()})
            ctx.seen(['sched', store, progs, sorted(plan2.items())], True)
            judge_schedule(ctx, env, store, progs, s2, fin, base, blanks, w)
            if ctx.out_of_time():
                return
        # random schedules: switch with probability p at every yield point
        for r in range(ctx.pick(15, 400)):
            rr = ctx.subrng('rand', pi, r)
            p = rr.choice([0.02, 0.05, 0.2])
            made = []

            def chooser(step, cur, runnable, rr=rr, p=p, made=made):
                if runnable and rr.random() < p:
                    t = rr.choice(runnable)
                    made.append((step, t))
                    return t
                return None
            s3, fin, base, blanks = run_schedule(ctx, env, store, progs, chooser=chooser)
            ctx.count('sched:schedules')
            ctx.count('sched:random')
            if s3.switches:
                ctx.count('sched:preempted')
            w = dict(w0, plan={str(k): v for k, v in made})
            ctx.seen(['sched', store, progs, made], True)
            judge_schedule(ctx, env, store, progs, s3, fin, base, blanks, w)
            if ctx.out_of_time():
                return


# ------------------------------------------------------------------ first use of the store by several threads at once
def _outer_store_class(store):
    if store == 'shared':
        from fim.graph.networkx_property_graph import NetworkXGraphStorage as O, NetworkXGraphImporter as I
    else:
        from fim.graph.networkx_property_graph_disjoint import NetworkXGraphStorageDisjoint as O, NetworkXGraphImporterDisjoint as I
    return O, I


def run_first_use_schedule(ctx, env, store, nthreads, plan):
    """Each thread makes its own importer (the store object behind them is made on first use) and imports one graph; the
    process has not used the store before.  Yield points: the lines of the store constructors only (the locks of a store made
    inside the run are not the harness's, so nothing is pre-empted while one of them is held); a lock the store classes or
    their modules keep for the construction itself is replaced by a scheduler-aware one."""
    import sys
    import threading
    from vlib import lockmon
    O, I = _outer_store_class(store)
    cls = env.imps[store][1]
    saved = O.storage_instance
    locktypes = (type(threading.Lock()), type(threading.RLock()))
    swapped = []
    s = sched.Scheduler(plan=plan)
    for holder in (O, sys.modules[O.__module__]):
        for k, v in list(vars(holder).items()):
            if isinstance(v, locktypes):
                swapped.append((holder, k, v))
                setattr(holder, k, lockmon.MonitoredLock(f'{store}-construction', s))
    O.storage_instance = None
    descs = [small(__import__('random').Random(40 + t), 2, prefix=f'u{t}n') for t in range(nthreads)]

    def body(t):
        def run():
            imp = I()
            imp.import_graph_from_string(graph_string=graphml_of(descs[t]), graph_id=f'U{t}')
        return run

    def on_line(code, line):
        if code.co_qualname.endswith('__init__') and 'GraphStorage' in code.co_qualname:
            return s.on_line(code, line)
    sched.activate(store_files(), on_line)
    try:
        finished = s.run({f'T{t}': body(t) for t in range(nthreads)})
        sched.deactivate()
        lost = {}
        if finished and not s.abort:
            probe = I()
            for t in range(nthreads):
                g = cls(graph_id=f'U{t}', importer=probe)
                have = set(g.list_all_node_ids()) if g.graph_exists() else None
                want = {x['id'] for x in descs[t]['nodes']}
                if have != want:
                    lost[f'U{t}'] = {'expected': sorted(want), 'found': None if have is None else sorted(have)}
    finally:
        sched.deactivate()
        O.storage_instance = saved
        for holder, k, v in swapped:
            setattr(holder, k, v)
    return s, finished, lost


def judge_first_use(ctx, store, nthreads, plan, s, finished, lost):
    w = {'mode': 'first-use', 'store': store, 'threads': nthreads, 'plan': {str(k): v for k, v in plan.items()}}
    ctx.count('first-use:schedules')
    ctx.seen(['first-use', store, nthreads, sorted(plan.items())], True)
    if not finished:
        ctx.mark_inconclusive('a first-use run hit the 60 s watchdog')
        return
    if s.deadlock:
        ctx.violation(f'C20/{store}-first-use-deadlock', 'no interleaving leaves a thread blocked forever', w)
        return
    if s.errors:
        ctx.violation(f'C20/{store}-first-use-raises', 'importing through an importer of one\'s own works whoever came first',
                      dict(w, errors=s.errors))
        return
    if s.switches:
        ctx.count('first-use:preempted')
    if lost:
        ctx.violation(f'C20/{store}-first-use-loses-a-graph', 'threads that each make an importer and import a graph at the same '
                      'time: every graph is in the store afterwards with the nodes imported', dict(w, graphs=lost))


def explore_first_use(ctx, env):
    for store in ('shared', 'disjoint'):
        for nthreads in (2, 3):
            s0, fin, lost = run_first_use_schedule(ctx, env, store, nthreads, {})
            judge_first_use(ctx, store, nthreads, {}, s0, fin, lost)
            cps = list(s0.choice_points)
            ctx.count('first-use:yield-points', s0.step)
            done1 = []
            for step, cur, others in cps:
                for to in others:
                    plan = {step: to}
                    s1, fin, lost = run_first_use_schedule(ctx, env, store, nthreads, plan)
                    judge_first_use(ctx, store, nthreads, plan, s1, fin, lost)
                    done1.append((plan, s1))
            # a second pre-emption after the first, every placement (the constructors are a few lines)
            for plan, s1 in done1:
                for step, cur, others in s1.choice_points:
                    if step <= max(plan):
                        continue
                    for to in others:
                        p2 = dict(plan)
                        p2[step] = to
                        s2, fin, lost = run_first_use_schedule(ctx, env, store, nthreads, p2)
                        judge_first_use(ctx, store, nthreads, p2, s2, fin, lost)
                if ctx.out_of_time():
                    return


# ------------------------------------------------------------------ real threads, no scheduler
def stress_real_threads(ctx):
    """Three OS threads create nodes at the same time (tiny switch interval, the store's own lock, no harness in between): into
    graphs of their own and into one graph, on both flavours.  Every call must succeed and every node must be there."""
    import sys
    import threading
    imps = rawgraph.importers()
    K = ctx.pick(250, 600)
    import time as _time
    old = sys.getswitchinterval()
    for store, same in (('shared', False), ('shared', True), ('disjoint', False), ('disjoint', True)):
        imp, cls = imps[store]
        imp.delete_all_graphs()
        errors = []
        gid = (lambda t: 'S') if same else (lambda t: f'S{t}')

        done = {}
        deadline = _time.monotonic() + 60

        def body(t):
            g = cls(graph_id=gid(t), importer=type(imp)())
            n = 0
            for i in range(K):
                if _time.monotonic() > deadline:
                    break           # a loaded machine: what was done so far is judged, nothing keeps running behind the next phase
                try:
                    g.add_node(node_id=f's{t}-{i}', label='NetworkNode', props={'Name': f's{t}-{i}'})
                except Exception as e:
                    errors.append((t, i, type(e).__name__, str(e)[:80]))
                n = i + 1
            done[t] = n
        ths = [threading.Thread(target=body, args=(t,), daemon=True) for t in range(3)]
        sys.setswitchinterval(1e-6)
        try:
            for th in ths:
                th.start()
            for th in ths:
                th.join(timeout=120)
        finally:
            sys.setswitchinterval(old)
        if any(th.is_alive() for th in ths):
            ctx.mark_inconclusive('real-thread stress did not finish within the watchdog')
            return
        ctx.count('stress:runs')
        ctx.count('stress:create-node-calls', sum(done.values()))
        ctx.seen(['stress', store, same], True)
        w = {'mode': 'real-threads', 'store': store, 'one_graph_for_all': same, 'threads': 3, 'calls_per_thread': K}
        if errors:
            kinds = sorted({e[2] for e in errors})
            ctx.violation(f'C20/{store}-creating-nodes-concurrently-fails:{kinds[0]}', 'several threads create nodes concurrently: no call fails '
                          'and no node is lost', dict(w, failed_calls=len(errors), first=errors[:3]))
            continue
        snap = canon.store_snapshot(imp)[0]
        for t in range(3):
            want = {f's{t}-{i}' for i in range(done.get(t, 0))}
            have = set(snap.get(gid(t), {'nodes': {}})['nodes'])
            if not want <= have:
                ctx.violation(f'C20/{store}-lost-node-under-real-threads', 'several threads create nodes concurrently: no node is lost',
                              dict(w, thread=t, missing=sorted(want - have)[:5], missing_count=len(want - have)))
                break
    # one thread copies a graph again and again (clone = extract + import under a new id) while two others add nodes to it
    for store in ('shared', 'disjoint'):
        imp, cls = imps[store]
        imp.delete_all_graphs()
        base = cls(graph_id='S', importer=imp)
        for i in range(300):
            base.add_node(node_id=f'base-{i}', label='NetworkNode')
        errors, clones = [], []
        stop = threading.Event()

        added = {}
        deadline = _time.monotonic() + 60

        def adder(t):
            g = cls(graph_id='S', importer=type(imp)())
            n = 0
            for i in range(K // 2):
                if _time.monotonic() > deadline:
                    break
                try:
                    g.add_node(node_id=f'a{t}-{i}', label='NetworkNode')
                except Exception as e:
                    errors.append(('add_node', t, i, type(e).__name__, str(e)[:80]))
                n = i + 1
            added[t] = n
            stop.set()

        def cloner():
            g = cls(graph_id='S', importer=type(imp)())
            k = 0
            while not stop.is_set() and k < 400 and _time.monotonic() < deadline:
                k += 1
                try:
                    g.clone_graph(new_graph_id=f'copy-{k}')
                    clones.append(k)
                except Exception as e:
                    errors.append(('clone_graph', k, type(e).__name__, str(e)[:80]))
        ths = [threading.Thread(target=adder, args=(t,), daemon=True) for t in range(2)] + [threading.Thread(target=cloner, daemon=True)]
        sys.setswitchinterval(1e-6)
        try:
            for th in ths:
                th.start()
            for th in ths:
                th.join(timeout=120)
        finally:
            sys.setswitchinterval(old)
        if any(th.is_alive() for th in ths):
            ctx.mark_inconclusive('real-thread stress (copy while adding) did not finish within the watchdog')
            return
        ctx.count('stress:runs')
        ctx.count('stress:copies-made-while-adding', len(clones))
        w = {'mode': 'real-threads', 'store': store, 'scenario': 'one thread copies graph S while two add nodes to it'}
        if errors:
            ctx.violation(f'C20/{store}-copying-a-graph-while-nodes-are-added-fails:{errors[0][0]}:{errors[0][-2]}', 'several threads import '
                          '(copy) graphs and create nodes concurrently: no call fails', dict(w, failed_calls=len(errors), first=errors[:3]))
            continue
        have = set((canon.graph_snapshot(imp, 'S') or {'nodes': {}})['nodes'])
        want = {f'base-{i}' for i in range(300)} | {f'a{t}-{i}' for t in range(2) for i in range(added.get(t, 0))}
        if have != want:
            ctx.violation(f'C20/{store}-lost-node-under-real-threads', 'no node is lost', dict(w, missing=sorted(want - have)[:5]))
    for imp, _ in imps.values():
        imp.delete_all_graphs()


def _run_workload(ctx):
    if ctx.shard == 0:
        # (cheap and exhaustive: done first, so that a loaded machine cannot squeeze it out of the time budget)
        env0 = Env(ctx)
        try:
            explore_first_use(ctx, env0)
        finally:
            env0.close()
        stress_real_threads(ctx)
    env = Env(ctx)
    try:
        # patch: contention counter through the scheduler
        orig_block = sched.Scheduler.block_on

        def block_on(self, lock):
            ctx.count('sched:lock-contended')
            return orig_block(self, lock)
        sched.Scheduler.block_on = block_on
        try:
            run_sequential(ctx, env, ctx.pick(150, 1500))
            run_failpoints(ctx, env)
            explore(ctx, env, ctx.pick(6, 60))
            ctx.count('sched:refused-imports-inside-threads', REFUSED_IN_THREAD[0])
        finally:
            sched.Scheduler.block_on = orig_block
        ctx.count('invariant-hook-evaluations', 0)
    finally:
        env.close()


def replay(ctx, case):
    w = case['witness']
    env = Env(ctx)
    try:
        if w.get('mode') == 'schedule':
            plan = {int(k): v for k, v in w['plan'].items()}
            s, fin, base, blanks = run_schedule(ctx, env, w['store'], w['programs'], plan=plan)
            judge_schedule(ctx, env, w['store'], w['programs'], s, fin, base, blanks, w)
        elif w.get('mode') == 'first-use':
            plan = {int(k): v for k, v in w['plan'].items()}
            s, fin, lost = run_first_use_schedule(ctx, env, w['store'], w['threads'], plan)
            judge_first_use(ctx, w['store'], w['threads'], plan, s, fin, lost)
        elif w.get('mode') == 'sequential':
            imp, cls = env.imps[w['store']]
            env.reset()
            for op in w['history']:
                try:
                    do_seq(imp, cls, op)
                except Exception:
                    pass
            report_lock_problems(ctx, env, w['store'], w)
        else:
            run_failpoints(ctx, env)
    finally:
        env.close()


LEVEL_TEXT = ('Runtime monitoring of the real store code: an instrumented lock substituted for storage.lock with per-call balance '
              'accounting (acquires == releases, nothing held at return or raise, no release error) and an invariant hook run '
              'under the lock at every release; fault enumeration by source-free failpoints at every line of every critical '
              'section; controlled interleavings from a cooperative scheduler (sys.monitoring LINE events = yield points, one '
              'thread at a time, replayable plans): all single pre-emption placements, sampled double/triple placements and random '
              'schedules, judged by a final-state oracle (no lost node, no id handed out twice, per-graph node sets). Held on '
              'the schedules and fault points explored.')
LEVEL_NOTE = ('Trusted: sys.monitoring line events as the pre-emption granularity, the harness lock stand-in, networkx '
              'containers. Not covered: switches inside networkx calls, more than 3 threads, wall-clock behaviour.')
TECHNIQUE = 'instrumented lock + per-call balance monitor, failpoint enumeration, cooperative-scheduler interleaving exploration'


def run(ctx):
    _run_workload(ctx)
    # thorough tier: the repository's own tests replayed under the monitors (one shard does it)
    if not ctx.quick and ctx.shard == 0:
        from vlib import pytest_monitors
        pytest_monitors.run_under_monitors(ctx, 'C20/')
