"""C08 — removal and disconnection delete exactly the owned structure and nothing else.

Reference prediction from the pre-state snapshot by an independent ownership-closure function
(vlib.topogen.TM); every applicable removal/disconnect operation of a reachable topology is run on a
restored copy of that state and the post-state must equal pre-state minus the predicted set.
Handle check: the handle the operation was performed through lists the same interfaces as a fresh lookup.
"""
import json

from vlib import canon, rawgraph, topogen

PROPERTY = 'C08'
LEVEL = 'exploration'
SHARDS = {'quick': 4, 'thorough': 16}
TIME_BUDGET = {'quick': 70, 'thorough': 1300}
RULE = ('reachable topologies (random valid building histories of length 15-45, both flavours, both stores), frozen; then EVERY '
        'applicable removal/disconnect operation of that state (remove node/facility/switch/component/storage/service/node-service/'
        'link/sub-interface/service interface, disconnect_interface, unpeer), each on a restored copy of the state. One evaluation = '
        'one (state, operation); distinct by (state hash, operation); non-trivial when the predicted deletion set has more than one '
        'element')
REQUIRED = ['ops:disconnect-through-out-of-date-handle', 'ops:remove-child-through-kept-port-handle', 'states', 'ops', 'ops:remove_node', 'ops:remove_component', 'ops:remove_network_service', 'ops:disconnect_interface',
            'ops:remove_child_interface', 'ops:unpeer', 'ops:remove_link', 'ops:remove_facility', 'ops:remove_switch',
            'ops:service_remove_interface', 'ops:remove_node_service', 'prediction-compared', 'handle-compared',
            'shape:connected-sub-interface', 'shape:link-with-3-ends', 'shape:peered-services', 'shape:connected-interface-removed',
            'flavour:experiment', 'flavour:substrate']
ASSUMPTIONS = ['a Link is expected to disappear when fewer than two of its end points survive (a shared link with >=3 ends survives the '
               'loss of one); a Link that had a single end point may be present or absent afterwards (code and docstrings disagree)',
               'remove_link deletes the link only (what it leaves behind for rule 13 is C07\'s finding)',
               'states are restored between operations at the store level (delete + add_graph of a saved copy)']


def predict(tm, op):
    """Set of node ids that must be gone after op (None = not applicable / unspecified)."""
    o = op['op']
    by_name = lambda cls, name, pool=None: [i for i in (pool if pool is not None else tm.ids(cls)) if tm.name(i) == name]

    def artefacts(cps):
        """service-side ports peering with these interfaces + links, per the link rule."""
        gone = set()
        for cp in cps:
            for l in tm.links_of(cp):
                for p in tm.link_ends(l):
                    # (a node interface's service-side port; and the far port of a peering when this side's port goes)
                    if p != cp and tm.typ(p) == 'ServicePort':
                        gone.add(p)
        return gone

    def close(deleted):
        deleted = set(deleted)
        cps = {i for i in deleted if tm.cls(i) == 'ConnectionPoint'}
        deleted |= artefacts(cps)
        cps = {i for i in deleted if tm.cls(i) == 'ConnectionPoint'}
        dontcare = set()
        for l in tm.ids('Link'):
            ends = tm.link_ends(l)
            if not any(e in cps for e in ends):
                continue
            surv = [e for e in ends if e not in cps]
            if len(ends) <= 1:
                dontcare.add(l)
            elif len(surv) < 2:
                deleted.add(l)
        return deleted, dontcare

    if o in ('remove_node', 'remove_facility', 'remove_switch'):
        n = by_name('NetworkNode', op['name'])
        if len(n) != 1:
            return None
        return close({n[0]} | tm.owned_by_node(n[0]))
    if o in ('remove_component', 'remove_storage'):
        n = by_name('NetworkNode', op['node'])
        if len(n) != 1:
            return None
        c = by_name(None, op['name'], tm.components(n[0]))
        if len(c) != 1:
            return None
        return close({c[0]} | tm.owned_by_component(c[0]))
    if o in ('remove_network_service', 'remove_node_service'):
        s = by_name('NetworkService', op['name'])
        if len(s) != 1:
            return None
        own = tm.owned_by_service(s[0])
        # peering with another service: the other side's port goes as well
        extra = set()
        for cp in own:
            if tm.typ(cp) == 'ServicePort':
                extra |= {p for p in tm.peers(cp) if tm.typ(p) == 'ServicePort'}
        return close({s[0]} | own | extra)
    if o == 'remove_link':
        l = by_name('Link', op['name'])
        if len(l) != 1:
            return None
        return {l[0]}, set()
    if o == 'remove_child_interface':
        return close({op['_child_id']})
    if o == 'service_remove_interface':
        return close({op['_iface_id']} | set(tm.children(op['_iface_id'])))
    if o == 'disconnect_interface':
        i = op['_iface_id']
        ports = [p for p in tm.peers(i) if tm.typ(p) == 'ServicePort']
        if len(tm.peers(i)) != 1:
            return None
        return close(set(tm.peers(i)))
    if o == 'unpeer':
        a, b = op['_a_id'], op['_b_id']
        ports = set()
        for cp in tm.ifaces_of_service(a):
            for p in tm.peers(cp):
                if tm.cp_parent(p) == b and tm.typ(cp) == 'ServicePort' and tm.typ(p) == 'ServicePort':
                    ports |= {cp, p}
        if len(ports) != 2:
            return None      # peered twice / not peered: unspecified which pair goes
        return close(ports)
    return None


def applicable_ops(tm, g):
    """Every removal/disconnect operation the state offers."""
    ops = []
    for n in tm.ids('NetworkNode'):
        t = tm.typ(n)
        nm = tm.name(n)
        if t == 'Facility':
            ops.append({'op': 'remove_facility', 'name': nm})
        elif t == 'Switch':
            ops.append({'op': 'remove_switch', 'name': nm})
            ops.append({'op': 'remove_node', 'name': nm})
        else:
            ops.append({'op': 'remove_node', 'name': nm})
        for c in tm.components(n):
            ops.append({'op': 'remove_component', 'node': nm, 'name': tm.name(c)})
            if tm.typ(c) == 'Storage':
                ops.append({'op': 'remove_storage', 'node': nm, 'name': tm.name(c)})
        for sv in tm.services_of(n):
            if t != 'Facility':
                ops.append({'op': 'remove_node_service', 'node': nm, 'name': tm.name(sv)})
                # the topology-level call accepts a node's own service as well
                if [tm.name(x) for x in tm.ids('NetworkService')].count(tm.name(sv)) == 1:
                    ops.append({'op': 'remove_network_service', 'name': tm.name(sv)})
                for i in tm.ifaces_of_service(sv):
                    # (the harness addresses a service by its name through the topology-wide view: a name two services carry -
                    # a switch renamed, its old name given to a new switch, both keep '<old name>-ns' - does not address one)
                    if g.substrate and [tm.name(x) for x in tm.ids('NetworkService')].count(tm.name(sv)) == 1:
                        ops.append({'op': 'service_remove_interface', 'service': tm.name(sv), 'name': tm.name(i), '_iface_id': i})
    top = tm.top_services()
    for s in top:
        ops.append({'op': 'remove_network_service', 'name': tm.name(s)})
    for l in tm.ids('Link'):
        ops.append({'op': 'remove_link', 'name': tm.name(l)})
    refs = g.iface_refs(tm)
    for ref, i in refs:
        if len(ref) == 3:
            ops.append({'op': 'remove_child_interface', 'iface': ref[:2], 'name': ref[2], '_child_id': i})
        prs = tm.peers(i)
        if len(prs) == 1 and tm.typ(prs[0]) == 'ServicePort':
            svc = tm.cp_parent(prs[0])
            if svc in top:
                ops.append({'op': 'disconnect_interface', 'service': tm.name(svc), 'iface': ref, '_iface_id': i, 'cached': False})
                ops.append({'op': 'disconnect_interface', 'service': tm.name(svc), 'iface': ref, '_iface_id': i, 'cached': True})
                ops.append({'op': 'disconnect_interface', 'service': tm.name(svc), 'iface': ref, '_iface_id': i, 'cached': 'creation'})
    seen = set()
    allsvc = tm.ids('NetworkService')
    names = [tm.name(x) for x in allsvc]
    uniq = [x for x in allsvc if names.count(tm.name(x)) == 1]       # the harness addresses services by name
    pairs = {}
    for s in uniq:
        for cp in tm.ifaces_of_service(s):
            for p in tm.peers(cp):
                q = tm.cp_parent(p)
                if q in uniq and q != s:
                    both = tm.typ(cp) == 'ServicePort' and tm.typ(p) == 'ServicePort'
                    pairs[(s, q)] = pairs.get((s, q), False) or both
    for (s, q), peered in sorted(pairs.items()):
        if (q, s) in seen:
            continue
        seen.add((s, q))
        if peered:
            ops.append({'op': 'unpeer', 'a': tm.name(s), 'b': tm.name(q), '_a_id': s, '_b_id': q, 'cached': True})
        else:
            # an interface of q connected to s is not a peering of the two services
            ops.append({'op': 'unpeer', 'a': tm.name(s), 'b': tm.name(q), '_a_id': s, '_b_id': q, 'cached': False, '_refusal': True})
    # two services that do NOT peer but sit close to each other in the model (own services of two components of one node, two
    # services of one node): un-peering them is refused and removes nothing
    for n in tm.ids('NetworkNode'):
        near = [sv for c in tm.components(n) for sv in tm.services_of(c) if sv in uniq] + [sv for sv in tm.services_of(n) if sv in uniq]
        for a in near:
            for b in near:
                if a != b and (a, b) not in seen and (b, a) not in seen and len(ops) < 400:
                    seen.add((a, b))
                    ops.append({'op': 'unpeer', 'a': tm.name(a), 'b': tm.name(b), '_a_id': a, '_b_id': b, 'cached': False, '_refusal': True})
                    break
    return ops


def shapes(ctx, tm):
    for cp in tm.ids('ConnectionPoint'):
        if tm.typ(cp) == 'SubInterface' and tm.peers(cp):
            ctx.count('shape:connected-sub-interface')
    for l in tm.ids('Link'):
        if len(tm.link_ends(l)) >= 3:
            ctx.count('shape:link-with-3-ends')
    for s in tm.top_services():
        for cp in tm.ifaces_of_service(s):
            if any(tm.typ(p) == 'ServicePort' for p in tm.peers(cp)):
                ctx.count('shape:peered-services')


def restore(imp, gid, saved):
    imp.storage.add_graph_direct(gid, saved.copy())


_HCOUNT = [0]


def handle_ids(h, first=0):
    """What a handle reports about its interfaces: the list, the name-keyed view, and - for services - the printed form.
    Reading one of them may bring the handle up to date for the others, so the caller rotates which one is read first."""
    def printed():
        if type(h).__name__ not in ('NetworkService', 'PortMirrorService'):
            return None
        try:
            return repr(h)
        except Exception as e:
            return f'raises {type(e).__name__}'

    def named():
        try:
            return sorted(i.node_id for i in h.interfaces.values())
        except Exception as e:
            return f'raises {type(e).__name__}'

    def listed():
        return sorted(i.node_id for i in h.interface_list)
    acc = [('interface_list', listed), ('interfaces', named), ('printed', printed)]
    acc = acc[first % 3:] + acc[:first % 3]
    return {k: f() for k, f in acc}


def check_state(ctx, imp, store, flavour, topo, script):
    gid = topo.graph_model.graph_id
    pre = canon.graph_snapshot(imp, gid)
    if pre is None:
        return
    saved = imp.storage.extract_graph(gid)
    tm = topogen.TM(pre)
    g = topogen.Gen(ctx.rng, topo, flavour)
    shapes(ctx, tm)
    ctx.count('states')
    shash = __import__('vlib.core', fromlist=['digest']).digest(pre)
    others_before = {k: v for k, v in canon.store_snapshot(imp)[0].items() if k != gid}
    creation_handles = dict(getattr(topo, '_verif_handles', {}))      # handles returned when the services were created
    ops = applicable_ops(tm, g)
    # on a loaded machine the time budget may end in the middle of a state: the operations that go through kept handles come
    # first, the rest in a shuffled order (not always the same prefix - nodes, components, ... - of every state)
    ctx.rng.shuffle(ops)
    ops.sort(key=lambda o: 0 if (o.get('cached') not in (None, False) or o['op'] in ('remove_child_interface', 'unpeer', 'remove_node_service'))
             else 1)
    for op in ops:
        if ctx.out_of_time():
            break
        exp = predict(tm, op)
        pub = {k: v for k, v in op.items() if not k.startswith('_')}
        w = {'store': store, 'flavour': flavour, 'script': script, 'op': pub}
        # handles through which the operation is performed, obtained BEFORE it (what a user holds)
        handles = {}
        pre_stale = False
        try:
            if op.get('cached') == 'creation':
                h0 = creation_handles.get(op['service'])
                if h0 is None or h0.node_id not in pre['nodes']:
                    continue
                handles['service'] = h0
                ctx.count('ops:disconnect-through-creation-time-handle')
                # a handle made before the service got (some of) its interfaces through other handles: what the handle itself
                # remembers is out of date before the call; what it reports afterwards is judged like any other handle's
                kept = getattr(h0, '_interfaces', None)
                if kept is None or sorted(i.node_id for i in kept) != sorted(tm.ifaces_of_service(h0.node_id)):
                    ctx.count('ops:disconnect-through-out-of-date-handle')
            elif op['op'] in ('disconnect_interface', 'service_remove_interface'):
                handles['service'] = topogen.get_service(topo, op['service'])
            if op['op'] == 'unpeer':
                handles['a'] = topogen.get_service(topo, op['a'])
                handles['b'] = topogen.get_service(topo, op['b'])
            if op['op'] == 'remove_child_interface':
                handles['iface'] = topogen.get_iface(topo, op['iface'])
                # ... or the handle of that port the building history kept (children may have come through other handles since)
                kept = getattr(topo, '_verif_iface_handles', {}).get('/'.join(map(str, op['iface'])))
                if kept is not None and kept.node_id == handles['iface'].node_id and op.get('cached') is not False:
                    remembered = getattr(kept, '_interfaces', None)
                    if remembered is None or sorted(i.node_id for i in remembered) != sorted(i.node_id for i in handles['iface'].interface_list):
                        ctx.count('ops:remove-child-through-out-of-date-port-handle')
                    ctx.count('ops:remove-child-through-kept-port-handle')
                    handles['iface'] = kept
        except topogen.Unresolved:
            continue
        if op.get('cached') is not False and handles:
            topo._verif_handles = {}
            for k in ('service', 'a', 'b'):
                if k in handles:
                    topo._verif_handles[op[k] if k != 'service' else op['service']] = handles[k]
        ctx.count('ops')
        ctx.count('ops:' + op['op'])
        try:
            if op['op'] == 'remove_child_interface':
                handles['iface'].remove_child_interface(name=op['name'])
            else:
                topogen.execute(topo, dict(pub, cached=bool(handles) and op.get('cached') is not False))   # 'creation' is truthy
            exc = None
        except topogen.Unresolved:
            restore(imp, gid, saved)
            continue
        except Exception as e:
            exc = f'{type(e).__name__}: {str(e)[:200]}'
        post = canon.graph_snapshot(imp, gid) or {'nodes': {}, 'edges': {}}
        ctx.seen([shash, pub], exp is not None and len(exp[0]) > 1)
        if op.get('_refusal'):
            ctx.count('ops:unpeer-of-services-that-do-not-peer')
            if exc is None or post != pre:
                ctx.violation('C08/unpeer-of-services-that-do-not-peer-removes-elements' if post != pre else
                              'C08/unpeer-of-services-that-do-not-peer-accepted',
                              'un-peering leaves every other element of the model exactly as it was (two services that do not peer: '
                              'nothing is removed, the call is refused)', dict(w, exception=exc, diff=canon.diff(pre, post)))
        elif exc is not None:
            ctx.violation(f'C08/{op["op"]}-raises', 'an applicable removal succeeds', dict(w, exception=exc))
        elif exp is not None:
            deleted, dontcare = exp
            if any(tm.cls(i) == 'ConnectionPoint' and tm.typ(i) != 'ServicePort' and tm.peers(i) for i in deleted):
                ctx.count('shape:connected-interface-removed')
            ctx.count('prediction-compared')
            expected = {'nodes': {k: v for k, v in pre['nodes'].items() if k not in deleted},
                        'edges': {k: v for k, v in pre['edges'].items() if not (set(json.loads(k)) & deleted)}}
            got = {'nodes': dict(post['nodes']), 'edges': dict(post['edges'])}
            for l in dontcare:
                for side in (expected, got):
                    side['nodes'].pop(l, None)
                    for k in [k for k in side['edges'] if l in json.loads(k)]:
                        side['edges'].pop(k)
            if not canon.typed_equal(expected, got):
                left = sorted(set(got['nodes']) - set(expected['nodes']))
                lost = sorted(set(expected['nodes']) - set(got['nodes']))
                kind = 'leaves-behind' if left and not lost else ('deletes-too-much' if lost and not left else 'wrong-result')
                what = sorted({f"{tm.typ(i)}" if tm.cls(i) == 'ConnectionPoint' else f"{tm.cls(i)}" for i in (left or lost) if i in tm.n})
                ctx.violation(f'C08/{op["op"]}-{kind}:{"+".join(what[:3])}', 'the operation deletes exactly the element, what it owns and its '
                              'peering artefacts, and leaves everything else as it was',
                              dict(w, left_behind=[(i, tm.name(i), tm.typ(i)) for i in left][:6],
                                   lost=[(i, tm.name(i), tm.typ(i)) for i in lost][:6], diff=canon.diff(expected, got)[:6]))
        # other graphs in the store untouched
        others_after = {k: v for k, v in canon.store_snapshot(imp)[0].items() if k != gid}
        if others_after != others_before:
            ctx.violation(f'C08/{op["op"]}-touches-other-graph', 'a removal does not touch other graphs', w)
        # handle consistency
        if exc is None and op.get('cached') is not False:
            for k, h in handles.items():
                nid = h.node_id
                if nid not in post['nodes']:
                    continue
                ctx.count('handle-compared')
                try:
                    fresh = type(h)(name=post['nodes'][nid]['Name'], node_id=nid, topo=topo)
                    _HCOUNT[0] += 1
                    a, b = handle_ids(h, _HCOUNT[0]), handle_ids(fresh, _HCOUNT[0])
                except Exception as e:
                    ctx.violation(f'C08/{op["op"]}-handle-unusable', 'the handle remains usable', dict(w, error=str(e)[:200]))
                    continue
                if a != b:
                    ctx.violation(f'C08/{op["op"]}-handle-stale:{k}', 'the handle through which the operation was performed lists the '
                                  'same interfaces as a freshly looked-up handle', dict(w, handle=k, handle_lists=a, fresh_lists=b))
        restore(imp, gid, saved)
        topo._verif_handles = dict(creation_handles)


def build_state(ctx, imp, flavour, tag):
    rng = ctx.subrng('state', tag)
    topogen.seed_uuid(f'{ctx.seed}/{ctx.shard}/s{tag}')
    imp.delete_all_graphs()
    by = topogen.new_topology(imp, 'experiment')
    by.add_node(name='bystander', site='X')
    topo = topogen.new_topology(imp, flavour)
    script = []

    def hook(op, res, exc):
        if res == 'ok':
            script.append(op)
    g = topogen.Gen(rng, topo, flavour, p_valid=1.0)
    n = rng.randrange(15, 46)
    for _ in range(n):
        op = g.next_op()
        # building phase: skip removals so that states stay rich
        if op['op'].startswith('remove') or op['op'] in ('disconnect_interface', 'unpeer', 'service_remove_interface'):
            if rng.random() < 0.8:
                continue
        try:
            topogen.execute(topo, op)
            script.append(op)
        except Exception:
            pass
    # force the shapes the statement names
    forced = force_shapes(rng, topo, flavour, g)
    script += forced
    return topo, script


def force_shapes(rng, topo, flavour, g):
    done = []

    def do(op):
        try:
            topogen.execute(topo, op)
            done.append(op)
            return True
        except Exception:
            return False
    sub = flavour == 'substrate'
    nid = (lambda p: g.fresh(p + '-id')) if sub else (lambda p: None)
    n1 = g.fresh('fn')
    do({'op': 'add_node', 'name': n1, 'node_id': nid('n'), 'site': 'RENC', 'ntype': 'VM'})
    c = g.fresh('fc')
    opc = {'op': 'add_component', 'node': n1, 'name': c, 'node_id': nid('c'), 'model_type': 'SmartNIC_ConnectX_6'}
    if sub:
        b = g.fresh('nic')
        opc.update(ns_node_id=b + '-sf', if_node_ids=[b + '-p1', b + '-p2'], if_labels=[{'mac': '04:3F:72:B7:15:01'}, {'mac': '04:3F:72:B7:15:02'}])
    do(opc)
    # two services of ONE node that peer (closer to each other over their 'has' edges than over the peering link)
    sn = g.fresh('fsn')
    if do({'op': 'add_node', 'name': sn, 'node_id': nid('n'), 'site': 'RENC', 'ntype': 'Switch'}):
        pa, pb = g.fresh('fp'), g.fresh('fp')
        do({'op': 'add_node_service', 'node': sn, 'name': pa, 'node_id': nid('ns'), 'nstype': 'L3VPN', 'kw': {}})
        do({'op': 'add_node_service', 'node': sn, 'name': pb, 'node_id': nid('ns'), 'nstype': 'L3VPN', 'kw': {}})
        do({'op': 'peer', 'a': pa, 'b': pb})
    s1, s2 = g.fresh('sub'), g.fresh('sub')
    do({'op': 'add_child_interface', 'iface': [n1, c + '-p1'], 'name': s1, 'node_id': nid('sub'), 'kw': {'labels': {'vlan': '100'}}})
    do({'op': 'add_child_interface', 'iface': [n1, c + '-p1'], 'name': s2, 'node_id': nid('sub'), 'kw': {'labels': {'vlan': '101'}}})
    if not sub:
        sa, sb = g.fresh('fs'), g.fresh('fs')
        second = [n1, c + '-p2']
        if rng.random() < 0.5:
            # sub-interface names are unique within their parent port only: the same name under the other port, attached to
            # the same service, gives that service two ports of one name
            if do({'op': 'add_child_interface', 'iface': [n1, c + '-p2'], 'name': s1, 'node_id': None, 'kw': {'labels': {'vlan': '100'}}}):
                second = [n1, c + '-p2', s1]
        do({'op': 'add_network_service', 'name': sa, 'node_id': None, 'nstype': 'L2Bridge', 'interfaces': [[n1, c + '-p1', s1], second]})
        do({'op': 'add_network_service', 'name': sb, 'node_id': None, 'nstype': 'L2STS', 'interfaces': [[n1, c + '-p1', s2]]})
        do({'op': 'peer', 'a': sa, 'b': sb})
        # a switch port with a sub-interface that is connected to a service of its own
        fsw, fsub = g.fresh('fsw'), g.fresh('sub')
        if do({'op': 'add_switch', 'name': fsw, 'node_id': None, 'site': 'RENC', 'nports': 2}):
            if do({'op': 'add_child_interface', 'iface': [fsw, 'p1'], 'name': fsub, 'node_id': None, 'kw': {'labels': {'vlan': '300'}}}):
                fbr = g.fresh('fs')
                if do({'op': 'add_network_service', 'name': fbr, 'node_id': None, 'nstype': 'L2Bridge', 'interfaces': [[fsw, 'p1', fsub], [fsw, 'p2']]}):
                    # ... and the bridge also peers with the switch's own service: a peering beside a connection of the same two services
                    do({'op': 'peer', 'a': fbr, 'b': fsw + '-ns'})
        # a handle put aside, the service renamed through another handle, then peered 'with the renamed one' through the old
        # handle: a service offered to itself as peer (refused by a correct library, so the shape is then simply absent)
        sc, scn = g.fresh('fs'), g.fresh('rn')
        if do({'op': 'add_network_service', 'name': sc, 'node_id': None, 'nstype': 'L3VPN', 'interfaces': None}):
            do({'op': 'keep_handle', 'service': sc})
            do({'op': 'rename', 'elem': ['service', sc], 'new': scn})
            do({'op': 'peer', 'a': ['kept'], 'b': scn})
        # a port of a node's own service that is connected to a slice-wide service AND carries a plain link to another interface
        xsw, xn, xc, xs = g.fresh('fsw'), g.fresh('fn'), g.fresh('fc'), g.fresh('fs')
        if do({'op': 'add_switch', 'name': xsw, 'node_id': None, 'site': 'RENC', 'nports': 2}) and \
                do({'op': 'add_node', 'name': xn, 'node_id': None, 'site': 'RENC', 'ntype': 'VM'}) and \
                do({'op': 'add_component', 'node': xn, 'name': xc, 'node_id': None, 'model_type': 'SmartNIC_ConnectX_6'}):
            if do({'op': 'add_network_service', 'name': xs, 'node_id': None, 'nstype': 'L2Bridge', 'interfaces': [[xsw, 'p1'], [xsw, 'p2']]}):
                do({'op': 'add_link', 'name': g.fresh('l'), 'node_id': None, 'ltype': 'Patch', 'interfaces': [[xsw, 'p1'], [xn, xc + '-p1']]})
        # a service whose creating handle is kept while, through a handle looked up later, one interface is taken off and another
        # connected (as many as before, other ones)
        wn, wc1, wc2, ws = g.fresh('fn'), g.fresh('fc'), g.fresh('fc'), g.fresh('swp')
        if do({'op': 'add_node', 'name': wn, 'node_id': None, 'site': 'RENC', 'ntype': 'VM'}) and \
                do({'op': 'add_component', 'node': wn, 'name': wc1, 'node_id': None, 'model_type': 'SmartNIC_ConnectX_6'}) and \
                do({'op': 'add_component', 'node': wn, 'name': wc2, 'node_id': None, 'model_type': 'SmartNIC_ConnectX_6'}):
            if do({'op': 'add_network_service', 'name': ws, 'node_id': None, 'nstype': 'L2Bridge',
                   'interfaces': [[wn, wc1 + '-p1'], [wn, wc1 + '-p2']]}):
                do({'op': 'disconnect_interface', 'service': ws, 'iface': [wn, wc1 + '-p1'], 'cached': False})
                do({'op': 'connect_interface', 'service': ws, 'iface': [wn, wc2 + '-p1'], 'cached': False})
    else:
        sw = g.fresh('fsw')
        do({'op': 'add_switch', 'name': sw, 'node_id': g.fresh('sw-id'), 'site': 'RENC', 'nports': 3})
        do({'op': 'add_link', 'name': g.fresh('l'), 'node_id': g.fresh('l-id'), 'ltype': 'Patch',
            'interfaces': [[n1, c + '-p2'], [sw, 'p1'], [sw, 'p2']]})
        do({'op': 'add_link', 'name': g.fresh('l'), 'node_id': g.fresh('l-id'), 'ltype': 'Patch', 'interfaces': [[n1, c + '-p1'], [sw, 'p3']]})
    return done


def run(ctx):
    imps = rawgraph.importers()
    n = ctx.pick(14, 250)
    for i in range(n):
        store = 'shared' if i % 3 != 2 else 'disjoint'
        flavour = 'experiment' if i % 2 == 0 else 'substrate'
        imp = imps[store][0]
        topo, script = build_state(ctx, imp, flavour, i)
        ctx.count('flavour:' + flavour)
        if i == 0:
            ctx.sample({'flavour': flavour, 'script': script[:6], 'ops': [o['op'] for o in applicable_ops(topogen.tm_of(topo), topogen.Gen(ctx.rng, topo, flavour))][:12]})
        check_state(ctx, imp, store, flavour, topo, script)
        if ctx.out_of_time():
            break
    for imp, _ in imps.values():
        imp.delete_all_graphs()


def replay(ctx, case):
    imps = rawgraph.importers()
    w = case['witness']
    imp = imps[w['store']][0]
    imp.delete_all_graphs()
    topogen.seed_uuid('replay')
    topo = topogen.new_topology(imp, w['flavour'])
    for op in w['script']:
        try:
            topogen.execute(topo, op)
        except Exception:
            pass
    check_state(ctx, imp, w['store'], w['flavour'], topo, w['script'])


LEVEL_TEXT = ('Runtime monitoring against a reference prediction: for reachable topologies every applicable removal/disconnect '
              'operation is executed on a restored copy of the state and the post-state snapshot must equal the pre-state minus the '
              'set predicted by an independent ownership-closure function (element, owned structure, service-side port and link of '
              'each connected interface; shared links survive while two ends remain); everything else must be identical, other graphs '
              'untouched, and the handle used must list the same interfaces as a fresh lookup. Held on the operations observed.')
LEVEL_NOTE = ('Trusted: the ownership closure in vlib/topogen.TM, store-level restore of a saved copy. Not covered: prune(), '
              'Neo4j-backed topologies.')
TECHNIQUE = 'reference-model prediction (ownership closure) compared with before/after snapshots for every applicable removal'
