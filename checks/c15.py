"""C15 — capacity arithmetic and comparison obey their algebraic laws.

Monitors: icontract post-conditions on the real Capacities.__add__/__sub__/
__lt__/__gt__/__eq__/negative_fields/positive_fields (they also run when other
workloads or the repository's tests reach these functions) + generator-driven
law checks on pairs/triples.
"""
from vlib import contracts as K
from vlib.contracts import Sink

PROPERTY = 'C15'
LEVEL = 'exploration'
SHARDS = {'quick': 2, 'thorough': 16}
RULE = ('pairs/triples of Capacities over all fields discovered from a fresh Capacities() (values from '
        '{0,1,2,7,2^16,2^31,2^63} and random ints, sparse and dense; equal, dominated and incomparable operands); '
        'a case is distinct by the field dictionaries of its operands and non-trivial when at least one operand '
        'has a non-zero field')
REQUIRED = ['mon:add', 'mon:sub', 'mon:lt', 'mon:gt', 'mon:eq', 'mon:negative_fields', 'mon:positive_fields',
            'law:add-sub-inverse', 'law:commutative', 'law:free-plus-allocated', 'law:print-negative',
            'law:lt-iff-no-negative', 'law:gt-mirror', 'law:eq-reflexive', 'law:eq-symmetric', 'law:compare-with-negative-operand', 'negative-operand-compared', 'law:arithmetic-with-negative-operand', 'law:augmented-assignment']
ASSUMPTIONS = ['field values are ints >= 0 set through the public constructor; a field set to None (a constructor '
               'artefact that to_json drops) is outside the claimed domain',
               'held on the executions observed, not a proof']

_installed = False


def fields():
    from fim.slivers.capacities_labels import Capacities
    return list(Capacities().__dict__.keys())


def install():
    """Attach the monitors to the real class (idempotent)."""
    global _installed
    if _installed:
        return
    _installed = True
    from fim.slivers.capacities_labels import Capacities

    def snap_self(self):
        return dict(self.__dict__)

    def snap_other(other):
        return dict(other.__dict__) if isinstance(other, Capacities) else None

    def binop(opname, f):
        def body(self, other, result, OLD):
            if not isinstance(other, Capacities):
                return 'skip'
            a, b = OLD.a, OLD.b
            if any(not isinstance(v, int) for v in list(a.values()) + list(b.values())):
                return 'skip'
            w = {'op': opname, 'a': a, 'b': b, 'result': dict(result.__dict__)}
            if dict(self.__dict__) != a or dict(other.__dict__) != b:
                return (f'C15/{opname}-mutates-operand', 'operands unchanged', w)
            if result is self or result is other:
                return (f'C15/{opname}-returns-operand', 'result is a new object', w)
            exp = {k: f(a[k], b.get(k, 0)) for k in a}
            if dict(result.__dict__) != exp:
                w['expected'] = exp
                return (f'C15/{opname}-not-fieldwise', 'field-wise result', w)
        return body

    add_body = binop('add', lambda x, y: x + y)
    sub_body = binop('sub', lambda x, y: x - y)

    @K.monitored('add')
    def add_ok(self, other, result, OLD):
        return add_body(self, other, result, OLD)

    @K.monitored('sub')
    def sub_ok(self, other, result, OLD):
        return sub_body(self, other, result, OLD)

    K.attach(Capacities, '__add__', 'add', add_ok, {'a': snap_self, 'b': snap_other})
    K.attach(Capacities, '__sub__', 'sub', sub_ok, {'a': snap_self, 'b': snap_other})

    def cmp_body(name, pred):
        def body(self, other, result):
            if not isinstance(other, Capacities):
                return 'skip'
            a, b = dict(self.__dict__), dict(other.__dict__)
            if any(not isinstance(v, int) for v in list(a.values()) + list(b.values())) or set(a) != set(b):
                return 'skip'
            exp = all(pred(a[k], b[k]) for k in a)
            if bool(result) != exp or not isinstance(result, bool):
                return (f'C15/{name}-wrong', f'{name} agrees with field-wise comparison',
                        {'op': name, 'a': a, 'b': b, 'result': result, 'expected': exp})
        return body

    lt_body = cmp_body('lt', lambda x, y: x <= y)
    gt_body = cmp_body('gt', lambda x, y: x >= y)
    eq_body = cmp_body('eq', lambda x, y: x == y)

    @K.monitored('lt')
    def lt_ok(self, other, result):
        return lt_body(self, other, result)

    @K.monitored('gt')
    def gt_ok(self, other, result):
        return gt_body(self, other, result)

    @K.monitored('eq')
    def eq_ok(self, other, result):
        return eq_body(self, other, result)

    K.attach(Capacities, '__lt__', 'lt', lt_ok)
    K.attach(Capacities, '__gt__', 'gt', gt_ok)
    K.attach(Capacities, '__eq__', 'eq', eq_ok)

    @K.monitored('negative_fields')
    def neg_ok(self, result):
        a = dict(self.__dict__)
        if any(not isinstance(v, int) for v in a.values()):
            return 'skip'
        exp = sorted(k for k, v in a.items() if v < 0)
        if sorted(result) != exp:
            return ('C15/negative-fields-wrong', 'negative fields reported by name, exactly',
                    {'a': a, 'result': result, 'expected': exp})

    K.attach(Capacities, 'negative_fields', 'negative_fields', neg_ok)

    @K.monitored('positive_fields')
    def pos_ok(self, fields, result):
        a = dict(self.__dict__)
        fl = [fields] if isinstance(fields, str) else list(fields)
        if any(not isinstance(a.get(f), int) for f in fl):
            return 'skip'
        exp = all(a[f] > 0 for f in fl)
        if result != exp:
            return ('C15/positive-fields-wrong', 'positive_fields agrees with >0 on the listed fields',
                    {'a': a, 'fields': fl, 'result': result, 'expected': exp})

    K.attach(Capacities, 'positive_fields', 'positive_fields', pos_ok)


VALUES = [0, 0, 0, 1, 2, 7, 2 ** 16, 2 ** 31, 2 ** 63]


def gen_cap(rng, F):
    from fim.slivers.capacities_labels import Capacities
    mode = rng.random()
    kw = {}
    for f in F:
        if mode < 0.3:      # sparse
            if rng.random() < 0.25:
                kw[f] = rng.choice(VALUES)
        elif mode < 0.7:    # dense, small
            kw[f] = rng.randrange(0, 9)
        else:
            kw[f] = rng.choice(VALUES) if rng.random() < 0.5 else rng.randrange(0, 2 ** rng.randrange(1, 70))
    return Capacities(**kw)


def related(rng, a, F):
    """An operand equal to / dominated by / dominating / incomparable with a."""
    from fim.slivers.capacities_labels import Capacities
    m = rng.randrange(5)
    d = dict(a.__dict__)
    if m == 0:
        pass
    elif m == 1:
        for f in F:
            d[f] = rng.randrange(0, d[f] + 1)
    elif m == 2:
        for f in F:
            d[f] = d[f] + rng.randrange(0, 5)
    elif m == 3:
        f = rng.choice(F)
        d[f] = d[f] + 1
        g = rng.choice(F)
        if g != f and d[g] > 0:
            d[g] -= 1
    else:
        return gen_cap(rng, F)
    return Capacities(**d)


def dd(c):
    return dict(c.__dict__)


def one_case(ctx, a, b, c):
    from fim.slivers.capacities_labels import Capacities, FreeCapacity
    F = list(a.__dict__)
    A, B, C = dd(a), dd(b), dd(c)
    w = {'a': A, 'b': B, 'c': C}
    nontrivial = any(A.values()) or any(B.values())
    ctx.seen([A, B, C], nontrivial)
    # looking at an operand (listing its fields, printing or encoding it) before it is used leaves it the value it was:
    # a third of the cases read their operands through the public accessors first
    if (sum(A.values()) + sum(B.values())) % 3 == 0:
        ctx.count('law:operands-read-before-use')
        for x, X, nm in ((a, A, 'a'), (b, B, 'b'), (c, C, 'c')):
            for acc in ('list_fields', 'to_json', 'to_dict', '__str__', '__repr__', 'negative_fields'):
                try:
                    getattr(x, acc)()
                except Exception as e:
                    ctx.violation(f'C15/accessor-raises:{acc}', f'{acc}() of a capacity raised {type(e).__name__}: {e}', dict(w, operand=nm))
                    return
            if dict(x.__dict__) != X:
                ctx.violation('C15/reading-an-operand-changes-it', 'operands are never modified - not by listing their fields, printing or '
                              'encoding them either', dict(w, operand=nm, now={k: repr(v)[:60] for k, v in x.__dict__.items() if X.get(k, None) != v}))
                return
    try:
        s = a + b
        ctx.count('law:add-sub-inverse')
        back = s - b
        if dd(back) != A or not (back == a):
            ctx.violation('C15/add-sub-inverse', '(a+b)-b == a', dict(w, got=dd(back)))
        ctx.count('law:commutative')
        s2 = b + a
        if dd(s2) != dd(s) or not (s == s2):
            ctx.violation('C15/commutative', 'a+b == b+a', dict(w, ab=dd(s), ba=dd(s2)))
        # associativity with the third operand (a field-wise consequence)
        if dd((a + b) + c) != dd(a + (b + c)):
            ctx.violation('C15/associative', '(a+b)+c == a+(b+c)', w)
        # free capacity: total=s (so that allocated=b fits) and an over-allocated one
        for total, alloc in ((s, b), (a, b)):
            ctx.count('law:free-plus-allocated')
            fc = FreeCapacity(total=total, allocated=alloc)
            for f in F:
                if getattr(fc, f) + alloc.__dict__[f] != total.__dict__[f]:
                    ctx.violation('C15/free-plus-allocated', 'free + allocated == total per field',
                                  {'total': dd(total), 'allocated': dd(alloc), 'field': f, 'free': getattr(fc, f)})
                    break
            str(fc)
            # the free-capacity view itself reached through a copy (an object holding it copied or pickled): the same fields
            ctx.count('law:copy-of-a-free-capacity')
            import copy as _copy
            import pickle as _pickle
            for how, mk in (('copy', _copy.copy), ('deepcopy', _copy.deepcopy), ('pickle', lambda x: _pickle.loads(_pickle.dumps(x)))):
                try:
                    fc2 = mk(fc)
                    same = all(getattr(fc2, f) == getattr(fc, f) for f in F) and str(fc2) == str(fc)
                except BaseException as e:
                    if not isinstance(e, Exception) and not isinstance(e, RecursionError):
                        raise
                    ctx.violation(f'C15/copy-of-a-free-capacity-raises:{how}', 'free = total - allocated is a value: a copy of it can be made, '
                                  f'not {type(e).__name__}', {'total': dd(total), 'allocated': dd(alloc)})
                    break
                if not same:
                    ctx.violation(f'C15/copy-of-a-free-capacity-differs:{how}', 'a copy of a free-capacity view has the same fields',
                                  {'total': dd(total), 'allocated': dd(alloc)})
                    break
        fc = FreeCapacity(total=a, allocated=None)
        if any(getattr(fc, f) != A[f] for f in F):
            ctx.violation('C15/free-none-allocated', 'free == total when nothing allocated', w)
        # comparisons agree with subtraction
        ctx.count('law:lt-iff-no-negative')
        diff = b - a
        neg = diff.negative_fields()
        if (a < b) != (neg == []):
            ctx.violation('C15/lt-iff-no-negative', 'a<b iff (b-a) has no negative field',
                          dict(w, lt=(a < b), negative=neg))
        if sorted(neg) != sorted(f for f in F if B[f] - A[f] < 0):
            ctx.violation('C15/negative-fields-wrong', 'negative fields by name', dict(w, negative=neg))
        ctx.count('law:gt-mirror')
        if (a > b) != (b < a):
            ctx.violation('C15/gt-mirror', 'a>b iff b<a', dict(w, gt=(a > b), lt=(b < a)))
        ctx.count('law:eq-reflexive')
        if not (a == a) or not (a == Capacities(**A)):
            ctx.violation('C15/eq-reflexive', 'a == a', w)
        ctx.count('law:eq-symmetric')
        if (a == b) != (b == a) or (a == b) != (A == B):
            ctx.violation('C15/eq-symmetric', '(a==b) iff (b==a) iff fields equal', w)
        # a result with a negative field is representable and printable
        ctx.count('law:print-negative')
        for r in (a - b, b - a):
            txt, rp = str(r), repr(r)
            if not isinstance(txt, str) or not isinstance(rp, str):
                ctx.violation('C15/print-negative', 'str/repr of a difference', w)
            if r.negative_fields():
                ctx.count('negative-results-printed')
            # positive_fields on the difference
            r.positive_fields(F[:2])
            r.positive_fields(F[0])
            # ... and it stays a value when it is reached through a copy (a caller keeping a copy of a result, an object holding it
            # copied or pickled): same fields, usable in arithmetic
            ctx.count('law:copy-of-a-result')
            import copy as _copy
            import pickle as _pickle
            for how, mk in (('copy', _copy.copy), ('deepcopy', _copy.deepcopy), ('pickle', lambda x: _pickle.loads(_pickle.dumps(x)))):
                try:
                    r2 = mk(r)
                    ok = dd(r2) == dd(r) and dd(r2 + b) == dd(r + b) and r2.negative_fields() == r.negative_fields()
                except Exception as e:
                    ctx.violation(f'C15/copy-of-a-result-raises:{how}', 'a result (negative fields included) is a value: a copy of it can be '
                                  f'made and used, not {type(e).__name__}: {e}', dict(w, result=dd(r)))
                    break
                if not ok:
                    ctx.violation(f'C15/copy-of-a-result-differs:{how}', 'a copy of a result has the same fields', dict(w, result=dd(r), copy=dd(r2)))
                    break
        # comparisons whose operands are themselves differences (over-allocation leaves negative fields):
        # the 'fits within' relation must still agree with subtraction, field by field
        ctx.count('law:compare-with-negative-operand')
        zero = Capacities()
        sparse = Capacities(**{f: A[f] for f in F[::3]})
        for x, y in ((c, a - b), (a - b, c), (a - b, b - a), (zero, a - b), (sparse, b - a), (zero, b - a)):
            X, Y = dd(x), dd(y)
            exp = all(X[f] <= Y[f] for f in F)
            if (x < y) != exp or (y > x) != exp or ((y - x).negative_fields() == []) != exp:
                ctx.violation('C15/lt-with-negative-operand', 'a fits in b exactly when b-a has no negative field (operands may carry '
                              'negative fields left by an earlier subtraction)', {'x': X, 'y': Y, 'lt': (x < y), 'gt_mirror': (y > x),
                                                                                 'negative_fields_of_y_minus_x': (y - x).negative_fields()})
                break
            if min(Y.values()) < 0:
                ctx.count('negative-operand-compared')
        # arithmetic on operands that already carry negative fields (a difference is a legal operand):
        # still field by field, still invertible, never an error
        ctx.count('law:arithmetic-with-negative-operand')
        r = a - b
        R = dd(r)
        s3 = r + c
        if dd(s3) != {f: R[f] + C[f] for f in F} or dd(c + r) != dd(s3):
            ctx.violation('C15/add-with-negative-operand', 'adding works field by field also when an operand has negative fields',
                          dict(w, r=R, got=dd(s3)))
        elif dd(s3 - c) != R or dd((r - c) + c) != R:
            ctx.violation('C15/add-sub-inverse-with-negative-operand', '(r+c)-c == r for an operand r with negative fields', dict(w, r=R))
        str(s3), repr(r - c)
        # augmented assignment: `t = a; t += b` rebinds t to the sum and leaves the object a (still referenced by the caller) alone
        ctx.count('law:augmented-assignment')
        t = a
        t += b
        u = a
        u -= c
        if dd(t) != {f: A[f] + B[f] for f in F} or dd(u) != {f: A[f] - C[f] for f in F}:
            ctx.violation('C15/augmented-assignment-wrong', '`t = a; t += b` gives a+b, `u = a; u -= c` gives a-c', dict(w, t=dd(t), u=dd(u)))
        elif dd(a) != A:
            ctx.violation('C15/augmented-assignment-mutates-operand', 'operands are never modified (`t = a; t += b` must not change a)',
                          dict(w, a_now=dd(a)))
            a = Capacities(**A)
        # operands untouched by everything above
        if dd(a) != A or dd(b) != B or dd(c) != C:
            ctx.violation('C15/operand-mutated', 'operands are never modified', dict(w, a_now=dd(a), b_now=dd(b)))
    except Exception as e:
        ctx.violation('C15/raises', f'arithmetic/comparison raised {type(e).__name__}: {e}', w)


def _run_workload(ctx):
    install()
    Sink.ctx = ctx
    F = fields()
    ctx.info['fields'] = F
    rng = ctx.rng
    n = ctx.pick(10000, 100000)
    for i in range(n):
        a = gen_cap(rng, F)
        b = related(rng, a, F)
        c = gen_cap(rng, F)
        one_case(ctx, a, b, c)
        if i < 2:
            ctx.sample({'a': dd(a), 'b': dd(b), 'c': dd(c)})
        if ctx.out_of_time():
            break


def replay(ctx, case):
    from fim.slivers.capacities_labels import Capacities
    install()
    Sink.ctx = ctx
    w = case['witness']
    a = Capacities(**{k: v for k, v in w.get('a', {}).items()})
    b = Capacities(**{k: v for k, v in w.get('b', {}).items()})
    c = Capacities(**{k: v for k, v in w.get('c', {}).items()}) if 'c' in w else Capacities()
    one_case(ctx, a, b, c)

LEVEL_TEXT = ('Runtime monitoring: icontract post-conditions on the real Capacities operators (field-wise result over '
              'all fields discovered at run time, operands unchanged, comparison = field-wise order, negative fields by '
              'name) evaluated on every call, plus generator-driven law checks ((a+b)-b=a, commutativity, '
              'free+allocated=total, lt<=>no negative field, gt mirror, eq reflexive/symmetric, printing negatives) on '
              '2x10^4 (quick) / 1.6x10^6 (thorough) operand triples. Held on the executions observed.')
LEVEL_NOTE = ('Trusted: Python int arithmetic, icontract wrappers, the harness generator. Not covered: fields set to '
              'None, non-int field values.')
TECHNIQUE = 'runtime contract monitors (icontract) on the real operators + randomized algebraic-law workload'


def run(ctx):
    _run_workload(ctx)
    # thorough tier: the repository's own tests replayed under the monitors (one shard does it)
    if not ctx.quick and ctx.shard == 0:
        from vlib import pytest_monitors
        pytest_monitors.run_under_monitors(ctx, 'C15/')
