"""C19 - persistent-backend (Neo4j) statements are well-formed and data-independent.

There is no Neo4j server.  `fim.graph.neo4j_property_graph.GraphDatabase` is replaced by vlib.fake_neo4j's stand-in
BEFORE the real Neo4jGraphImporter.__init__ runs; the real Neo4jPropertyGraph / Neo4jASM / Neo4jARMGraph /
Neo4jADMGraph / Neo4jCBMGraph objects are driven through every public operation.  Every function of these classes
that talks to the driver (a "primitive", discovered at run time) is wrapped by a MONITOR:

  primary run : the real function runs; each statement is captured at session.run and answered from a shadow
                in-memory model of the store (the answers only steer control flow); completed writes are mirrored
                onto the shadow so that composite operations (merge_adm, generate_adms, sliver add/remove, clone ...)
                proceed on consistent data;
  baseline R0 : the same real function is re-executed on a twin object with a benign value in every DATA position
                (graph ids, node ids, names, property values, component models) and the identifiers (labels,
                relation kinds, property names) untouched, replaying the recorded answers; clauses (a)-(e) of
                vlib.cypher_lex are decided on the R0 statements;
  variants Rp : once more for every data position p and every value from the adversarial list with ONLY p changed;
                clause (f): the token stream of every statement must have the shape of R0, differences confined to
                string literals that decode exactly to the value passed, and a parameter that changes must carry
                exactly the value passed.

The verdict is on captured statements only.
"""
import atexit
import copy
import inspect
import json
import os
import shutil
import tempfile

from vlib import cypher_lex as L
from vlib import fake_neo4j as F

PROPERTY = 'C19'
LEVEL = 'exploration'
SHARDS = {'quick': 4, 'thorough': 16}
TIME_BUDGET = {'quick': 40, 'thorough': 600}
TECHNIQUE = ('runtime monitoring at the driver boundary: stand-in Neo4j driver + shadow store, own Cypher tokenizer, '
             'differential (benign vs adversarial, one data position at a time) re-execution of every '
             'statement-building function')
RULE = ('a case = one execution of one statement-building function (primitive) of the Neo4j backend, reached through a '
        'public operation of one of the five graph classes or the importer, with (identifiers, data position, value): '
        'identifiers are the labels / relation kinds / property names flowing in from the workload; every data position '
        'of the call is varied alone over the fixed adversarial list (quotes, backslashes, braces, $x, newline, //, '
        'injection text, keywords, non-ASCII, trailing backslash ...) the first time the (primitive, identifiers, '
        'position) combination is seen and over seeded random compositions afterwards; distinct by (primitive, '
        'identifiers, position, value); non-trivial when the value contains a character that is special in Cypher')
REQUIRED = ['lexer-selftest', 'clause:a-tokenizes', 'clause:b-balanced', 'clause:c-no-residue', 'clause:d-params-supplied',
            'clause:e-variables-bound', 'clause:f-differential', 'clause:f-param-delivery', 'importer:index-statements',
            'class:Neo4jPropertyGraph', 'class:Neo4jASM', 'class:Neo4jARMGraph', 'class:Neo4jADMGraph',
            'class:Neo4jCBMGraph', 'class:Neo4jGraphImporter', 'flow:generate_adms', 'flow:merge_adm-nonempty',
            'flow:unmerge_adm', 'flow:clone_graph', 'flow:import_graph_from_string', 'flow:validate_graph',
            'flow:topology-on-neo4j']
ASSUMPTIONS = [
    'well-formedness is structural (own tokenizer: complete tokenization, bracket nesting, template residue, parameter '
    'supply, variable binding with WITH/UNION scoping), not a full openCypher parse; semantic correctness against a '
    'live server (APOC procedures, label existence, result shapes) is out of reach',
    'data positions = graph ids, node ids, names, types given as values (ntype), property values, component models, '
    'file names; identifiers = class labels, relation kinds, property names (dictionary keys), merge-policy keywords; '
    'identifiers are held constant and may legitimately appear in the text (so the quoted policy words of '
    'merge_nodes(merge_properties=...) and the quoted labels / relation kinds in add_node / add_link are not '
    'counted as value splices)',
    'an unknown backslash escape inside a literal is decoded leniently (kept verbatim) because dialects differ; '
    'verdicts rely only on escapes every dialect defines (\\\\ \\\' \\" \\n \\t \\b \\f \\r \\uXXXX)',
    'answers of the stand-in driver come from a shadow model and only steer control flow',
    'held on the executions observed, not a proof']
LEVEL_TEXT = ('Runtime monitoring at the driver boundary. Every function of Neo4jPropertyGraph/Neo4jASM/Neo4jCBMGraph/'
              'Neo4jGraphImporter that builds a statement is re-executed differentially (benign baseline + one '
              'adversarial data position at a time) each time any public operation of the five graph classes reaches '
              'it; the captured (text, params) pairs are judged by an own Cypher tokenizer (clauses a-f). '
              'Held on the executions observed.')
LEVEL_NOTE = ('Trusted: vlib/cypher_lex.py (self-tested at the start of every run), the stand-in driver. Not covered: '
              'semantic validity of the statements on a real server, APOC behaviour, statements of operations listed '
              'in unreached_operations, data that is not a string (numbers are rendered by Python and cannot break '
              'quoting).')

# ----------------------------------------------------------------------
# identifiers (held constant) by argument name; every other string-valued argument is DATA
IDENT_ARGS = {'label', 'rel', 'rel1', 'rel2', 'node_label', 'node1_label', 'node2_label', 'kind', 'prop_name', 'format',
              'merge_properties', 'rules_file', 'validate_json', 'delegation_type', 'cut_off', 'hops', 'parent'}

BASE_ADV = ["'", '"', '\\', '{', '}', '$x', '\n', '//', "') DETACH DELETE n //", '") DETACH DELETE n //',
            'MATCH (n) DETACH DELETE n', 'RETURN', 'ünïcödé-名前-Ω-😀', 'tail\\', "it's", 'say "hi"', '{{x}}', '{name}',
            '$graphId', "a'b\"c\\d{e}$f", 'C:\\temp\\new', "\\'", '/* c */ -- ;', '`tick`', "'}) RETURN 1 //",
            '{"core": 4, "note": "5\\" rack, o\'clock"}', "x' OR '1'='1", '\\u0027',
            # values that are false in Python although they are values: the empty string, a blank, '0'
            '', ' ', '0']
FRAGS = ["'", '"', '\\', '{', '}', '{{', '}}', '$x', '$graphId', '\n', '\t', '//', '/*', '*/', '`', ';', ':', ',', ')',
         '(', ']', '[', ' DETACH DELETE n ', ' RETURN ', ' MATCH (n) ', ' OR 1=1 ', 'ü', '名', '😀', '\\n', '\\u0041',
         "\\'", '\\"', 'abc', 'x1', ' ', '%s', '{0}', '{name}', '#', '@', '?', '|', '--', "''", '""', '\\\\']
SPECIAL = set('\'"\\{}$\n\t/`;:,()[]#@?|%') | {'\r'}


def is_special(v):
    return any(c in SPECIAL or ord(c) > 127 for c in v) or v.upper() in L.KEYWORDS or v == ''


def gen_adv(rng):
    k = rng.randint(1, 4)
    parts = [rng.choice(FRAGS) for _ in range(k)]
    if rng.random() < 0.5:
        parts.insert(rng.randrange(len(parts) + 1), rng.choice(['n', 'node', 'v1', 'Site', 'q']))
    v = ''.join(parts)
    if not is_special(v):
        v += rng.choice(["'", '"', '\\'])
    return v


# ----------------------------------------------------------------------
class Monitor:
    """All process-wide state of the check."""

    def __init__(self):
        self.installed = False
        self.ctx = None
        self.hub = None
        self.shadow = None
        self.ops = None
        self.primitives = {}       # opname -> (cls, name, raw function, signature)
        self.sig_seen = set()
        self.tok_cache = {}
        self.forced_values = None  # replay: use exactly these values
        self.calls = {}
        self.statements = {}
        self.prim_calls = {}
        self.op_raised = {}
        self.tmpdir = None
        self.undriven_args = set()
        self.templates = {}
        self.answer_rows = []
        self.forced_path = None
        self.fault_seen = {}
        self.fault_budget = {}
        self.fault_ops = set()


M = Monitor()


def _classes():
    from fim.graph import neo4j_property_graph as npg
    from fim.graph.slices.neo4j_asm import Neo4jASM
    from fim.graph.resources.neo4j_arm import Neo4jARMGraph
    from fim.graph.resources.neo4j_adm import Neo4jADMGraph
    from fim.graph.resources.neo4j_cbm import Neo4jCBMGraph
    return {'Neo4jPropertyGraph': npg.Neo4jPropertyGraph, 'Neo4jASM': Neo4jASM, 'Neo4jARMGraph': Neo4jARMGraph,
            'Neo4jADMGraph': Neo4jADMGraph, 'Neo4jCBMGraph': Neo4jCBMGraph, 'Neo4jGraphImporter': npg.Neo4jGraphImporter}


def install(ctx):
    M.ctx = ctx
    if M.installed:
        return
    M.installed = True
    from fim.graph import neo4j_property_graph as npg
    M.hub = F.Hub()
    M.shadow = F.Shadow()
    M.ops = F.ShadowOps(M.shadow)
    npg.GraphDatabase = F.FakeGraphDatabase(M.hub)
    npg.time.sleep = lambda s: None        # the importer's retry loop sleeps 1 s per retry
    M.hub.responder = lambda top, text, params, ordinal: M.ops.answer(
        top[0], getattr(top[1].get('self'), 'graph_id', None), top[1].get('kw', {}), ordinal)
    M.tmpdir = tempfile.mkdtemp(prefix='c19-import-')
    atexit.register(shutil.rmtree, M.tmpdir, True)
    for cname, cls in _classes().items():
        prefix = 'importer.' if cname == 'Neo4jGraphImporter' else ''
        for name, fn in list(vars(cls).items()):
            if not inspect.isfunction(fn) or name in ('__init__', '__del__'):
                continue
            try:
                src = inspect.getsource(fn)
            except (OSError, TypeError):
                continue
            if 'session' not in src and '.driver' not in src:
                continue
            opname = prefix + name
            sig = inspect.signature(fn)
            M.primitives[opname] = (cls, name, fn, sig)
            setattr(cls, name, _make_wrapper(opname, fn, sig))
    ctx.info['primitives'] = sorted(M.primitives)


def _make_wrapper(opname, fn, sig):
    def wrapper(*a, **k):
        hub = M.hub
        if hub.dry is not None:
            hub.stack.append((opname, {}))
            try:
                return fn(*a, **k)
            finally:
                hub.stack.pop()
        try:
            ba = sig.bind(*a, **k)
            ba.apply_defaults()
        except TypeError:
            return fn(*a, **k)
        args = dict(ba.arguments)
        self_name = next(iter(sig.parameters))
        self = args.pop(self_name)
        frame = {'op': opname, 'self': self, 'kw': args}
        hub.stack.append((opname, frame))
        exc = None
        ret = None
        try:
            ret = fn(*a, **k)
        except Exception as e:      # noqa: the real exception is re-raised below
            exc = e
        finally:
            hub.stack.pop()
        M.prim_calls[opname] = M.prim_calls.get(opname, 0) + 1
        if exc is None:
            try:
                M.ops.mirror(opname, getattr(self, 'graph_id', None), args)
            except Exception as e:
                M.ctx.count('shadow-mirror-failed')
                M.ctx.info.setdefault('shadow_mirror_errors', [])
                if len(M.ctx.info['shadow_mirror_errors']) < 5:
                    M.ctx.info['shadow_mirror_errors'].append(f'{opname}: {e!r}'[:300])
        try:
            differential(opname, fn, self, args, frame)
        except Exception as e:
            import traceback
            M.ctx.mark_inconclusive(f'monitor error in {opname}: ' + traceback.format_exc()[-1500:])
        if exc is not None:
            raise exc
        return ret
    wrapper.__name__ = getattr(fn, '__name__', opname)
    wrapper.__wrapped__ = fn
    return wrapper


# ----------------------------------------------------------------------
def enumerate_slots(self, args):
    """-> [(slot name, path, current value)] for every DATA position of this call."""
    from fim.slivers.attached_components import AttachedComponentsInfo
    slots = []
    if isinstance(getattr(self, 'graph_id', None), str):
        slots.append(('graph_id', ('self',), self.graph_id))
    for name, val in args.items():
        if name in IDENT_ARGS or val is None:
            continue
        if isinstance(val, str):
            slots.append((name, ('arg', name), val))
        elif isinstance(val, dict):
            for k, v in val.items():
                if isinstance(k, str) and (v is None or isinstance(v, (str, int, float, bool))):
                    slots.append((name, ('dict', name, k), v))
        elif isinstance(val, AttachedComponentsInfo):
            for dn, dev in val.devices.items():
                if isinstance(dev.resource_model, str):
                    slots.append((name, ('comp', name, dn), dev.resource_model))
        elif isinstance(getattr(val, 'graph_id', None), str):
            slots.append((name, ('graph', name), val.graph_id))
        elif isinstance(val, (int, float, bool)):
            pass
        else:
            M.undriven_args.add(f'{name}:{type(val).__name__}')
    return slots


def _apply(self, args, subst):
    """twin (self2, args2) with the substitutions {path: value} applied; nothing of the original is modified."""
    self2 = self
    args2 = dict(args)
    copied = set()
    for path, value in subst.items():
        kind = path[0]
        if kind == 'self':
            self2 = copy.copy(self)
            self2.graph_id = value
        elif kind == 'arg':
            args2[path[1]] = value
        elif kind == 'dict':
            if path[1] not in copied:
                args2[path[1]] = dict(args[path[1]])
                copied.add(path[1])
            args2[path[1]][path[2]] = value
        elif kind == 'graph':
            g2 = copy.copy(args[path[1]])
            g2.graph_id = value
            args2[path[1]] = g2
        elif kind == 'comp':
            if path[1] not in copied:
                args2[path[1]] = copy.deepcopy(args[path[1]])
                copied.add(path[1])
            args2[path[1]].devices[path[2]].resource_model = value
    return self2, args2


def run_twin(opname, fn, self, args, frame, subst, fail_at=None):
    hub = M.hub
    self2, args2 = _apply(self, args, subst)
    hub.dry = {'answers': frame.get('answers', []), 'idx': 0, 'captured': [], 'fail_at': fail_at}
    hub.stack.append((opname, {}))
    err = None
    try:
        fn(self2, **args2)
    except Exception as e:
        err = f'{type(e).__name__}: {e}'[:200]
    finally:
        hub.stack.pop()
        cap = hub.dry['captured']
        hub.dry = None
    return [e for e in cap if e['op'] == opname], err


def lex(text, params):
    key = (text, tuple(sorted(params)) if isinstance(params, dict) else None)
    r = M.tok_cache.get(key)
    if r is None:
        r = L.check_statement(text, params)
        if len(M.tok_cache) > 60000:
            M.tok_cache.clear()
        M.tok_cache[key] = r
    return r


def param_delta_ok(a, b, v0, vp):
    """A parameter (possibly a map / list carrying several values) may differ between baseline and variant only in
    leaves that hold exactly the benign value resp. exactly the value passed."""
    if type(a) is type(b) and a == b:
        return True
    if isinstance(a, dict) and isinstance(b, dict) and list(a.keys()) == list(b.keys()):
        return all(param_delta_ok(a[k], b[k], v0, vp) for k in a)
    if isinstance(a, (list, tuple)) and isinstance(b, (list, tuple)) and len(a) == len(b):
        return all(param_delta_ok(x, y, v0, vp) for x, y in zip(a, b))
    return type(a) is type(v0) and a == v0 and type(b) is type(vp) and b == vp


def op_key(opname, ordinal):
    return opname if not ordinal else f'{opname}#{ordinal + 1}'


CLAUSE_TEXT = {
    'untokenizable': ('untokenizable', '(a) the statement tokenizes completely (no unterminated literal, no illegal character)'),
    'unbalanced': ('unbalanced', '(b) () [] {} are balanced and properly nested'),
    'template-residue': ('template-residue', '(c) no un-expanded template residue ({{ }} or {identifier})'),
    'missing-parameter': ('missing-parameter', '(d) every $parameter named in the text is supplied'),
    'unbound-variable': ('unbound-variable', '(e) every referenced variable is bound earlier in the statement'),
    'dangling-separator': ('dangling-separator', '(f) no separator with nothing on one side (", }", "{ ,", "key: }"): what an empty container spliced '
                                                 'into the text leaves behind'),
}


def jsonable_args(args):
    out = {}
    for k, v in args.items():
        if isinstance(v, (str, int, float, bool)) or v is None:
            out[k] = v
        elif isinstance(v, dict):
            out[k] = {str(a): (b if isinstance(b, (str, int, float, bool)) or b is None else repr(b)) for a, b in v.items()}
        elif hasattr(v, 'devices'):
            out[k] = {'__comps__': [[str(d.resource_type).split('.')[-1] if d.resource_type else None, d.resource_model, dn]
                                    for dn, d in v.devices.items()]}
        elif hasattr(v, 'graph_id'):
            out[k] = {'__graph__': v.graph_id}
        elif isinstance(v, (list, tuple)):
            out[k] = [x if isinstance(x, (str, int, float, bool)) else repr(x) for x in v]
        else:
            out[k] = {'__repr__': repr(v)}
    return out


def judge_wellformed(opname, self, args, entries, note):
    ctx = M.ctx
    toks_list = []
    for e in entries:
        toks, probs = lex(e['text'], e['params'])
        toks_list.append(toks)
        for c in ('clause:a-tokenizes', 'clause:b-balanced', 'clause:c-no-residue', 'clause:d-params-supplied'):
            ctx.count(c)
        if toks is not None and not any(p[0] == 'unbalanced' for p in probs):
            ctx.count('clause:e-variables-bound')
        seen_kinds = set()
        for kind, msg, pos in probs:
            if kind in seen_kinds:
                continue
            seen_kinds.add(kind)
            msg = '; '.join(m for k2, m, _ in probs if k2 == kind)
            short, clause = CLAUSE_TEXT[kind]
            ctx.violation(f'C19/{op_key(opname, e["ordinal"])}-{short}', clause, {
                'class': type(self).__name__, 'op': opname, 'public': list(M.hub.public or ()),
                'statement': e['text'], 'params': sorted(e['params']) if isinstance(e['params'], dict) else None,
                'problem': msg, 'position': pos, 'values': note, 'args': jsonable_args(args),
                'graph_id': getattr(self, 'graph_id', None), 'answer_rows': M.answer_rows})
    return toks_list


def fault_twins(opname, fn, self, args, frame, benign, r0):
    """Fault enumeration at the driver boundary: for each statement k the operation issues, one twin run in which
    statement k fails (transient server error).  Statements the operation issues only on that failure path
    (clean-up, retry bookkeeping) are handed to the driver too and must be just as well-formed."""
    ctx = M.ctx
    nstat = len(frame.get('answers', []))
    if nstat == 0:
        return
    seen = M.fault_seen.setdefault(opname, set())
    base_texts = {e['text'] for e in r0}
    for k in range(min(nstat, 8)):
        if (k, nstat) in seen and len(seen) > 0 and M.fault_budget.get(opname, 0) > 6:
            continue
        seen.add((k, nstat))
        M.fault_budget[opname] = M.fault_budget.get(opname, 0) + 1
        cap, err = run_twin(opname, fn, self, args, frame, benign, fail_at=k)
        ctx.count('fault:twin-runs')
        extra = [dict(e, ordinal=100 + e['ordinal']) for e in cap if e.get('idx', 0) > k and e['text'] not in base_texts]
        if extra:
            ctx.count('fault:failure-path-statements', len(extra))
            M.fault_ops.add(opname)
            judge_wellformed(opname + '@after-driver-failure', self, args, extra,
                             f'statement issued only after statement {k} of the operation failed (injected driver error)')


def differential(opname, fn, self, args, frame):
    ctx = M.ctx
    M.answer_rows = [len(r) for r, _ in frame.get('answers', [])]
    direct = [e for e in frame.get('entries', []) if e['op'] == opname]
    if not direct:
        ctx.count('primitive-call-without-statement')
        return
    slots = enumerate_slots(self, args)
    if not slots:
        judge_wellformed(opname, self, args, direct, 'as issued (the operation has no data position)')
        for e in direct:
            M.templates.setdefault(op_key(opname, e['ordinal']), e['text'] if isinstance(e['text'], str) else repr(e['text']))
        return
    # the statements exactly as the driver received them are always judged (a twin run substitutes distinct benign
    # values and may therefore take another branch of the operation, e.g. when two arguments were equal)
    def _plain(v):
        return not isinstance(v, str) or all(ch.isalnum() or ch in '_-:./ ' for ch in v)
    if all(_plain(v) for _, _, v in slots):
        # (with hostile values in a data position the as-issued text of a splicing operation is malformed as a mere
        # consequence of the splice, which clause (f) reports under its own key)
        M.ctx.count('as-issued-statements-judged', len(direct))
        judge_wellformed(opname, self, args, direct, 'as issued')
    benign = {path: f'bv{i}' for i, (_, path, _) in enumerate(slots)}
    r0, err0 = run_twin(opname, fn, self, args, frame, benign)
    if len(r0) != len(direct):
        ctx.count('twin-diverged-baseline')
        judge_wellformed(opname, self, args, direct, 'as issued (baseline twin diverged: %s)' % err0)
        return
    toks0 = judge_wellformed(opname, self, args, r0, 'benign baseline (bv0, bv1, ... in every data position)')
    fault_twins(opname, fn, self, args, frame, benign, r0)
    for e in r0:
        M.templates.setdefault(op_key(opname, e['ordinal']), e['text'] if isinstance(e['text'], str) else repr(e['text']))
    idents = {k: (v if isinstance(v, (str, int, bool)) or v is None else
                  (sorted(map(str, v)) if isinstance(v, dict) else repr(v)))
              for k, v in args.items() if k in IDENT_ARGS}
    for i, (sname, path, cur) in enumerate(slots):
        if M.forced_path is not None and list(path) != M.forced_path:
            continue
        sig = (opname, L.re.sub(r'\s+', ' ', json.dumps(idents, sort_keys=True, default=str)), sname,
               path[2] if path[0] == 'dict' else None, type(self).__name__)
        if M.forced_values is not None:
            values = list(M.forced_values)
        elif sig not in M.sig_seen:
            M.sig_seen.add(sig)
            values = list(BASE_ADV)
            if isinstance(cur, str) and cur not in values:
                values.append(cur)
        else:
            values = [gen_adv(ctx.rng) for _ in range(ctx.pick(2, 4))]
        v0 = benign[path]
        for vp in values:
            if vp == v0:
                continue
            sub = dict(benign)
            sub[path] = vp
            rp, errp = run_twin(opname, fn, self, args, frame, sub)
            ctx.seen([opname, idents, sname, path[-1] if path[0] == 'dict' else None, vp], is_special(vp))
            if len(rp) != len(r0):
                ctx.count('twin-diverged-variant')
                continue
            for e0, ep, t0 in zip(r0, rp, toks0):
                ctx.count('clause:f-differential')
                bad = None
                if not isinstance(ep['text'], str) or not isinstance(e0['text'], str):
                    continue
                if ep['text'] != e0['text']:
                    if t0 is None:
                        ctx.count('clause:f-skipped-baseline-untokenizable')
                        # still decidable when the value occurs raw in the text
                        if vp and vp in ep['text'] and is_special(vp):
                            bad = ('shape', 'baseline does not tokenize; the raw value occurs verbatim in the text')
                    else:
                        try:
                            cp, c0 = [], []
                            tp = L.tokenize(ep['text'], cp)
                            bad = L.compare_streams(t0, tp, v0, vp)
                            if bad is None:
                                # the same tokens, yet another text: what differs sits in a comment - a value that reaches the
                                # driver neither as a parameter nor as a literal (and takes over the statement with a line break)
                                L.tokenize(e0['text'], c0)
                                if cp != c0:
                                    bad = ('comment', f'a comment of the statement carries the value: {cp[:2]!r} (benign run: {c0[:2]!r})')
                        except L.LexError as le:
                            bad = ('shape', f'with the value the statement no longer tokenizes: {le.msg} at {le.pos}')
                if bad is None:
                    p0, pp = e0['params'], ep['params']
                    if set(p0) != set(pp):
                        bad = ('shape', f'parameter names depend on the value: {sorted(p0)} vs {sorted(pp)}')
                if bad is not None:
                    ctx.violation(f'C19/{op_key(opname, e0["ordinal"])}-value-splice-{sname}',
                                  '(f) the statement text depends only on identifiers: a data value must reach the '
                                  'driver as a parameter or as a correctly escaped literal', {
                                      'class': type(self).__name__, 'op': opname, 'public': list(M.hub.public or ()),
                                      'data_position': sname + (f'[{path[2]}]' if path[0] in ('dict', 'comp') else ''),
                                      'benign_value': v0, 'value': vp, 'statement_benign': e0['text'],
                                      'statement': ep['text'], 'reason': bad[0], 'detail': bad[1],
                                      'args': jsonable_args(args), 'graph_id': getattr(self, 'graph_id', None),
                                      'path': list(path), 'answer_rows': M.answer_rows})
                    continue
                ctx.count('clause:f-param-delivery')
                for k in p0:
                    if not param_delta_ok(p0[k], pp[k], v0, vp):
                        ctx.violation(f'C19/{op_key(opname, e0["ordinal"])}-param-mangled-{sname}',
                                      '(f) a data value handed over as a parameter reaches the driver unchanged', {
                                          'class': type(self).__name__, 'op': opname,
                                          'public': list(M.hub.public or ()), 'data_position': sname,
                                          'parameter': k, 'benign_value': v0, 'value': vp,
                                          'parameter_benign': p0[k], 'parameter_value': pp[k],
                                          'statement': ep['text'], 'args': jsonable_args(args),
                                          'graph_id': getattr(self, 'graph_id', None), 'path': list(path),
                                          'answer_rows': M.answer_rows})
                        break


# ----------------------------------------------------------------------
# workload
CLASS_ORDER = ['Neo4jPropertyGraph', 'Neo4jASM', 'Neo4jARMGraph', 'Neo4jADMGraph', 'Neo4jCBMGraph']


class Env:
    def __init__(self, ctx, rng, hostile):
        self.ctx, self.rng, self.hostile = ctx, rng, hostile
        self.n = 0
        self.imp = None

    def val(self, tag):
        """a primary workload value: unique, XML-safe (it may travel through GraphML), benign or hostile"""
        self.n += 1
        if self.rng.random() >= self.hostile:
            return f'{tag}-{self.n}'
        frags = [f for f in FRAGS if f not in ('\t',)]
        k = self.rng.randint(1, 3)
        return f'{tag}{self.n}' + ''.join(self.rng.choice(frags) for _ in range(k)) + self.rng.choice(['', 'z', '\\', "'"])


def debug_logger():
    """A logger at DEBUG that writes nowhere (an operator tracing statements): what is sent to the driver must not depend on it."""
    import logging
    lg = logging.getLogger('verif-c19-debug')
    lg.setLevel(logging.DEBUG)
    lg.propagate = False
    if not lg.handlers:
        lg.addHandler(logging.NullHandler())
    return lg


def new_importer(reset_indexes, logger=None):
    from fim.graph import neo4j_property_graph as npg
    if reset_indexes:
        npg.Neo4jGraphImporter.index_initialized = False
    M.hub.public = ('Neo4jGraphImporter', '__init__')
    before = len(M.hub.log)
    imp = npg.Neo4jGraphImporter(url='neo4j://stand-in:7687', user='neo4j', pswd='x',
                                 import_host_dir=M.tmpdir, import_dir=M.tmpdir, logger=logger)
    n = len(M.hub.log) - before
    if reset_indexes:
        note_call('Neo4jGraphImporter', '__init__', n)
        M.ctx.count('importer:index-statements', n)
    M.hub.public = None
    return imp


def make(cname, gid, imp):
    C = _classes()
    # handles made by hand log where the importer logs (as the handles the importer itself returns do)
    lg = getattr(imp, 'log', None)
    kw = {'logger': lg} if getattr(lg, 'name', '') == 'verif-c19-debug' else {}
    if cname == 'Neo4jARMGraph':
        return C[cname](graph=C['Neo4jPropertyGraph'](graph_id=gid, importer=imp, **kw))
    try:
        return C[cname](graph_id=gid, importer=imp, **kw)
    except TypeError:
        return C[cname](graph_id=gid, importer=imp)


def note_call(cname, meth, nstat):
    k = f'{cname}.{meth}'
    M.calls[k] = M.calls.get(k, 0) + 1
    M.statements[k] = M.statements.get(k, 0) + nstat


def call(obj, meth, *a, **kw):
    """Drive one public operation; exceptions of the library are part of normal control flow here."""
    cname = type(obj).__name__
    hub = M.hub
    prev = hub.public
    hub.public = (cname, meth)
    before = len(hub.log)
    M.ctx.count('class:' + cname)
    try:
        return getattr(obj, meth)(*a, **kw)
    except Exception as e:
        k = f'{cname}.{meth}:{type(e).__name__}'
        M.op_raised[k] = M.op_raised.get(k, 0) + 1
        return None
    finally:
        note_call(cname, meth, len(hub.log) - before)
        hub.public = prev


def public_operations():
    """(class, method) pairs that constitute the public surface: instance methods without leading underscore."""
    out = []
    for cname, cls in _classes().items():
        for name in dir(cls):
            if name.startswith('_'):
                continue
            st = inspect.getattr_static(cls, name)
            if isinstance(st, (staticmethod, classmethod)) or not callable(getattr(cls, name)):
                continue
            if inspect.isclass(getattr(cls, name)):
                continue
            out.append((cname, name))
    return out


def caps(rng):
    from fim.slivers.capacities_labels import Capacities
    return Capacities(core=rng.randint(1, 64), ram=rng.randint(1, 512), disk=rng.randint(1, 1000))


def deleg_json(ids, kind):
    d = {}
    for i, did in enumerate(ids):
        d[did] = {'pool_id': '_', kind: ({'core': 2 + i, 'ram': 8} if kind == 'capacities' else {'vlan_range': '1-100'})}
    return json.dumps(d)


def build_site(env, g, d1, d2):
    """Build a small site model through the real sliver / node / link operations.  Returns the id book."""
    from fim.graph.abc_property_graph import ABCPropertyGraph as A
    from fim.slivers.network_node import NodeSliver, NodeType
    from fim.slivers.attached_components import ComponentSliver, ComponentType, AttachedComponentsInfo
    from fim.slivers.network_service import NetworkServiceSliver, NetworkServiceInfo, ServiceType, NSLayer
    from fim.slivers.interface_info import InterfaceSliver, InterfaceInfo, InterfaceType
    from fim.slivers.network_link import NetworkLinkSliver, LinkType
    from fim.slivers.capacities_labels import Labels, StructuralInfo, Location, Flags, ReservationInfo
    from fim.slivers.tags import Tags
    from fim.slivers.json_data import UserData
    rng, v = env.rng, env.val
    b = {'nodes': [], 'comps': [], 'nss': [], 'cps': [], 'links': [], 'names': {}}

    def iface(tag, itype=InterfaceType.DedicatedPort):
        i = InterfaceSliver()
        i.node_id, i.resource_name, i.resource_type = v('cp'), v(tag), itype
        i.capacities = caps(rng)
        i.labels = Labels(mac='00:11:22:33:44:55', vlan=str(rng.randint(1, 4000)))
        b['cps'].append(i.node_id)
        b['names'][i.node_id] = i.resource_name
        return i

    def service(tag, stype, nif):
        s = NetworkServiceSliver()
        s.node_id, s.resource_name, s.resource_type = v('ns'), v(tag), stype
        s.layer = NSLayer.L2
        s.site = v('site')
        if nif:
            s.interface_info = InterfaceInfo()
            for _ in range(nif):
                s.interface_info.add_interface(iface('if'))
        b['nss'].append(s.node_id)
        b['names'][s.node_id] = s.resource_name
        return s

    def component(ctype, model):
        c = ComponentSliver()
        c.node_id, c.resource_name, c.resource_type, c.resource_model = v('c'), v('comp'), ctype, model
        c.capacities = caps(rng)
        c.details = v('details')
        c.network_service_info = NetworkServiceInfo()
        c.network_service_info.add_network_service(service('cns', ServiceType.OVS, 1))
        b['comps'].append(c.node_id)
        b['names'][c.node_id] = c.resource_name
        return c

    site = v('SITE')
    # server with components, through add_network_node_sliver
    n = NodeSliver()
    n.node_id, n.resource_name, n.resource_type, n.site = v('n'), v('server'), NodeType.Server, site
    n.capacities, n.resource_model = caps(rng), v('model')
    n.image_ref, n.image_type = v('img'), 'qcow2'
    n.location = Location(postal=v('100 Europa Dr., Chapel Hill'))
    n.tags = Tags('t1', 't2')
    n.flags = Flags(auto_config=True)
    n.user_data = UserData(json.dumps({'note': v('user note')}))
    n.boot_script = v('#!/bin/bash echo')
    n.reservation_info = ReservationInfo(reservation_id=v('rid'), reservation_state='Active')
    n.attached_components_info = AttachedComponentsInfo()
    b['model'] = v('ConnectX-6')
    n.attached_components_info.add_device(component(ComponentType.SmartNIC, b['model']))
    if rng.random() < 0.6:
        n.attached_components_info.add_device(component(ComponentType.GPU, v('RTX')))
    n.network_service_info = NetworkServiceInfo()
    n.network_service_info.add_network_service(service('nns', ServiceType.OVS, 1))
    call(g, 'add_network_node_sliver', sliver=n)
    b['nodes'].append(n.node_id)
    b['names'][n.node_id] = n.resource_name
    b['server'], b['site'] = n.node_id, site
    # a second component later through add_component_sliver
    c2 = component(ComponentType.SharedNIC, v('ConnectX-5'))
    call(g, 'add_component_sliver', parent_node_id=n.node_id, component=c2)
    # switch through add_node/add_link + services through add_network_service_sliver / add_interface_sliver
    sw = v('sw')
    call(g, 'add_node', node_id=sw, label=A.CLASS_NetworkNode,
         props={A.PROP_NAME: v('switch'), A.PROP_TYPE: 'Switch', A.PROP_SITE: site, A.PROP_STITCH_NODE: 'true',
                A.PROP_CAPACITIES: caps(rng).to_json()})
    b['nodes'].append(sw)
    b['switch'] = sw
    sws = service('mpls', ServiceType.MPLS, 2)
    call(g, 'add_network_service_sliver', parent_node_id=sw, network_service=sws)
    extra = iface('xif', InterfaceType.TrunkPort)
    call(g, 'add_interface_sliver', parent_node_id=sws.node_id, interface=extra)
    # a child interface below a dedicated port
    child = iface('child', InterfaceType.SubInterface)
    parent_cp = b['cps'][0]
    call(g, 'add_interface_sliver', parent_node_id=parent_cp, interface=child)
    b['parent_cp'], b['child_cp'] = parent_cp, child.node_id
    # slice-wide service without parent (uniqueness check path)
    free = service('l2bridge', ServiceType.L2Bridge, 0)
    call(g, 'add_network_service_sliver', parent_node_id=None, network_service=free)
    # facility node + a second switch in another site
    fac = v('fac')
    call(g, 'add_node', node_id=fac, label=A.CLASS_NetworkNode,
         props={A.PROP_NAME: v('facility'), A.PROP_TYPE: 'Facility', A.PROP_SITE: v('SITE2')})
    b['nodes'].append(fac)
    # links: component interface <-> switch interface
    swcps = [i.node_id for i in sws.interface_info.interfaces.values()]
    l = NetworkLinkSliver()
    l.node_id, l.resource_name, l.resource_type, l.layer = v('l'), v('link'), LinkType.Patch, NSLayer.L2
    call(g, 'add_network_link_sliver', lsliver=l, interfaces=[parent_cp, swcps[0]])
    b['links'].append(l.node_id)
    l2 = NetworkLinkSliver()
    l2.node_id, l2.resource_name, l2.resource_type, l2.layer = v('l'), v('link'), LinkType.L2Path, NSLayer.L2
    call(g, 'add_network_link_sliver', lsliver=l2, interfaces=[swcps[1], extra.node_id])
    b['links'].append(l2.node_id)
    b['swcps'] = swcps
    # a plain link with properties
    call(g, 'add_link', node_a=sw, rel=A.REL_HAS, node_b=fac, props={'Weight': v('w'), 'Note': v('note')})
    # delegations (two delegation ids) and structural info
    call(g, 'update_node_property', node_id=n.node_id, prop_name=A.PROP_CAPACITY_DELEGATIONS,
         prop_val=deleg_json([d1], 'capacities'))
    call(g, 'update_node_property', node_id=n.node_id, prop_name=A.PROP_LABEL_DELEGATIONS,
         prop_val=deleg_json([d1], 'labels'))
    for cid in b['comps'][:1]:
        call(g, 'update_node_property', node_id=cid, prop_name=A.PROP_CAPACITY_DELEGATIONS,
             prop_val=deleg_json([d1], 'capacities'))
    call(g, 'update_node_property', node_id=parent_cp, prop_name=A.PROP_LABEL_DELEGATIONS,
         prop_val=deleg_json([d2], 'labels'))
    call(g, 'update_node_property', node_id=swcps[1], prop_name=A.PROP_CAPACITY_DELEGATIONS,
         prop_val=deleg_json([d2], 'capacities'))
    return b


def pick_id(env, pool, p_missing=0.2):
    if not pool or env.rng.random() < p_missing:
        return env.val('missing')
    return env.rng.choice(pool)


def drive_generic(env, g, b, h):
    """Every public operation inherited from the property-graph abstraction, on object g (graph of book b);
    h is a second graph object with overlapping node ids."""
    from fim.graph.abc_property_graph import ABCPropertyGraph as A, GraphFormat
    rng, v = env.rng, env.val
    allids = b['nodes'] + b['comps'] + b['nss'] + b['cps'] + b['links']
    labels = [A.CLASS_NetworkNode, A.CLASS_Component, A.CLASS_NetworkService, A.CLASS_ConnectionPoint, A.CLASS_Link]
    call(g, 'get_graph_id')
    call(g, 'graph_exists')
    call(g, 'list_all_node_ids')
    for lab in labels:
        call(g, 'get_all_nodes_by_class', label=lab)
    call(g, 'get_all_nodes_by_class_and_type', label=A.CLASS_NetworkNode, ntype=rng.choice(['Server', 'Switch', v('T')]))
    call(g, 'get_all_network_nodes')
    call(g, 'get_all_network_links')
    call(g, 'get_all_network_service_nodes')
    call(g, 'get_stitch_nodes')
    for _ in range(3):
        call(g, 'get_node_properties', node_id=pick_id(env, allids))
    call(g, 'get_node_json_property_as_object', node_id=b['server'], prop_name=A.PROP_CAPACITIES)
    call(g, 'get_node_json_property_as_object', node_id=b['server'], prop_name=A.PROP_NAME)
    call(g, 'get_link_properties', node_a=b['switch'], node_b=b['nodes'][-1])
    call(g, 'get_link_properties', node_a=b['server'], node_b=pick_id(env, b['comps']))
    # node property updates
    fac_ = b['nodes'][-1]
    call(g, 'update_node_property', node_id=pick_id(env, allids), prop_name=rng.choice([A.PROP_NAME, A.PROP_DETAILS, 'Custom_1']),
         prop_val=v('pv'))
    call(g, 'update_node_property', node_id=b['server'], prop_name=A.PROP_CAPACITY_ALLOCATIONS, prop_val=caps(rng).to_json())
    call(g, 'update_node_properties', node_id=pick_id(env, allids),
         props={A.PROP_DETAILS: v('details'), A.PROP_CAPACITIES: caps(rng).to_json(), 'Custom_2': v('x'), 'Num': 7})
    call(g, 'update_node_properties', node_id=b['server'], props={})
    # values that are None (a caller clearing fields in bulk): one, two next to each other, several among ordinary ones
    call(g, 'update_node_properties', node_id=b['server'], props={A.PROP_DETAILS: None})
    call(g, 'update_node_properties', node_id=b['server'], props={A.PROP_LABELS: None, A.PROP_CAPACITIES: None})
    call(g, 'update_node_properties', node_id=pick_id(env, allids),
         props={'Custom_2': v('x'), A.PROP_LABELS: None, A.PROP_DETAILS: v('details'), 'Custom_4': None, A.PROP_CAPACITY_HINTS: None})
    call(g, 'update_link_properties', node_a=b['switch'], node_b=fac_, kind=A.REL_HAS, props={'Weight': None, 'Colour': None})
    call(g, 'unset_node_property', node_id=pick_id(env, allids), prop_name=rng.choice([A.PROP_DETAILS, 'Custom_1']))
    call(g, 'unset_node_property', node_id=b['server'], prop_name=A.PROP_NAME)      # refused: NO_UNSET
    call(g, 'update_nodes_property', prop_name=rng.choice(['Custom_3', A.PROP_DETAILS]), prop_val=v('all'))
    call(h, 'update_nodes_property', prop_name=A.PROP_STRUCTURAL_INFO, prop_val=json.dumps({'adm_graph_ids': [v('adm')]}))
    # link property updates
    fac = b['nodes'][-1]
    call(g, 'update_link_property', node_a=b['switch'], node_b=fac, kind=A.REL_HAS, prop_name='Weight', prop_val=v('w'))
    call(g, 'update_link_properties', node_a=b['switch'], node_b=fac, kind=A.REL_HAS,
         props={'Weight': v('w'), 'Colour': v('blue')})
    call(g, 'update_link_properties', node_a=b['switch'], node_b=fac, kind=A.REL_HAS, props={})
    # read-modify-write: what get_link_properties() returns (Class among it, first) with entries edited, handed back
    call(g, 'update_link_properties', node_a=b['switch'], node_b=fac, kind=A.REL_HAS,
         props={'Class': A.REL_HAS, 'Weight': v('w'), 'Colour': v('blue')})
    call(g, 'update_link_properties', node_a=b['switch'], node_b=fac, kind=A.REL_HAS,
         props={'Weight': v('w'), 'Class': A.REL_HAS, 'Colour': v('blue')})
    call(g, 'update_link_properties', node_a=b['switch'], node_b=fac, kind=A.REL_HAS, props={'Weight': v('w')})
    call(g, 'update_node_properties', node_id=b['server'], props={'Custom_2': v('x')})
    call(g, 'unset_link_property', node_a=b['switch'], node_b=fac, kind=A.REL_HAS, prop_name='Note')
    call(g, 'update_link_property', node_a=pick_id(env, allids, 0.5), node_b=fac, kind=A.REL_CONNECTS, prop_name='Weight',
         prop_val=v('w'))
    # existence / uniqueness
    for lab in rng.sample(labels, 2):
        call(g, 'node_exists', node_id=pick_id(env, allids), label=lab)
        call(g, 'check_node_unique', label=lab, name=rng.choice(list(b['names'].values()) + [v('nm')]))
    # neighbours and paths
    call(g, 'get_first_neighbor', node_id=b['server'], rel=A.REL_HAS, node_label=A.CLASS_Component)
    call(g, 'get_first_neighbor', node_id=pick_id(env, allids), rel=A.REL_CONNECTS, node_label=A.CLASS_ConnectionPoint)
    call(g, 'get_first_and_second_neighbor', node_id=b['server'], rel1=A.REL_HAS, node1_label=A.CLASS_NetworkService,
         rel2=A.REL_CONNECTS, node2_label=A.CLASS_ConnectionPoint)
    call(g, 'get_first_and_second_neighbor', node_id=pick_id(env, b['cps']), rel1=A.REL_CONNECTS,
         node1_label=A.CLASS_Link, rel2=A.REL_CONNECTS, node2_label=A.CLASS_ConnectionPoint)
    call(g, 'get_nodes_on_shortest_path', node_a=b['server'], node_z=b['switch'])
    call(g, 'get_nodes_on_shortest_path', node_a=b['server'], node_z=pick_id(env, allids), rel=A.REL_HAS)
    call(g, 'get_nodes_on_path_with_hops', node_a=b['server'], node_z=b['switch'], hops=[b['parent_cp']])
    call(g, 'get_nodes_on_path_with_hops', node_a=b['server'], node_z=pick_id(env, allids), hops=[], cut_off=rng.randint(1, 50))
    # list arguments with one element, with several, and with the same element named twice
    h1, h2 = pick_id(env, allids, 0), pick_id(env, allids, 0)
    call(g, 'get_nodes_on_path_with_hops', node_a=b['server'], node_z=b['switch'], hops=[h1, h2])
    call(g, 'get_nodes_on_path_with_hops', node_a=b['server'], node_z=b['switch'], hops=[h1, h2, h1])
    call(g, 'get_nodes_on_path_with_hops', node_a=b['server'], node_z=b['switch'], hops=[h1, h1])
    # the same element named twice: an unusual but legal argument combination for every two-element operation
    same = pick_id(env, allids)
    call(g, 'get_nodes_on_shortest_path', node_a=same, node_z=same)
    call(g, 'get_nodes_on_shortest_path', node_a=same, node_z=same, rel=A.REL_CONNECTS)
    call(g, 'get_nodes_on_path_with_hops', node_a=same, node_z=same, hops=[same])
    call(g, 'get_link_properties', node_a=same, node_b=same)
    # composite readers
    call(g, 'build_deep_node_sliver', node_id=b['server'])
    call(g, 'build_deep_node_sliver', node_id=b['switch'])
    call(g, 'build_deep_component_sliver', node_id=pick_id(env, b['comps'], 0.1))
    call(g, 'build_deep_ns_sliver', node_id=pick_id(env, b['nss'], 0.1))
    call(g, 'build_deep_interface_sliver', node_id=b['parent_cp'])
    call(g, 'build_deep_interface_sliver', node_id=pick_id(env, b['cps'], 0.1))
    call(g, 'build_deep_link_sliver', node_id=pick_id(env, b['links'], 0.1))
    call(g, 'get_all_ns_or_link_connection_points', link_id=pick_id(env, b['links'] + b['nss'], 0.1))
    call(g, 'get_all_child_connection_points', interface_id=b['parent_cp'])
    call(g, 'get_all_node_or_component_connection_points', parent_node_id=rng.choice([b['server']] + b['comps']))
    call(g, 'get_parent', node_id=pick_id(env, b['comps'], 0.1), rel=A.REL_HAS, parent=A.CLASS_NetworkNode)
    call(g, 'get_parent', node_id=pick_id(env, b['cps'], 0.1), rel=A.REL_CONNECTS, parent=A.CLASS_NetworkService)
    call(g, 'find_peer_connection_points', node_id=b['parent_cp'])
    call(g, 'find_peer_connection_points', node_id=pick_id(env, b['cps']))
    # validation (rules from the data file + JSON properties)
    call(g, 'validate_graph')
    M.ctx.count('flow:validate_graph')
    call(g, 'validate_graph', validate_json=False)
    # two-graph operations
    call(g, 'find_matching_nodes', other_graph=h)
    for lab in rng.sample(labels, 2):
        call(g, 'get_graph_diff', other_graph=h, label=lab)
        call(g, 'get_graph_diff', h, lab)
        call(g, 'get_graph_property_diff', other_graph=h, label=lab)
    common = [i for i in M.shadow.ids(g.graph_id) if i in set(M.shadow.ids(h.graph_id))]
    if common:
        call(g, 'merge_nodes', node_id=common[0], other_graph=h)
    if len(common) > 1:
        call(g, 'merge_nodes', node_id=common[1], other_graph=h,
             merge_properties={'Name': 'discard', 'Capacities': 'overwrite', '`Custom.*`': 'combine', '`.*`': 'discard'})
    call(g, 'merge_nodes', pick_id(env, allids), h, None)
    # the optional policy given but empty, and with a single entry (container boundaries of the map that is spelled into the text)
    call(g, 'merge_nodes', node_id=pick_id(env, allids), other_graph=h, merge_properties={})
    call(g, 'merge_nodes', node_id=pick_id(env, allids), other_graph=h, merge_properties={'Name': 'overwrite'})
    # serialization / clone / import bookkeeping
    s = call(g, 'serialize_graph')
    call(g, 'serialize_graph', format=GraphFormat.GRAPHML)
    clone_id = v('clone')
    cl = call(g, 'clone_graph', new_graph_id=clone_id)
    if cl is not None:
        M.ctx.count('flow:clone_graph')
        call(cl, 'list_all_node_ids')
    imp = env.imp
    if isinstance(s, str):
        r = call(imp, 'import_graph_from_string', graph_string=s, graph_id=v('imported'))
        if r is not None:
            M.ctx.count('flow:import_graph_from_string')
        call(imp, 'import_graph_from_string', graph_string=s)
        # *_direct keep the GraphID found in the file
        from fim.graph.graph_util import GraphML
        try:
            s2 = GraphML.networkx_to_neo4j(s)
        except Exception:
            s2 = s
        call(imp, 'import_graph_from_string_direct', graph_string=s2)
        fn = os.path.join(M.tmpdir, 'in-%d.graphml' % rng.randrange(10 ** 9))
        with open(fn, 'w') as f:
            f.write(s2)
        call(imp, 'import_graph_from_file', graph_file=fn, graph_id=v('fromfile'))
        call(imp, 'import_graph_from_file_direct', graph_file=fn)
        os.unlink(fn)
    call(imp, 'cast_graph', graph_id=g.graph_id)
    call(imp, 'cast_graph', graph_id=v('nosuch'))
    call(imp, 'delete_graph', graph_id=clone_id)


def drive_removals(env, g, b):
    rng = env.rng
    call(g, 'remove_cp_and_links', node_id=b['child_cp'])
    call(g, 'remove_cp_and_links', node_id=pick_id(env, b['cps']), delete_parent=False)
    call(g, 'remove_network_link', node_id=pick_id(env, b['links'], 0.1))
    call(g, 'remove_ns_with_cps_and_links', node_id=pick_id(env, b['nss'], 0.1))
    call(g, 'remove_component_with_nss_cps_and_links', node_id=pick_id(env, b['comps'], 0.1))
    call(g, 'remove_network_node_with_components_nss_cps_and_links', node_id=b['server'])
    call(g, 'remove_network_node_with_components_nss_cps_and_links', node_id=pick_id(env, b['comps']))
    call(g, 'delete_node', node_id=pick_id(env, b['nodes']))
    call(g, 'delete_graph')


def drive_asm(env, g, b):
    from fim.graph.abc_property_graph import ABCPropertyGraph as A
    rng, v = env.rng, env.val
    names = b['names']
    srv = b['server']
    call(g, 'check_node_name', node_id=srv, label=A.CLASS_NetworkNode, name=names[srv])
    call(g, 'check_node_name', node_id=pick_id(env, b['comps']), label=A.CLASS_Component, name=v('nm'))
    call(g, 'find_node_by_name', node_name=names[srv], label=A.CLASS_NetworkNode)
    call(g, 'find_node_by_name', node_name=v('nm'), label=A.CLASS_NetworkService)
    call(g, 'set_mapping', node_id=srv, to_graph_id=v('bqm'), to_node_id=v('bqmnode'))
    call(g, 'get_mapping', node_id=srv)
    call(g, 'get_mapping', node_id=pick_id(env, b['comps']))
    c0 = b['comps'][0]
    call(g, 'find_node_by_name_as_child', node_name=names[c0], label=A.CLASS_Component, rel=A.REL_HAS, parent_node_id=srv)
    call(g, 'find_node_by_name_as_child', node_name=v('nm'), label=A.CLASS_Component, rel=A.REL_HAS, parent_node_id=srv)
    call(g, 'get_all_network_node_components', parent_node_id=srv)
    call(g, 'get_all_network_node_components', parent_node_id=c0)
    call(g, 'get_all_network_node_or_component_nss', parent_node_id=rng.choice([srv, c0]))
    call(g, 'find_component_by_name', parent_node_id=srv, component_name=names[c0])
    call(g, 'find_component_by_name', parent_node_id=srv, component_name=v('nm'))
    nss = M.shadow.neighbors(g.graph_id, c0, A.REL_HAS, A.CLASS_NetworkService)
    nsid = nss[0]['props']['NodeID'] if nss else pick_id(env, b['nss'])
    call(g, 'find_ns_by_name', parent_node_id=c0, nsname=names.get(nsid, v('nm')))
    call(g, 'find_ns_by_name', parent_node_id=srv, nsname=v('nm'))
    cps = M.shadow.neighbors(g.graph_id, nsid, A.REL_CONNECTS, A.CLASS_ConnectionPoint)
    cpid = cps[0]['props']['NodeID'] if cps else pick_id(env, b['cps'])
    call(g, 'find_connection_point_by_name', parent_node_id=nsid, iname=names.get(cpid, v('nm')))
    call(g, 'find_connection_point_by_name', parent_node_id=nsid, iname=v('nm'))
    call(g, 'find_child_connection_point_by_name', parent_node_id=b['parent_cp'], iname=names[b['child_cp']])
    call(g, 'find_child_connection_point_by_name', parent_node_id=b['parent_cp'], iname=v('nm'))


def drive_arm_adm_cbm(env, arm, b, d1, d2, want):
    """ARM -> ADMs -> CBM (merge / queries / snapshot / rollback / unmerge).  `want` = class under focus."""
    from fim.graph.abc_property_graph import ABCPropertyGraph as A
    from fim.slivers.delegations import DelegationType, Delegations, Delegation, Pools, Pool
    from fim.slivers.capacities_labels import Capacities, Labels
    from fim.slivers.attached_components import ComponentSliver, ComponentType, AttachedComponentsInfo
    rng, v, imp = env.rng, env.val, env.imp
    C = _classes()
    # ARM specific
    call(arm, 'get_delegations', node_id=b['server'], delegation_type=DelegationType.CAPACITY)
    call(arm, 'get_delegations', node_id=b['switch'], delegation_type=DelegationType.LABEL)
    arm.node_ids = M.shadow.ids(arm.graph_id)
    call(arm, 'catalog_delegations')
    # annotate: one pool + one single delegation
    try:
        pools = Pools(atype=DelegationType.CAPACITY)
        pool = Pool(atype=DelegationType.CAPACITY, pool_id=v('pool'), delegation_id=d1, defined_on=b['comps'][-1],
                    defined_for=[b['comps'][-1], b['nss'][-1]])
        pool.set_pool_details(Capacities(core=4))
        pools.add_pool(pool=pool)
        pools.build_index_by_delegation_id()
        dl = Delegations(atype=DelegationType.CAPACITY)
        de = Delegation(atype=DelegationType.CAPACITY, delegation_id=d2)
        de.set_details(Capacities(unit=1))
        dl.add_delegations(de)
        call(arm, 'annotate_delegations_and_pools', dels={b['links'][0]: dl}, pools=pools)
    except Exception as e:
        M.ctx.info.setdefault('workload_notes', [])
        if len(M.ctx.info['workload_notes']) < 5:
            M.ctx.info['workload_notes'].append('pools: ' + repr(e)[:200])
    guids = None if rng.random() < 0.5 else {d1: v('adm-guid')}
    adms = call(arm, 'generate_adms', delegation_guids=guids)
    if not adms:
        return
    M.ctx.count('flow:generate_adms')
    adm_graphs = list(adms.values())
    # ADM specific
    adm0 = C['Neo4jADMGraph'](graph_id=adm_graphs[0].graph_id, importer=imp)
    adm_copy = call(adm0, 'clone_graph', new_graph_id=v('admcopy'))
    if adm_copy is not None:
        admc = C['Neo4jADMGraph'](graph_id=adm_copy.graph_id, importer=imp)
        call(admc, 'rewrite_delegations')
        call(admc, 'rewrite_delegations', real_adm_id=v('real-adm'))
    # CBM
    cbm = C['Neo4jCBMGraph'](graph_id=v('cbm'), importer=imp) if rng.random() < 0.7 else C['Neo4jCBMGraph'](importer=imp)
    call(cbm, 'merge_adm', adm=adm_graphs[0])
    for other in adm_graphs[1:]:
        before = M.prim_calls.get('merge_nodes', 0)
        call(cbm, 'merge_adm', adm=other)
        if M.prim_calls.get('merge_nodes', 0) > before:
            M.ctx.count('flow:merge_adm-nonempty')
    call(cbm, 'validate_graph')
    ids = M.shadow.ids(cbm.graph_id)
    for atype in (DelegationType.CAPACITY, DelegationType.LABEL):
        call(cbm, 'get_delegations', node_id=pick_id(env, ids, 0.1), adm_id=adm_graphs[0].graph_id, delegation_type=atype)
    # queries
    props = {'Site': b['site'], 'Type': 'Server'}
    call(cbm, 'get_matching_nodes_with_components', label=A.CLASS_NetworkNode, props=props)
    call(cbm, 'get_matching_nodes_with_components', label=A.CLASS_NetworkNode, props={'Name': v('nm')}, comps=None)
    ci = AttachedComponentsInfo()
    for i, (ct, model) in enumerate([(ComponentType.SmartNIC, b['model']), (ComponentType.SmartNIC, b['model']),
                                     (ComponentType.SharedNIC, None), (ComponentType.GPU, v('RTX')),
                                     (None, v('anymodel'))]):
        c = ComponentSliver()
        c.resource_name, c.resource_type, c.resource_model = f'c{i}', ct, model
        ci.devices[c.resource_name] = c          # add_device() refuses a type-less request the query code supports
    call(cbm, 'get_matching_nodes_with_components', label=A.CLASS_NetworkNode, props=props, comps=ci)
    call(cbm, 'get_matching_nodes_with_components', label=A.CLASS_NetworkNode, props={}, comps=ci)
    from fim.slivers.attached_components import AttachedComponentsInfo as _ACI
    call(cbm, 'get_matching_nodes_with_components', label=A.CLASS_NetworkNode, props=props, comps=_ACI())
    call(cbm, 'get_matching_nodes_with_components', label=A.CLASS_NetworkNode, props={}, comps=_ACI())
    for q in ('get_intersite_links', 'get_sites', 'get_disconnected_sites', 'get_connected_sites', 'get_facility_ports'):
        call(cbm, q)
    call(cbm, 'get_bqm')
    snap = call(cbm, 'snapshot')
    if snap is not None:
        call(cbm, 'update_node_property', node_id=pick_id(env, ids, 0), prop_name=A.PROP_DETAILS, prop_val=v('changed'))
        call(cbm, 'rollback', graph_id=snap)
    before = M.prim_calls.get('delete_node', 0) + M.prim_calls.get('update_node_property', 0)
    call(cbm, 'unmerge_adm', graph_id=adm_graphs[-1].graph_id)
    if M.prim_calls.get('delete_node', 0) + M.prim_calls.get('update_node_property', 0) > before:
        M.ctx.count('flow:unmerge_adm')
    call(cbm, 'unmerge_adm', graph_id=v('unknown-adm'))
    return cbm


def drive_topology(env):
    """ExperimentTopology on the Neo4j importer: the user API issues its statements through Neo4jASM."""
    import fim.user as fu
    v = env.val
    hub = M.hub
    prev = hub.public
    hub.public = ('Neo4jASM', 'via fim.user.ExperimentTopology')
    before = len(hub.log)
    try:
        t = fu.ExperimentTopology(importer=env.imp)
        n1 = t.add_node(name='n1', site='RENC', ntype=fu.NodeType.VM)
        n1.set_properties(capacities=fu.Capacities(core=2, ram=8, disk=10), image_ref='default_centos_8', image_type='qcow2')
        c1 = n1.add_component(ctype=fu.ComponentType.SmartNIC, model='ConnectX-6', name='nic1')
        n2 = t.add_node(name='n2', site='UKY')
        c2 = n2.add_component(ctype=fu.ComponentType.SharedNIC, model='ConnectX-6', name='nic2')
        t.add_network_service(name='bridge1', nstype=fu.ServiceType.L2STS,
                              interfaces=[c1.interface_list[0], c2.interface_list[0]])
        n1.set_properties(user_data=fu.UserData(json.dumps({'k': v('user')})))
        _ = list(t.nodes.keys()), list(t.network_services.keys()), list(t.interface_list)
        t.remove_node(name='n2')
        M.ctx.count('flow:topology-on-neo4j')
    except Exception as e:
        M.ctx.info.setdefault('workload_notes', [])
        if len(M.ctx.info['workload_notes']) < 5:
            M.ctx.info['workload_notes'].append('topology: ' + repr(e)[:300])
        if len(hub.log) - before > 10:
            M.ctx.count('flow:topology-on-neo4j')
    finally:
        note_call('Neo4jASM', '(fim.user.ExperimentTopology)', len(hub.log) - before)
        hub.public = prev


def one_case(ctx, cname, rng, index):
    import uuid
    # the library draws graph ids / file names from uuid4: make them a function of the case seed
    uuid.uuid4 = lambda: uuid.UUID(int=rng.getrandbits(128), version=4)
    env = Env(ctx, rng, hostile=0.0 if index % 3 == 0 else 0.5)
    # every other case runs with a logger at DEBUG handed to the importer (graphs made through it inherit it)
    import logging
    if index % 2:
        # (the harness silences logging process-wide; these cases need it live - every other logger of the process is kept
        # quiet by raising the root level instead)
        logging.disable(logging.NOTSET)
        logging.getLogger().setLevel(logging.CRITICAL + 1)
        ctx.count('cases:logger-at-debug')
    else:
        logging.disable(logging.CRITICAL)
    env.imp = imp = new_importer(reset_indexes=True, logger=debug_logger() if index % 2 else None)
    call(imp, 'delete_all_graphs')
    M.shadow.clear()
    v = env.val
    d1, d2 = v('primary'), v('secondary')
    gid, hid = v('graph'), v('other')
    g = make(cname, gid, imp)
    b = build_site(env, g, d1, d2)
    # second graph sharing some node ids with the first
    h = make('Neo4jPropertyGraph', hid, imp)
    from fim.graph.abc_property_graph import ABCPropertyGraph as A
    for nid in (b['server'], b['switch'], b['comps'][0]):
        n = M.shadow.node(gid, nid)
        call(h, 'add_node', node_id=nid, label=n['props']['Class'],
             props={A.PROP_NAME: v('hname'), A.PROP_TYPE: n['props'].get('Type', 'Server'),
                    A.PROP_CAPACITIES: caps(rng).to_json(), A.PROP_LABELS: json.dumps({'vlan': '7'})})
    call(h, 'add_node', node_id=v('only-h'), label=A.CLASS_NetworkNode, props={A.PROP_NAME: v('hname'), A.PROP_TYPE: 'Server'})
    # property dictionaries that are empty or only repeat the identity of the call (what get_node_properties() returns for a bare
    # node, handed to add_node when copying it): the map in the statement is then made of the identity alone
    call(h, 'add_node', node_id=v('bare-1'), label=A.CLASS_NetworkNode, props={})
    bid = v('bare-2')
    call(h, 'add_node', node_id=bid, label=A.CLASS_NetworkNode, props={A.NODE_ID: bid})
    bid = v('bare-3')
    call(h, 'add_node', node_id=bid, label=A.CLASS_Link, props={'Class': A.CLASS_Link, A.GRAPH_ID: hid, A.NODE_ID: bid})
    bid = v('bare-4')
    call(h, 'add_node', node_id=bid, label=A.CLASS_Link, props={A.GRAPH_ID: hid, A.PROP_NAME: v('hname')})
    call(h, 'add_link', node_a=b['server'], rel=A.REL_HAS, node_b=b['comps'][0])
    call(h, 'add_link', node_a=b['server'], rel=A.REL_CONNECTS, node_b=b['switch'], props=None)
    # an end node that does not exist (caller mistake / deleted meanwhile): whatever the backend then says to the driver is judged too
    call(h, 'add_link', node_a=b['server'], rel=A.REL_CONNECTS, node_b=v('missing-end'))
    call(h, 'add_link', node_a=v('missing-end'), rel=A.REL_HAS, node_b=b['switch'], props={'Weight': v('w')})
    ctx.sample({'class': cname, 'graph_id': gid, 'book': {k: b[k] for k in ('nodes', 'comps', 'links')},
                'hostile_primary_values': env.hostile})
    drive_generic(env, g, b, h)
    if cname == 'Neo4jASM':
        drive_asm(env, g, b)
        drive_topology(env)
    # factories / casts (constructors on an existing graph)
    from fim.graph.slices.neo4j_asm import Neo4jASMFactory
    from fim.graph.resources.neo4j_arm import Neo4jARMFactory
    from fim.graph.resources.neo4j_adm import Neo4jADMFactory
    from fim.graph.resources.neo4j_cbm import Neo4jCBMFactory
    plain = make('Neo4jPropertyGraph', gid, imp)
    if cname in ('Neo4jARMGraph', 'Neo4jADMGraph', 'Neo4jCBMGraph'):
        arm = g if cname == 'Neo4jARMGraph' else Neo4jARMFactory.create(plain)
        cbm = drive_arm_adm_cbm(env, arm, b, d1, d2, cname)
        if cname == 'Neo4jADMGraph':
            call(g, 'rewrite_delegations')
        if cname == 'Neo4jCBMGraph':
            # the CBM-only operations also on the object under focus (graph g itself)
            for q in ('get_intersite_links', 'get_sites', 'get_disconnected_sites', 'get_connected_sites',
                      'get_facility_ports', 'get_bqm', 'snapshot'):
                call(g, q)
    else:
        for fac in (Neo4jASMFactory, Neo4jADMFactory, Neo4jCBMFactory):
            fac.create(plain)
    drive_removals(env, g, b)
    call(imp, 'delete_all_graphs')


def finish(ctx):
    pub = public_operations()
    reached = set(M.calls)
    unreached = sorted(f'{c}.{m}' for c, m in pub if f'{c}.{m}' not in reached)
    ctx.info['unreached_operations'] = unreached
    ctx.info['public_operations_total'] = len(pub) if ctx.shard == 0 else 0
    ctx.info['public_operations_reached'] = len([1 for c, m in pub if f'{c}.{m}' in reached]) if ctx.shard == 0 else 0
    ctx.info['calls'] = dict(sorted(M.calls.items()))
    ctx.info['statements'] = dict(sorted(M.statements.items()))
    ctx.info['primitive_calls'] = dict(sorted(M.prim_calls.items()))
    ctx.info['operations_that_raised'] = dict(sorted(M.op_raised.items()))
    ctx.info['captured_statements'] = len(M.hub.log)
    ctx.info['statement_templates'] = dict(sorted(M.templates.items()))
    if M.undriven_args:
        ctx.info['argument_kinds_not_varied'] = sorted(M.undriven_args)
    never = sorted(p for p in M.primitives if p not in M.prim_calls)
    ctx.info['primitives_never_reached'] = never
    for p in never:
        ctx.mark_inconclusive(f'statement-building function {p} was never reached by the workload')
    if M.hub.outside:
        ctx.mark_inconclusive(f'{M.hub.outside} statement(s) reached the driver outside every monitored function '
                              f'(a statement-building function the discovery missed)')
    for k, n in M.prim_calls.items():
        ctx.count('prim:' + k, n)


def run(ctx):
    bad = L.selftest()
    if bad:
        ctx.mark_inconclusive('cypher_lex self test failed: ' + repr(bad[:2])[:600])
        return
    ctx.count('lexer-selftest')
    install(ctx)
    ncases = ctx.pick(10, 30)
    i = 0
    while i < ncases:
        # every shard sweeps all five classes first (deterministic, identical coverage table in every shard)
        cname = CLASS_ORDER[i % len(CLASS_ORDER)]
        rng = ctx.subrng('case', i)
        one_case(ctx, cname, rng, i + ctx.shard)
        i += 1
        if i >= len(CLASS_ORDER) and ctx.out_of_time():
            break
    ctx.info['cases'] = i
    finish(ctx)


def replay(ctx, case):
    """Re-execute the one primitive call of the witness with exactly the recorded value."""
    L.selftest()
    install(ctx)
    w = case['witness']
    imp = new_importer(reset_indexes=(w['op'] == 'importer._add_indexes'))
    opname = w['op']
    if opname not in M.primitives:
        ctx.mark_inconclusive(f'{opname} is no longer a statement-building function')
        return
    cls, name, fn, sig = M.primitives[opname]
    args = {}
    for k, v in (w.get('args') or {}).items():
        if isinstance(v, dict) and '__repr__' in v:
            continue        # not JSON-able (an enum ...): the default of the parameter is used
        if isinstance(v, dict) and '__graph__' in v:
            v = make('Neo4jPropertyGraph', v['__graph__'], imp)
        elif isinstance(v, dict) and '__comps__' in v:
            from fim.slivers.attached_components import ComponentSliver, ComponentType, AttachedComponentsInfo
            ci = AttachedComponentsInfo()
            for ct, model, dn in v['__comps__']:
                c = ComponentSliver()
                c.resource_name, c.resource_model = dn, model
                c.resource_type = ComponentType[ct] if ct and ct in ComponentType.__members__ else None
                ci.devices[dn] = c
            v = ci
        args[k] = v
    if 'value' in w:
        M.forced_values = [w['value']]
        M.forced_path = w.get('path')
    rows_wanted = list(w.get('answer_rows') or [])

    def responder(top, text, params, ordinal, _n=[0]):
        # same NUMBER of records per statement as in the recorded execution (content shaped from the RETURN clause)
        i = _n[0]
        _n[0] += 1
        want = rows_wanted[i] if i < len(rows_wanted) else 0
        rows, keys = F.shaped_answer(text)
        if want and not rows:
            from collections import OrderedDict
            rows = [OrderedDict((k, True) for k in (keys or ['value']))]
        return [rows[0]] * want if rows else []
    if opname.startswith('importer.'):
        obj = imp
    else:
        cname = w.get('class') if w.get('class') in _classes() else 'Neo4jPropertyGraph'
        if not issubclass(_classes()[cname], cls):
            cname = [c for c, k in _classes().items() if issubclass(k, cls)][0]
        obj = make(cname, w.get('graph_id') or 'g', imp)
    M.hub.public = tuple(w.get('public') or ()) or None
    M.hub.responder = responder
    try:
        getattr(obj, name)(**args)
    except Exception as e:
        ctx.info['replay_raised'] = repr(e)[:300]
